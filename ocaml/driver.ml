(* modelrun: runs the extracted Coq model on cases read from stdin (one case per line, prefix wire
   format) and prints one canonical result per line.  No external libraries. *)
open BinNums

(* ---- conversions ------------------------------------------------------------------------- *)
let rec pos_of_int (i : int) : positive =
  if i = 1 then Coq_xH
  else if i land 1 = 0 then Coq_xO (pos_of_int (i lsr 1))
  else Coq_xI (pos_of_int (i lsr 1))
let n_of_int (i : int) : coq_N = if i = 0 then N0 else Npos (pos_of_int i)
let rec int_of_pos (p : positive) : int =
  match p with Coq_xH -> 1 | Coq_xO q -> 2 * int_of_pos q | Coq_xI q -> 2 * int_of_pos q + 1
let int_of_n (x : coq_N) : int = match x with N0 -> 0 | Npos p -> int_of_pos p
let rec nat_of_int (i : int) : Datatypes.nat = if i <= 0 then Datatypes.O else Datatypes.S (nat_of_int (i - 1))
let rec int_of_nat (x : Datatypes.nat) : int = match x with Datatypes.O -> 0 | Datatypes.S y -> 1 + int_of_nat y

let str_of_ascii (s : string) : coq_N list = List.init (String.length s) (fun i -> n_of_int (Char.code s.[i]))
let ascii_of_str (l : coq_N list) : string = String.concat "" (List.map (fun c -> String.make 1 (Char.chr (int_of_n c))) l)
let z_of_string (s : string) : coq_Z = Str0.coq_Z_of_dec (str_of_ascii s)
let string_of_z (x : coq_Z) : string = ascii_of_str (Str0.coq_Z_to_dec x)

(* ---- token reader ------------------------------------------------------------------------- *)
exception Bad of string
type rd = { mutable toks : string list }
let next r = match r.toks with t :: l -> r.toks <- l; t | [] -> raise (Bad "eof")
let tail s k = String.sub s k (String.length s - k)
let cps_of (s : string) : coq_N list =
  if s = "" then [] else List.map (fun x -> n_of_int (int_of_string x)) (String.split_on_char ',' s)
let get_str r = let t = next r in if t.[0] <> 's' then raise (Bad ("str:" ^ t)) else cps_of (tail t 1)
let get_int r = let t = next r in if t.[0] <> 'i' then raise (Bad ("int:" ^ t)) else z_of_string (tail t 1)
let get_nat r = let t = next r in if t.[0] <> 'u' then raise (Bad ("nat:" ^ t)) else nat_of_int (int_of_string (tail t 1))
let get_n r = let t = next r in if t.[0] <> 'u' then raise (Bad ("n:" ^ t)) else n_of_int (int_of_string (tail t 1))
let get_bool r = let t = next r in if t = "b1" then true else if t = "b0" then false else raise (Bad ("bool:" ^ t))
let scalar_of_tok (t : string) : Value.scalar =
  match t.[0] with
  | 'i' -> Value.SInt (z_of_string (tail t 1))
  | 'f' -> Value.SFloat (cps_of (tail t 1))
  | 'b' -> Value.SBool (t = "b1")
  | 'n' -> Value.SNone
  | 's' -> Value.SStr (cps_of (tail t 1))
  | _ -> raise (Bad ("scalar:" ^ t))
let get_scalar r = scalar_of_tok (next r)
let get_key r =
  let t = next r in
  if String.length t >= 2 && t.[0] = 'k' && t.[1] = 'i' then Value.KI (z_of_string (tail t 2))
  else if String.length t >= 2 && t.[0] = 'k' && t.[1] = 's' then Value.KS (cps_of (tail t 2))
  else raise (Bad ("key:" ^ t))
let rec get_list r f =
  let t = next r in
  if t.[0] <> 'l' then raise (Bad ("list:" ^ t))
  else let k = int_of_string (tail t 1) in List.init k (fun _ -> ()) |> List.map (fun () -> f r)
let rec get_tree r : Value.tree =
  let t = next r in
  match t.[0] with
  | 'D' -> let k = int_of_string (tail t 1) in
           let rec go i acc = if i = 0 then List.rev acc else
               let key = get_key r in let v = get_tree r in go (i - 1) ((key, v) :: acc) in
           Value.Dict (go k [])
  | 'L' -> let k = int_of_string (tail t 1) in
           let rec go i acc = if i = 0 then List.rev acc else let v = get_tree r in go (i - 1) (v :: acc) in
           Value.Lst (go k [])
  | _ -> Value.Leaf (scalar_of_tok t)
let get_opt r f = let t = next r in if t = "none" then None else if t = "some" then Some (f r) else raise (Bad ("opt:" ^ t))

let get_path r = get_list r get_key
let get_kvs r = match get_tree r with Value.Dict kvs -> kvs | _ -> raise (Bad "kvs: dict expected")
let get_tab r f =
  let t = next r in
  if t.[0] <> 'T' then raise (Bad ("tab:" ^ t)) else
  let k = int_of_string (tail t 1) in
  let rec go i acc = if i = 0 then List.rev acc else
      let id = get_n r in let v = f r in go (i - 1) ((id, v) :: acc) in
  go k []
let get_sdict r : SDict.sdict =
  let t = next r in
  if t <> "SD" then raise (Bad ("sdict:" ^ t)) else
  let data = get_kvs r in
  let lc = get_tab r get_str in
  let bc = get_tab r get_str in
  let inc = get_tab r (fun r -> let a = get_str r in let b = get_str r in let c = get_str r in ((a, b), c)) in
  let ex = get_tab r (fun r -> let a = get_str r in let b = get_str r in (a, b)) in
  { SDict.sd_data = data; sd_lc = lc; sd_bc = bc; sd_inc = inc; sd_expr = ex }
let get_other r = get_opt r get_sdict
let get_sdop r : SDict.sdop =
  match next r with
  | "set" -> let k = get_key r in let v = get_tree r in SDict.OSet (k, v)
  | "del" -> SDict.ODel (get_key r)
  | "update" -> let m = get_kvs r in let o = get_other r in SDict.OUpdate (m, o)
  | "or" -> let m = get_kvs r in let o = get_other r in SDict.OOr (m, o)
  | "ror" -> SDict.ORor (get_kvs r)
  | "pop" -> SDict.OPop (get_key r)
  | "setdefault" -> let k = get_key r in let v = get_tree r in SDict.OSetdefault (k, v)
  | "clear" -> SDict.OClear
  | "copy" -> SDict.OCopy
  | "ctor" -> SDict.OCtor
  | "merge" -> let m = get_kvs r in let o = get_other r in SDict.OMerge (m, o)
  | t -> raise (Bad ("sdop:" ^ t))

let get_fs r : (coq_N list * Reader.funit) list =
  get_list r (fun r ->
    let p = get_str r in
    match next r with
    | "native" -> let t = get_str r in (p, Reader.FNative t)
    | "json" -> let t = get_kvs r in (p, Reader.FJson t)
    | t -> raise (Bad ("funit:" ^ t)))

let rec get_elem r : Xml.elem =
  let t = next r in
  if t <> "E" then raise (Bad ("elem:" ^ t)) else
  let tag = get_str r in
  let attrs = get_list r (fun r -> let a = get_str r in let b = get_str r in (a, b)) in
  let text = get_opt r get_str in
  let kids = get_list r get_elem in
  Xml.Elem (tag, attrs, text, kids)

(* ---- printer ------------------------------------------------------------------------------ *)
let b = Buffer.create 65536
let sp () = Buffer.add_char b ' '
let put s = Buffer.add_string b s
let cps (l : coq_N list) = String.concat "," (List.map (fun c -> string_of_int (int_of_n c)) l)
let put_str l = put "s"; put (cps l)
let put_int x = put "i"; put (string_of_z x)
let put_n x = put "u"; put (string_of_int (int_of_n x))
let put_nat x = put "u"; put (string_of_int (int_of_nat x))
let put_bool x = put (if x then "b1" else "b0")
let put_scalar (v : Value.scalar) =
  match v with
  | Value.SInt x -> put_int x
  | Value.SFloat l -> put "f"; put (cps l)
  | Value.SBool x -> put_bool x
  | Value.SNone -> put "n"
  | Value.SStr l -> put_str l
let put_key (k : Value.key) =
  match k with Value.KI x -> put "ki"; put (string_of_z x) | Value.KS l -> put "ks"; put (cps l)
let rec put_tree (t : Value.tree) =
  match t with
  | Value.Leaf v -> put_scalar v
  | Value.Dict kvs -> put "D"; put (string_of_int (List.length kvs));
                      List.iter (fun (k, v) -> sp (); put_key k; sp (); put_tree v) kvs
  | Value.Lst ts -> put "L"; put (string_of_int (List.length ts)); List.iter (fun v -> sp (); put_tree v) ts
let put_list f l = put "l"; put (string_of_int (List.length l)); List.iter (fun x -> sp (); f x) l
let put_opt f o = match o with None -> put "none" | Some x -> put "some "; f x
let put_res f (x : 'a Value.res) =
  match x with Value.Ok a -> put "ok "; f a | Value.Raise e -> put "raise "; put (string_of_int (int_of_n e))
let put_pair f g (x, y) = f x; sp (); g y

let put_tab f l = put "T"; put (string_of_int (List.length l)); List.iter (fun (id, v) -> sp (); put_n id; sp (); f v) l
let put_sdict (s : SDict.sdict) =
  put "SD "; put_tree (Value.Dict s.SDict.sd_data); sp ();
  put_tab put_str s.SDict.sd_lc; sp ();
  put_tab put_str s.SDict.sd_bc; sp ();
  put_tab (fun ((a, b), c) -> put_str a; sp (); put_str b; sp (); put_str c) s.SDict.sd_inc; sp ();
  put_tab (fun (a, b) -> put_str a; sp (); put_str b) s.SDict.sd_expr

let rec put_elem (e : Xml.elem) =
  match e with Xml.Elem (tag, attrs, text, kids) ->
    put "E "; put_str tag; sp (); put_list (fun (a, b) -> put_str a; sp (); put_str b) attrs; sp ();
    put_opt put_str text; sp (); put_list put_elem kids

(* ---- dispatch ----------------------------------------------------------------------------- *)
let run_op (op : string) (r : rd) : unit =
  match op with
  | "parse_value" -> put_res put_scalar (Scalar.parse_value (get_str r))
  | "parse_scalar" -> put_res put_scalar (Scalar.parse_scalar (get_scalar r))
  | "remove_quotes" -> put_str (Scalar.remove_quotes (get_str r))
  | "format_scalar" -> put_str (Scalar.format_scalar (get_scalar r))
  | "foam_format_scalar" -> put_str (Scalar.foam_format_scalar (get_scalar r))
  | "format_key" -> put_str (Scalar.format_key (get_key r))
  | "py_float_ok" -> put_bool (Scalar.py_float_ok (get_str r))
  | "py_int_ok" -> put_bool (Scalar.py_int_ok (get_str r))
  | "find_global_key" -> let q = get_str r in let t = get_tree r in put_opt (put_list put_key) (KeyPath.find_global_key q t)
  | "set_global_key" -> let t = get_tree r in let p = get_path r in let v = get_tree r in
                        put_res put_tree (KeyPath.set_global_key t p v)
  | "key_exists" -> let t = get_tree r in let p = get_path r in put_bool (KeyPath.key_exists t p)
  | "reduce_scope" -> let kvs = get_kvs r in let p = get_path r in put_tree (Value.Dict (KeyPath.reduce_scope kvs p))
  | "order_tree" -> put_tree (KeyPath.order_tree (get_tree r))
  | "get_path" -> let t = get_tree r in let p = get_path r in put_opt put_tree (KeyPath.get_path t p)
  | "sd_trace" -> let s = get_sdict r in let ops = get_list r get_sdop in
                  put_list (put_res put_sdict) (SDict.sd_trace s ops)
  | "sd_order" -> put_sdict (SDict.sd_order (get_sdict r))
  | "to_string_plain" -> put_str (Layout.to_string_plain (get_kvs r))
  | "foam_to_string_plain" -> put_str (Layout.foam_to_string_plain (get_kvs r))
  | "to_string_sd" -> put_str (Layout.to_string_sd (get_sdict r))
  | "foam_to_string_sd" -> put_str (Layout.foam_to_string_sd (get_sdict r))
  | "lex" -> let c = get_bool r in let d = get_str r in let n = get_int r in let t = get_str r in
             let lx = Lexer.lex c d n t in
             put_list put_str lx.Lexer.lxd_tokens; sp (); put_int lx.Lexer.lxd_count; sp ();
             put_tab put_str lx.Lexer.lxd_lit
  | "parse_tokens" -> put_res (fun d -> put_tree (Value.Dict d)) (TokParser.parse_tokens (get_list r get_str))
  | "parse_string" -> let c = get_bool r in let d = get_str r in let n = get_int r in let t = get_str r in
             put_res (fun p -> put_sdict p.TokParser.pr_sd; sp (); put_int p.TokParser.pr_count)
               (TokParser.parse_string c d n t)
  | "read_plain" -> let fs = get_fs r in let root = get_str r in let inc = get_bool r in let com = get_bool r in
                    let n = get_int r in
                    put_res (fun (s, c) -> put_sdict s; sp (); put_int c) (Reader.read_plain fs root inc com n)
  | "read_full" -> let fs = get_fs r in let root = get_str r in let com = get_bool r in let n = get_int r in
                   (match Eval.read_full fs root com n with
                    | None -> put "outside"
                    | Some x -> put_res (fun (s, c) -> put_sdict s; sp (); put_int c) x)
  | "parse_model" -> let fs = get_fs r in let src = get_str r in let inc = get_bool r in let ap = get_bool r in
                     let ord = get_bool r in let com = get_bool r in let scope = get_list r get_scalar in
                     let out = get_opt r get_str in let n = get_int r in
                     (match Parse.parse_model fs src inc ap ord com scope out n with
                      | None -> put "outside"
                      | Some x -> put_res (fun ((t, txt), c) -> put_str t; sp (); put_str txt; sp (); put_int c) x)
  | "read_opts" -> let fs = get_fs r in let root = get_str r in let inc = get_bool r in let ord = get_bool r in
                   let com = get_bool r in let scope = get_list r get_scalar in let n = get_int r in
                   (match Parse.read_opts fs root inc ord com scope n with
                    | None -> put "outside"
                    | Some x -> put_res (fun (s, c) -> put_sdict s; sp (); put_int c) x)
  | "pyeval" -> (match Eval.pyeval (get_str r) with
                 | Eval.EvInt z -> put "int "; put_int z
                 | Eval.EvSyntax -> put "syntax"
                 | Eval.EvOutside -> put "outside")
  | "json_parse" -> let d = get_str r in let n = get_int r in let t = get_kvs r in
                    let p = Reader.json_parse d n t in put_sdict p.TokParser.pr_sd; sp (); put_int p.TokParser.pr_count
  | "variables_of" -> put_tree (Value.Dict (Expr.variables_of (get_sdict r)))
  | "resolve_reference" -> let v = get_kvs r in let rf = get_str r in
                           (match Expr.resolve_reference v rf with
                            | Expr.RNone -> put "none" | Expr.RVal t -> put "some "; put_tree t
                            | Expr.ROutside -> put "outside" | Expr.RFuel -> put "fuel")
  | "subst_refs" -> let v = get_kvs r in let e = get_str r in put_str (Expr.subst_refs v e)
  | "py_str_tree" -> put_str (Expr.py_str_tree (get_tree r))
  | "validate_scope" -> put_res (put_list put_scalar) (Cli.validate_scope (get_str r))
  | "cli_kwargs" ->
      let i = get_bool r in let o = get_bool r in let c = get_bool r in let a = get_bool r in
      let out = get_opt r (fun r -> match next r with "cpp" -> Cli.OCpp | "foam" -> Cli.OFoam | "xml" -> Cli.OXml | "json" -> Cli.OJson | t -> raise (Bad t)) in
      let sc = get_opt r get_str in
      let q = get_bool r in let v = get_bool r in let l = get_bool r in
      let k = Cli.cli_kwargs { Cli.f_ignore_includes = i; f_order = o; f_ignore_comments = c; f_append = a; f_output = out;
                               f_scope = sc; f_quiet = q; f_verbose = v; f_log = l } in
      put_bool k.Cli.k_includes; sp (); put_bool k.Cli.k_mode_append; sp (); put_bool k.Cli.k_order; sp ();
      put_bool k.Cli.k_comments; sp (); put_opt (put_res (put_list put_scalar)) k.Cli.k_scope; sp ();
      put (match k.Cli.k_output with Cli.OCpp -> "cpp" | Cli.OFoam -> "foam" | Cli.OXml -> "xml" | Cli.OJson -> "json")
  | "target_file_name" -> let n = get_str r in let p = get_opt r get_str in let sc = get_list r get_scalar in
                          let o = get_opt r get_str in put_str (Cli.target_file_name n p sc o)
  | "relative_path" -> let a = get_list r get_str in let b = get_list r get_str in put_list put_str (Paths.relative_path a b)
  | "norm_join" -> let a = get_list r get_str in let b = get_list r get_str in put_list put_str (Paths.norm_join a b)
  | "common_prefix_all" -> put_list put_str (Paths.common_prefix_all (get_list r (fun r -> get_list r get_str)))
  | "sd_include" -> let s = get_sdict r in let c = get_int r in let a = get_list r get_str in
                    let b = get_list r get_str in let p = get_str r in
                    put_res (fun (s, c) -> put_sdict s; sp (); put_int c) (Paths.sd_include s c a b p)
  | "include_chain" -> let rel = get_list r get_str in
                       let d = Paths.include_directive_text rel in put_str d; sp (); put_opt put_str (Paths.directive_name d)
  | "write_text" -> let foam = get_bool r in let p = get_str r in let ex = get_opt r get_str in let ap = get_bool r in
                    let d = get_kvs r in put_res put_str (Reader.write_text foam p ex ap d)
  | "writer_run" -> let foam = get_bool r in let target = get_str r in
                    let w = get_list r (fun r -> let p = get_str r in let t = get_str r in (p, t)) in
                    let ops = get_list r (fun r -> let ap = get_bool r in let d = get_kvs r in (ap, d)) in
                    put_list (fun (p, t) -> put_str p; sp (); put_str t) (Reader.writer_run foam w target ops)
  | "xml_parse" -> let nb = get_bool r in let n = get_int r in let e = get_elem r in
                   let (d, c) = Xml.xml_parse nb e n in put_tree (Value.Dict d); sp (); put_int c
  | "xml_parse_doc" -> let nb = get_bool r in let n = get_int r in
                       let ps = get_list r (fun r -> get_opt r get_str) in let us = get_list r get_str in
                       let e = get_elem r in
                       let (d, c) = Xml.parse_doc nb (List.combine ps us) e n in put_tree (Value.Dict d); sp (); put_int c
  | "xml_format_doc" -> put_opt (fun ((p, u), e) -> put_str p; sp (); put_str u; sp (); put_elem e) (Xml.format_doc (get_kvs r))
  | "xml_populate" -> let tag = get_str r in let t = get_tree r in put_elem (Xml.populate tag t)
  | _ -> raise (Bad ("op:" ^ op))

let () =
  (try
     while true do
       let line = input_line stdin in
       Buffer.clear b;
       (try
          let toks = List.filter (fun s -> s <> "") (String.split_on_char ' ' line) in
          (match toks with
           | [] -> put "empty"
           | op :: rest -> run_op op { toks = rest })
        with
        | Bad m -> Buffer.clear b; put ("error bad-input " ^ m)
        | Stack_overflow -> Buffer.clear b; put "error stack-overflow"
        | Not_found -> Buffer.clear b; put "error not-found"
        | Failure m -> Buffer.clear b; put ("error failure " ^ m));
       print_string (Buffer.contents b); print_char '\n'
     done
   with End_of_file -> ());
  flush stdout
