"""Extraction cross-check: a sample of the cases sent to the extracted OCaml model (`ocaml/modelrun`) is evaluated a
second time INSIDE Coq -- `vm_compute` on the model's own Gallina definitions, printed with the Gallina printer of
`coq/theories/Extract/Wire.v` -- and must give the very line the extracted program printed.  This takes the extraction
mechanism and the hand-written reader/printer of `ocaml/driver.ml` out of the trusted base for the sampled cases.

The wire line `op tok tok ...` is turned into a Coq term with the per-op signature below (the same order of reads as
`run_op` in ocaml/driver.ml); the expected output is embedded as a list of code points; one `Eval vm_compute` prints a
list of booleans.
"""
from __future__ import annotations

import os
import random
import re
import shutil
import subprocess
import tempfile
from pathlib import Path

ROOT = Path(__file__).resolve().parent.parent

# op -> (argument types, Coq result expression over a0, a1, ...)
SIG = {
    "parse_value": (["str"], "w_res w_scalar (Scalar.parse_value a0)"),
    "parse_scalar": (["scalar"], "w_res w_scalar (Scalar.parse_scalar a0)"),
    "remove_quotes": (["str"], "w_str (Scalar.remove_quotes a0)"),
    "format_scalar": (["scalar"], "w_str (Scalar.format_scalar a0)"),
    "foam_format_scalar": (["scalar"], "w_str (Scalar.foam_format_scalar a0)"),
    "format_key": (["key"], "w_str (Scalar.format_key a0)"),
    "py_float_ok": (["str"], "w_bool (Scalar.py_float_ok a0)"),
    "py_int_ok": (["str"], "w_bool (Scalar.py_int_ok a0)"),
    "find_global_key": (["str", "tree"], "w_opt (w_list w_key) (KeyPath.find_global_key a0 a1)"),
    "set_global_key": (["tree", "path", "tree"], "w_res w_tree (KeyPath.set_global_key a0 a1 a2)"),
    "key_exists": (["tree", "path"], "w_bool (KeyPath.key_exists a0 a1)"),
    "reduce_scope": (["kvs", "path"], "w_tree (Dict (KeyPath.reduce_scope a0 a1))"),
    "order_tree": (["tree"], "w_tree (KeyPath.order_tree a0)"),
    "get_path": (["tree", "path"], "w_opt w_tree (KeyPath.get_path a0 a1)"),
    "sd_trace": (["sdict", "list:sdop"], "w_list (w_res w_sdict) (SDict.sd_trace a0 a1)"),
    "sd_order": (["sdict"], "w_sdict (SDict.sd_order a0)"),
    "to_string_plain": (["kvs"], "w_str (Layout.to_string_plain a0)"),
    "foam_to_string_plain": (["kvs"], "w_str (Layout.foam_to_string_plain a0)"),
    "to_string_sd": (["sdict"], "w_str (Layout.to_string_sd a0)"),
    "foam_to_string_sd": (["sdict"], "w_str (Layout.foam_to_string_sd a0)"),
    "lex": (["bool", "str", "int", "str"], "w_lexed (Lexer.lex a0 a1 a2 a3)"),
    "parse_tokens": (["list:str"], "w_res (fun d => w_tree (Dict d)) (TokParser.parse_tokens a0)"),
    "parse_string": (["bool", "str", "int", "str"], "w_res w_parsed (TokParser.parse_string a0 a1 a2 a3)"),
    "read_plain": (["fs", "str", "bool", "bool", "int"], "w_res w_sd_count (Reader.read_plain a0 a1 a2 a3 a4)"),
    "read_full": (["fs", "str", "bool", "int"], "w_outside (w_res w_sd_count) (Eval.read_full a0 a1 a2 a3)"),
    "read_opts": (["fs", "str", "bool", "bool", "bool", "list:scalar", "int"],
                  "w_outside (w_res w_sd_count) (Parse.read_opts a0 a1 a2 a3 a4 a5 a6)"),
    "parse_model": (["fs", "str", "bool", "bool", "bool", "bool", "list:scalar", "opt:str", "int"],
                    "w_outside (w_res (fun x : str * str * Z => let '(t, txt, c) := x in w_str t ++ sp ++ w_str txt ++ sp ++ w_int c)) "
                    "(Parse.parse_model a0 a1 a2 a3 a4 a5 a6 a7 a8)"),
    "pyeval": (["str"], "w_pyeval (Eval.pyeval a0)"),
    "json_parse": (["str", "int", "kvs"], "w_parsed (Reader.json_parse a0 a1 a2)"),
    "variables_of": (["sdict"], "w_tree (Dict (Expr.variables_of a0))"),
    "resolve_reference": (["kvs", "str"], "w_resolved (Expr.resolve_reference a0 a1)"),
    "subst_refs": (["kvs", "str"], "w_str (Expr.subst_refs a0 a1)"),
    "py_str_tree": (["tree"], "w_str (Expr.py_str_tree a0)"),
    "validate_scope": (["str"], "w_res (w_list w_scalar) (Cli.validate_scope a0)"),
    "target_file_name": (["str", "opt:str", "list:scalar", "opt:str"], "w_str (Cli.target_file_name a0 a1 a2 a3)"),
    "relative_path": (["list:str", "list:str"], "w_list w_str (Paths.relative_path a0 a1)"),
    "norm_join": (["list:str", "list:str"], "w_list w_str (Paths.norm_join a0 a1)"),
    "sd_include": (["sdict", "int", "list:str", "list:str", "str"], "w_res w_sd_count (Paths.sd_include a0 a1 a2 a3 a4)"),
    "common_prefix_all": (["list:list:str"], "w_list w_str (Paths.common_prefix_all a0)"),
    "write_text": (["bool", "str", "opt:str", "bool", "kvs"], "w_res w_str (Reader.write_text a0 a1 a2 a3 a4)"),
    "xml_parse": (["bool", "int", "elem"],
                  "(let '(d, c) := Xml.xml_parse a0 a2 a1 in w_tree (Dict d) ++ sp ++ w_int c)"),
    "xml_populate": (["str", "tree"], "w_elem (Xml.populate a0 a1)"),
    "xml_parse_doc": (["bool", "int", "list:opt:str", "list:str", "elem"],
                      "(let '(d, c) := Xml.parse_doc a0 (combine a2 a3) a4 a1 in w_tree (Dict d) ++ sp ++ w_int c)"),
    "xml_format_doc": (["kvs"], "w_opt (fun x : str * str * elem => let '(p, u, e) := x in w_str p ++ sp ++ w_str u ++ sp ++ w_elem e) (Xml.format_doc a0)"),
}

MAX_LINE = 6000          # characters of wire text (input + output) per sampled case
_samples: dict[str, list[tuple[str, str]]] = {}
_seen = {"n": 0}
_rng = random.Random(12345)
PER_OP = 24


def reset(seed: int) -> None:
    _samples.clear()
    _seen["n"] = 0
    _rng.seed(seed)


def observe(lines: list[str], outs: list[str]) -> None:
    """reservoir sample per op of the (input line, output line) pairs that went through modelrun"""
    for ln, out in zip(lines, outs):
        op = ln.split(" ", 1)[0]
        if op not in SIG or len(ln) + len(out) > MAX_LINE or out.startswith("ERR"):
            continue
        _seen["n"] += 1
        bucket = _samples.setdefault(op, [])
        if len(bucket) < PER_OP:
            bucket.append((ln, out))
        else:
            j = _rng.randrange(0, _seen["n"])
            if j < PER_OP:
                bucket[j] = (ln, out)


# ---- wire tokens -> Coq terms ------------------------------------------------------------------------------------
class Toks:
    def __init__(self, toks):
        self.t = toks
        self.i = 0

    def next(self):
        x = self.t[self.i]
        self.i += 1
        return x


def c_cps(s: str) -> str:
    return "[" + ";".join(s.split(",")) + "]%N" if s else "(@nil N)"


def c_z(s: str) -> str:
    return f"({s})%Z"


def c_scalar_tok(t: str) -> str:
    c = t[0]
    if c == "i":
        return f"(SInt {c_z(t[1:])})"
    if c == "f":
        return f"(SFloat {c_cps(t[1:])})"
    if c == "b":
        return "(SBool true)" if t == "b1" else "(SBool false)"
    if c == "n":
        return "SNone"
    if c == "s":
        return f"(SStr {c_cps(t[1:])})"
    raise ValueError(t)


def c_list(items: list[str], ty: str) -> str:
    return "(@nil " + ty + ")" if not items else "[" + "; ".join(items) + "]"


def conv(ty: str, r: Toks) -> str:
    if ty.startswith("list:"):
        t = r.next()
        assert t[0] == "l", t
        inner = ty[5:]
        return c_list([conv(inner, r) for _ in range(int(t[1:]))], COQTY[inner] if inner in COQTY else "_")
    if ty.startswith("opt:"):
        t = r.next()
        if t == "none":
            return "None"
        assert t == "some", t
        return f"(Some {conv(ty[4:], r)})"
    if ty == "str":
        t = r.next()
        assert t[0] == "s", t
        return c_cps(t[1:])
    if ty == "int":
        t = r.next()
        assert t[0] == "i", t
        return c_z(t[1:])
    if ty == "n":
        t = r.next()
        assert t[0] == "u", t
        return f"({t[1:]})%N"
    if ty == "bool":
        t = r.next()
        return "true" if t == "b1" else "false"
    if ty == "scalar":
        return c_scalar_tok(r.next())
    if ty == "key":
        t = r.next()
        if t.startswith("ki"):
            return f"(KI {c_z(t[2:])})"
        assert t.startswith("ks"), t
        return f"(KS {c_cps(t[2:])})"
    if ty == "tree":
        t = r.next()
        if t[0] == "D":
            items = []
            for _ in range(int(t[1:])):
                k = conv("key", r)
                v = conv("tree", r)
                items.append(f"({k}, {v})")
            return f"(Dict {c_list(items, '(key * tree)')})"
        if t[0] == "L":
            return f"(Lst {c_list([conv('tree', r) for _ in range(int(t[1:]))], 'tree')})"
        return f"(Leaf {c_scalar_tok(t)})"
    if ty == "kvs":
        t = r.next()
        assert t[0] == "D", t
        items = []
        for _ in range(int(t[1:])):
            k = conv("key", r)
            v = conv("tree", r)
            items.append(f"({k}, {v})")
        return c_list(items, "(key * tree)")
    if ty == "path":
        return conv("list:key", r)
    if ty == "sdict":
        t = r.next()
        assert t == "SD", t
        data = conv("kvs", r)

        def tab(f, cty):
            h = r.next()
            assert h[0] == "T", h
            items = []
            for _ in range(int(h[1:])):
                i = conv("n", r)
                items.append(f"({i}, {f()})")
            return c_list(items, f"(N * {cty})")

        lc = tab(lambda: conv("str", r), "str")
        bc = tab(lambda: conv("str", r), "str")
        inc = tab(lambda: "(%s, %s, %s)" % (conv("str", r), conv("str", r), conv("str", r)), "include_entry")
        ex = tab(lambda: "(%s, %s)" % (conv("str", r), conv("str", r)), "expr_entry")
        return f"(mkSD {data} {lc} {bc} {inc} {ex})"
    if ty == "other":
        return conv("opt:sdict", r)
    if ty == "sdop":
        t = r.next()
        if t == "set":
            return f"(OSet {conv('key', r)} {conv('tree', r)})"
        if t == "del":
            return f"(ODel {conv('key', r)})"
        if t == "update":
            return f"(OUpdate {conv('kvs', r)} {conv('other', r)})"
        if t == "or":
            return f"(OOr {conv('kvs', r)} {conv('other', r)})"
        if t == "ror":
            return f"(ORor {conv('kvs', r)})"
        if t == "pop":
            return f"(OPop {conv('key', r)})"
        if t == "setdefault":
            return f"(OSetdefault {conv('key', r)} {conv('tree', r)})"
        if t == "clear":
            return "OClear"
        if t == "copy":
            return "OCopy"
        if t == "ctor":
            return "OCtor"
        if t == "merge":
            return f"(OMerge {conv('kvs', r)} {conv('other', r)})"
        raise ValueError(t)
    if ty == "fs":
        t = r.next()
        assert t[0] == "l", t
        items = []
        for _ in range(int(t[1:])):
            p = conv("str", r)
            kind = r.next()
            if kind == "native":
                items.append(f"({p}, FNative {conv('str', r)})")
            else:
                assert kind == "json", kind
                items.append(f"({p}, FJson {conv('kvs', r)})")
        return c_list(items, "(str * funit)")
    if ty == "elem":
        t = r.next()
        assert t == "E", t
        tag = conv("str", r)
        h = r.next()
        assert h[0] == "l", h
        attrs = c_list(["(%s, %s)" % (conv("str", r), conv("str", r)) for _ in range(int(h[1:]))], "(str * str)")
        text = conv("opt:str", r)
        h = r.next()
        assert h[0] == "l", h
        kids = c_list([conv("elem", r) for _ in range(int(h[1:]))], "elem")
        return f"(Elem {tag} {attrs} {text} {kids})"
    raise ValueError(ty)


COQTY = {"str": "str", "scalar": "scalar", "key": "key", "tree": "tree", "sdop": "sdop", "list:str": "(list str)", "opt:str": "(option str)"}


def case_term(line: str, out: str) -> str:
    toks = [t for t in line.split(" ") if t]
    op = toks[0]
    tys, expr = SIG[op]
    r = Toks(toks[1:])
    lets = []
    for i, ty in enumerate(tys):
        lets.append(f"let a{i} := {conv(ty, r)} in")
    assert r.i == len(r.t), f"{op}: {len(r.t) - r.i} tokens left"
    expected = "[" + ";".join(str(ord(c)) for c in out) + "]%N" if out else "(@nil N)"
    return "(" + " ".join(lets) + f" str_eqb ({expr}) {expected})"


HEADER = """From Coq Require Import NArith ZArith List Bool.
From DictIO Require Import Chars Str Value Scalar KeyPath SDict Layout Lexer TokParser Reader Expr Eval Cli Parse Paths Xml Wire.
Import ListNotations.
Open Scope N_scope.
"""


def run(per_op: int, jobs: int = 8) -> dict:
    """evaluate the sampled cases in Coq; returns a summary for the evidence"""
    cases = []
    for op in sorted(_samples):
        for ln, out in _samples[op][:per_op]:
            cases.append((op, ln, out))
    res = {"sampled_cases": len(cases), "ops": sorted(_samples), "agree": 0, "differ": [], "error": None}
    if not cases:
        return res
    tmp = Path(tempfile.mkdtemp(prefix="coqeval.", dir=os.environ.get("VERIF_SCRATCH", "/var/tmp")))
    try:
        shards = [cases[i::jobs] for i in range(jobs) if cases[i::jobs]]
        procs = []
        for si, sh in enumerate(shards):
            body = [HEADER]
            terms = []
            for op, ln, out in sh:
                try:
                    terms.append(case_term(ln, out))
                except Exception as e:  # noqa: BLE001  (a token shape this converter does not know: not a verdict)
                    terms.append(None)
                    res.setdefault("unconverted", []).append(f"{op}: {type(e).__name__} {e}"[:120])
            live = [t for t in terms if t is not None]
            for k, t in enumerate(live):
                body.append(f"Definition x{k} : bool := {t}.")
            body.append("Definition allx : list bool := " + c_list([f"x{k}" for k in range(len(live))], "bool") + ".")
            body.append("Eval vm_compute in allx.")
            f = tmp / f"cases{si}.v"
            f.write_text("\n".join(body) + "\n")
            p = subprocess.Popen(
                ["bash", "-c", f"ulimit -s unlimited 2>/dev/null; exec timeout 900 coqc -R {ROOT}/coq/theories DictIO {f}"],
                stdout=subprocess.PIPE, stderr=subprocess.STDOUT, cwd=tmp)
            procs.append((p, sh, terms))
        for p, sh, terms in procs:
            out = p.communicate()[0].decode(errors="replace")
            if p.returncode != 0:
                res["error"] = out[-800:]
                continue
            m = re.search(r"=\s*\[(.*?)\]\s*:\s*list bool", out, re.S)
            vals = re.findall(r"true|false", m.group(1)) if m else []
            live_cases = [c for c, t in zip(sh, terms) if t is not None]
            if len(vals) != len(live_cases):
                res["error"] = f"expected {len(live_cases)} results, got {len(vals)}: {out[-400:]}"
                continue
            for v, (op, ln, o) in zip(vals, live_cases):
                if v == "true":
                    res["agree"] += 1
                else:
                    res["differ"].append({"op": op, "line": ln[:600], "ocaml": o[:600]})
    finally:
        shutil.rmtree(tmp, ignore_errors=True)
    return res
