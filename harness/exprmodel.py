"""Stage-wise correspondence for C05: SDict.variables, DictReader._resolve_reference and the token-wise
substitution of resolved references (observed through expressions that never evaluate)."""
from __future__ import annotations

import shutil

from harness import gen, native, wire
from harness.props import c07


def enc_vars(v: dict) -> str:
    return wire.enc_tree({k: gen.plain(x) for k, x in v.items()})


def run(ctx, cases):
    dictIO = native.dictio()
    from dictIO.dict_reader import DictReader

    mlines, ilines, ccases, stages = [], [], [], []
    tmp = native.scratch_dir("c05m_")
    try:
        for c in cases:
            for p in list(tmp.rglob("*")):
                if p.is_file():
                    p.unlink()
            for rel, text in c["files"].items():
                p = tmp / rel
                p.parent.mkdir(parents=True, exist_ok=True)
                p.write_text(text)
            try:
                native.set_counter(-1)
                parser = dictIO.Parser.get_parser(tmp / "root")
                sd = parser.parse_file(tmp / "root")
                DictReader._merge_includes(sd)
            except Exception:  # noqa: BLE001
                continue
            # 1. variables
            try:
                vars_i = sd.variables
            except Exception:  # noqa: BLE001
                continue
            mlines.append("variables_of " + c07.enc_sdict_obj(sd))
            ilines.append(enc_vars(vars_i))
            ccases.append(c)
            stages.append("variables")
            # 2. resolve every reference of every expression (+ a few synthetic ones)
            refs = []
            import re

            for item in sd.expressions.values():
                refs += re.findall(r"\$\w[\w\[\]]*", item["expression"])
            refs += ["$" + k for k in list(vars_i)[:3]] + ["$nope", "$a[0]", "$" + next(iter(vars_i), "q") + "[1]"]
            for r in dict.fromkeys(refs):
                try:
                    v = DictReader._resolve_reference(r, vars_i)
                    il = "none" if v is None else "some " + wire.enc_tree(gen.plain(v))
                except RecursionError:
                    il = "raise RecursionError"
                except Exception as e:  # noqa: BLE001
                    il = "raise " + type(e).__name__
                mlines.append(f"resolve_reference {enc_vars(vars_i)} {wire.enc_str(r)}")
                ilines.append(il)
                ccases.append(c)
                stages.append("resolve_reference")
            # 3. substitution, observed through an expression that can never be evaluated (syntax error):
            #    the partially substituted text is what the reader inserts back
            lits = {k: v for k, v in vars_i.items() if not isinstance(v, (dict,)) and "$" not in str(v) and "EXPRESSION" not in str(v) and v is not None}
            if lits:
                names = list(lits)[:4]
                e = "@@ " + " ".join("$" + n for n in names) + " $" + names[0] + "x $" + names[0] + "[0] $" + names[0] + "] $nope"
                probe = dictIO.SDict({"probe": "EXPRESSION999999", **{k: gen.plain(v) for k, v in lits.items()}})
                probe.expressions = {999999: {"expression": e, "name": "EXPRESSION999999"}}
                try:
                    DictReader._eval_expressions(probe)
                    got = probe["probe"]
                    il = wire.enc_str(got) if isinstance(got, str) else "nonstr"
                except Exception as ex:  # noqa: BLE001
                    il = "raise " + type(ex).__name__
                mlines.append(f"subst_refs {enc_vars(probe.variables if False else {k: gen.plain(v) for k, v in lits.items()})} {wire.enc_str(e)}")
                ilines.append(il)
                ccases.append(c)
                stages.append("substitute")
    finally:
        shutil.rmtree(tmp, ignore_errors=True)
    mout = wire.run_model_sharded(mlines)
    for c, st, m, i in zip(ccases, stages, mout, ilines):
        if m in ("outside", "fuel") and st == "resolve_reference" and m == "outside":
            continue
        ctx.corr_compared += 1
        if m == "some n":
            m = "none"      # Python returns None both for 'not found' and for a variable holding None
        if m != i and wire.canon_floats(m) != wire.canon_floats(i):
            if len(ctx.disagreements) < 30:
                ctx.disagree(st, c, m[:800], i[:800])
