"""C18  Relative paths and generated include directives lead to the file they name."""
from __future__ import annotations

import itertools
import copy
import os
import shutil
from pathlib import Path

from harness import gen, native, wire

RULE = (
    "seeded directory trees (<= 40 directories and files, names with blanks and dots, up to 5 levels): relative_path for every "
    "ordered (directory, path) pair, highest_common_root_folder for random subsets, and SDict.include + dump + read for the "
    "five relative placements of including and included file (same, child, parent, sibling, cousin directory); non-trivial = "
    "pair needs '..', a name with a blank or dot, or a placement other than 'same'; distinct = distinct (tree, pair / set / placement)"
)
ASSUMPTIONS = ["paths are absolute and normalised (pathlib / os.path are trusted to map strings to components)",
               "highest_common_root_folder is evaluated on paths that exist on disk (a dotted name is a directory iff the file system says so)"]
TRUSTED_BASE = ["pathlib.PurePath.relative_to, os.path.relpath, Path.resolve"]

# sibling names that share character prefixes on purpose (a / a b / ab, v1 / v1.2, data / data.bak, n1 / n10):
# a common root is a matter of whole path components, never of characters
NAMES = ["a", "b", "ab", "a b", "data", "data.bak", "my dir", "v1", "v1.2", "x.y", "sub", "deep", "n1", "n10", "cfg.d"]
FILES = ["f", "g.txt", "dict", "p q", "h.json", "k.tar.gz"]


def make_tree(rng, root: Path):
    dirs = [root]
    for _ in range(rng.randrange(4, 14)):
        parent = rng.choice(dirs)
        if len(parent.relative_to(root).parts) >= 4:
            continue
        d = parent / rng.choice(NAMES)
        if d not in dirs:
            d.mkdir(exist_ok=True)
            dirs.append(d)
    files = []
    for _ in range(rng.randrange(3, 12)):
        f = rng.choice(dirs) / rng.choice(FILES)
        if not f.exists():
            f.write_text("k 1;\n")
            files.append(f)
    return dirs, files


def parts(p: Path) -> list[str]:
    return [x for x in p.parts if x != "/"]


def _rel_oracle(frm, to, relative_path):
    try:
        rel = relative_path(frm, to)
    except Exception as e:  # noqa: BLE001
        return ("rel-raises", f"relative_path({frm}, {to}) raised {type(e).__name__}: {e}")
    if os.path.normpath(os.path.join(frm, rel)) != os.path.normpath(to):
        return ("rel-wrong", f"{frm} / {rel} does not denote {to}")
    if Path(rel).is_absolute():
        return ("rel-absolute", f"relative_path returned the absolute path {rel}")
    return None


def oracle(case: dict):
    dictIO = native.dictio()
    from dictIO.utils.path import highest_common_root_folder, relative_path

    kind = case["kind"]
    if kind == "rel":
        frm, to = Path(case["from"]), Path(case["to"])
        made = None
        m = case.get("materialise")
        if m and not Path(m["base"]).exists():      # replay: put the tree back so that the start file exists
            made = Path(m["base"])
            for d in m["dirs"]:
                (made / d).mkdir(parents=True, exist_ok=True)
            for f in m["files"]:
                (made / f).parent.mkdir(parents=True, exist_ok=True)
                (made / f).write_text("x")
        try:
            return _rel_oracle(frm, to, relative_path)
        finally:
            if made is not None:
                shutil.rmtree(made, ignore_errors=True)
    if kind == "hcr":
        tmp = native.scratch_dir("c18h_")
        try:
            root = tmp / "t"
            root.mkdir()
            for d in case["dirs"]:
                (root / d).mkdir(parents=True, exist_ok=True)
            for f in case["files"]:
                (root / f).parent.mkdir(parents=True, exist_ok=True)
                (root / f).write_text("x")
            ps = [root / p for p in case["paths"]]
            try:
                r = highest_common_root_folder(ps)
            except Exception as e:  # noqa: BLE001
                return ("hcr-raises", f"highest_common_root_folder raised {type(e).__name__}: {e}")
            folders = [p if p.is_dir() else p.parent for p in ps]
            best = Path(os.path.commonpath([str(f.resolve()) for f in folders]))
            if Path(r) != best:
                kind2 = "not an ancestor of all" if any(Path(r) not in [f.resolve(), *f.resolve().parents] for f in folders) else "a deeper common ancestor exists"
                return ("hcr-wrong", f"highest_common_root_folder({case['paths']}) = {Path(r).relative_to(tmp) if str(r).startswith(str(tmp)) else r}, expected t/{best.relative_to(root) if best != root else ''} ({kind2})")
            return None
        finally:
            shutil.rmtree(tmp, ignore_errors=True)
    if kind == "include-chain":
        # main -> base -> param, each hop made with include() + dump(); main and base live in different folders, and a file
        # with param's relative name (as base spells it) also exists next to main: reading main merges the file base names
        dictIO = native.dictio()
        tmp = native.scratch_dir("c18c_")
        try:
            main, base = tmp / case["main"], tmp / case["base"]
            param = base.parent / case["param"]
            bystander = main.parent / case["param"]
            for q in (main, base, param, bystander):
                q.parent.mkdir(parents=True, exist_ok=True)
            try:
                dictIO.DictWriter.write({"paramC": "from the file base names", "tolerance": 0.001}, param, mode="w")
                if bystander.resolve() != param.resolve():
                    dictIO.DictWriter.write({"paramC": "from the bystander", "tolerance": 0.5, "caseOnly": True}, bystander, mode="w")
                b = dictIO.SDict(base)
                b.update({"paramB": 7})
                b.include(dictIO.DictReader.read(param))
                b.dump()
                a = dictIO.SDict(main)
                a.update({"keyA": 1})
                a.include(dictIO.DictReader.read(base))
                a.dump()
                got = native.strip_placeholders(gen.plain(dict(dictIO.DictReader.read(main))), kinds=("BLOCKCOMMENT", "LINECOMMENT", "INCLUDE"))
            except Exception as e:  # noqa: BLE001
                return ("include-raises", f"include chain raised {type(e).__name__}: {e}")
            exp = {"keyA": 1, "paramB": 7, "paramC": "from the file base names", "tolerance": 0.001}
            if got != exp:
                return ("include-not-resolved", f"main={case['main']} -> base={case['base']} -> {case['param']} (next to base; a file of that name exists next to main too): read(main) = {got!r}, expected {exp!r}")
            return None
        finally:
            shutil.rmtree(tmp, ignore_errors=True)
    if kind == "include-x":
        # the two files in DIFFERENT formats (native / JSON / Foam): each file is read with the parser its own ending asks for
        dictIO = native.dictio()
        tmp = native.scratch_dir("c18x_")
        try:
            a = tmp / (case["a"] + case["ea"])
            b = tmp / (case["b"] + case["eb"])
            a.parent.mkdir(parents=True, exist_ok=True)
            b.parent.mkdir(parents=True, exist_ok=True)
            try:
                dictIO.DictWriter.write({"own": 1}, a, mode="w")
                dictIO.DictWriter.write({"fromB": 2, "subB": {"x": 3}}, b, mode="w")
                da = dictIO.DictReader.read(a)
                da.include(dictIO.DictReader.read(b))
                da.dump()
                back = gen.plain(dict(dictIO.DictReader.read(a)))
            except Exception as e:  # noqa: BLE001
                return ("include-raises", f"a={a.name} b={b.name}: include/dump/read raised {type(e).__name__}: {e}")
            if back.get("fromB") != 2 or back.get("subB") != {"x": 3} or back.get("own") != 1:
                return ("include-not-resolved", f"a={case['a'] + case['ea']} includes b={case['b'] + case['eb']}: reading the dumped file gives {native.strip_placeholders(back)!r}")
            return None
        finally:
            shutil.rmtree(tmp, ignore_errors=True)
    if kind == "include":
        tmp = native.scratch_dir("c18i_")
        try:
            a = tmp / case["a"]
            b = tmp / case["b"]
            a.parent.mkdir(parents=True, exist_ok=True)
            b.parent.mkdir(parents=True, exist_ok=True)
            a.write_text("own  1;\n")
            b.write_text("fromB  2;\nsubB { x 3; }\n")
            try:
                if case.get("a_in_memory"):
                    # the including dict is built in memory for a target that does not exist yet, and dumped only afterwards
                    a.unlink()
                    da = dictIO.SDict(a)
                    da.update({"own": 1})
                else:
                    da = dictIO.DictReader.read(a)
                db = dictIO.DictReader.read(b)
                da.include(db)
                da.dump()
                txt = a.read_text()
                back = dictIO.DictReader.read(a)
            except Exception as e:  # noqa: BLE001
                return ("include-raises", f"include/dump/read raised {type(e).__name__}: {e}")
            got = gen.plain(dict(back))
            if got.get("fromB") != 2 or got.get("subB") != {"x": 3} or got.get("own") != 1:
                inc_lines = [l for l in txt.splitlines() if "#include" in l]
                return ("include-not-resolved", f"a={case['a']} b={case['b']}: dumped directive {inc_lines} does not lead to b; read back {native.strip_placeholders(got)!r}")
            # second round in the same process: the other file is rewritten through the library (new content), then the dumped
            # file is read again, and a second dict in a's folder includes b afresh: both must show what b holds NOW
            try:
                dictIO.DictWriter.write({"fromB": 20, "lateB": 7, "subB": {"x": 3}}, b, mode="w")
                back2 = gen.plain(dict(dictIO.DictReader.read(a)))
                a2 = a.with_name("a2_" + a.name)
                da2 = dictIO.SDict(a2)
                da2.update({"own2": 1})
                da2.include(dictIO.DictReader.read(b))
                da2.dump()
                back3 = gen.plain(dict(dictIO.DictReader.read(a2)))
            except Exception as e:  # noqa: BLE001
                return ("include-raises", f"second round (rewrite b, read again) raised {type(e).__name__}: {e}")
            for nm, bk in (("a", back2), ("a2", back3)):
                if bk.get("fromB") != 20 or bk.get("lateB") != 7:
                    return ("include-stale", f"a={case['a']} b={case['b']}: after b was rewritten, reading {nm} gives fromB={bk.get('fromB')!r} lateB={bk.get('lateB')!r} (b holds 20 and 7)")
            return None
        finally:
            shutil.rmtree(tmp, ignore_errors=True)
    if kind == "multi-include":
        # one dict includes several others, each obtained through the public load() (which resets the placeholder
        # counter) or read(); dump; every directive must be in the file and lead to its target
        tmp = native.scratch_dir("c18m_")
        try:
            a = tmp / case["a"]
            a.parent.mkdir(parents=True, exist_ok=True)
            a.write_text("own  1;\n")
            try:
                da = dictIO.SDict()
                da.load(a) if case["how"][0] == "load" else da.update(dictIO.DictReader.read(a))
                da = dictIO.DictReader.read(a) if case["how"][0] != "load" else da
                for j, b in enumerate(case["bs"]):
                    pb = tmp / b
                    pb.parent.mkdir(parents=True, exist_ok=True)
                    pb.write_text(f"from{j}  {j};\n")
                    if case["how"][1 + j] == "load":
                        db = dictIO.SDict()
                        db.load(pb)
                    else:
                        db = dictIO.DictReader.read(pb)
                    da.include(db)
                da.dump(a)
                txt = a.read_text()
                back = gen.plain(dict(dictIO.DictReader.read(a)))
            except Exception as e:  # noqa: BLE001
                return ("include-raises", f"load/include/dump/read raised {type(e).__name__}: {e}")
            missing = [b for j, b in enumerate(case["bs"]) if back.get(f"from{j}") != j]
            if missing or back.get("own") != 1:
                inc_lines = [l for l in txt.splitlines() if "#include" in l]
                return ("include-lost", f"a={case['a']} includes {case['bs']} ({case['how']}): content of {missing} is not merged on read; directives written: {inc_lines}")
            return None
        finally:
            shutil.rmtree(tmp, ignore_errors=True)
    raise ValueError(kind)


def shrink(case):
    if case["kind"] == "hcr" and len(case["paths"]) > 2:
        for i in range(len(case["paths"])):
            c = dict(case)
            c["paths"] = case["paths"][:i] + case["paths"][i + 1:]
            yield c


KNOWN_PREDICATES = {}

PLACEMENTS = {
    "same": ("d1/a", "d1/b"), "child": ("d1/a", "d1/sub dir/b"), "parent": ("d1/sub/a", "d1/b"),
    "sibling": ("d1/s1/a", "d1/s2/b"), "cousin": ("d1/s1/deep/a", "d1/s2/x.y/b"), "dotted": ("v1.2/a", "v1.2/cfg.d/b.dict"),
    "backslashless-space": ("my dir/a", "other dir/p q"),
    # names that are not in Unicode NFC form (decomposed accents as macOS hands them out, the OHM SIGN): bytes are bytes
    "decomposed": ("d1/a", "d1/re\u0301sultats/b"), "unit-sign": ("10 k\u2126/s1/a", "10 k\u2126/mesure\u0301/b"),
}


COMP_NAMES = ["a", "b", "case 1", "x.y", "q'r", "back\\slash", "d-e", "A", "..x", "tab\tname", "$v", "semi;colon"]


def sd_include_cases(ctx, rng):
    """SDict.include against the model's `Paths.sd_include`: same state (data, the four tables) and same counter after the
    call, for in-memory dicts with arbitrary content: INCLUDE placeholder keys that occupy the next ids (the loop that
    draws another id), rows already in the include table, the counter next to its wrap, names that need quoting."""
    import dictIO
    from harness.props import c07

    lines, exps, cases = [], [], []
    for i in range(ctx.n(150, 1500)):
        base = ["/"] + [rng.choice(COMP_NAMES) for _ in range(rng.randrange(0, 3))]
        ca = base + [rng.choice(COMP_NAMES) for _ in range(rng.randrange(0, 3))] + ["fileA"]
        cb = (base if rng.random() < 0.7 else ["/"]) + [rng.choice(COMP_NAMES) for _ in range(rng.randrange(0, 3))] + [rng.choice(["fileB", "b.dict", "p q", "o'k", "w\\x"])]
        if ca == cb:
            continue
        c0 = rng.choice([-1, 0, 3, 41, 999996, 999997, 999998, 999999])
        nxt = [(c0 + k) % 1000000 for k in range(1, 6)]
        data = {"own": 1, "sub": {"x": 2}}
        for k in range(rng.choice([0, 0, 1, 2, 3])):        # the next ids are taken
            data[f"INCLUDE{nxt[k]:06d}"] = f"INCLUDE{nxt[k]:06d}"
        if rng.random() < 0.3:
            data[f"INCLUDE{nxt[4]:06d}"] = 5
        if rng.random() < 0.3:
            data = dict(reversed(list(data.items())))
        inc = {}
        for k in rng.sample(range(5), rng.randrange(0, 3)):
            inc[nxt[k]] = ("#include old%d" % k, "old%d" % k, "/work/old%d" % k)
        case = {"kind": "sd-include", "ca": ca, "cb": cb, "count": c0, "data": data, "inc": inc}
        pa, pb = Path(*ca), Path(*cb)
        try:
            sa = dictIO.SDict(pa)
            sa.update(copy.deepcopy(data))
            sa.includes = {i_: (v[0], v[1], Path(v[2])) for i_, v in inc.items()}
            sb = dictIO.SDict(pb)
            before = c07.enc_sdict_obj(sa)
            native.set_counter(c0)
            sa.include(sb)
            got = f"ok {c07.enc_sdict_obj(sa)} i{native.counter_value()}"
        except Exception as e:  # noqa: BLE001
            got = "raise " + type(e).__name__
        lines.append(f"sd_include {before} i{c0} {wire.enc_list(list(pa.parent.parts), wire.enc_str)} "
                     f"{wire.enc_list(list(pb.parts), wire.enc_str)} {wire.enc_str(str(pb))}")
        exps.append(got)
        cases.append(case)
        ctx.count(("sdi", tuple(ca), tuple(cb), c0, repr(data), repr(inc)), True, "sd-include",
                  sample=case if ctx.classes.get("sd-include", 0) < 2 else None)
    outs = wire.run_model(lines)
    for case, ml, got in zip(cases, outs, exps):
        ctx.corr_compared += 1
        if ml != got and len(ctx.disagreements) < 20:
            ctx.disagree("SDict.include", case, ml, got)


def run(ctx):
    rng = ctx.rng
    from dictIO.utils.path import relative_path

    n_trees = ctx.n(12, 300)
    for ti in range(n_trees):
        tmp = native.scratch_dir("c18_")
        try:
            root = tmp / "t"
            root.mkdir()
            dirs, files = make_tree(rng, root)
            everything = dirs + files
            pairs = [(d, p) for d in dirs for p in everything]
            # correspondence: model on component lists
            mlines = [f"relative_path {wire.enc_list(parts(d), wire.enc_str)} {wire.enc_list(parts(p), wire.enc_str)}" for d, p in pairs]
            mout = wire.run_model_sharded(mlines)
            for (d, p), ml in zip(pairs, mout):
                c = {"kind": "rel", "from": str(d), "to": str(p)}
                try:
                    rel = relative_path(d, p)
                    il = wire.enc_list([x for x in Path(rel).parts], wire.enc_str)
                except Exception as e:  # noqa: BLE001
                    il = "raise " + type(e).__name__
                ctx.corr_compared += 1
                if ml != il and not (ml == "l0" and il == "l1 s46"):
                    if len(ctx.disagreements) < 20:
                        ctx.disagree("relative_path", c, ml, il)
                r = oracle(c)
                if r:
                    ctx.oracle_fail(c, r[0], r[1])
                nt = ".." in il or any(" " in x or "." in x for x in parts(p.relative_to(root)) + parts(d.relative_to(root)))
                ctx.count(("r", str(d.relative_to(tmp)), str(p.relative_to(tmp)), ti), nt, "rel",
                          sample={"from": str(d.relative_to(tmp)), "to": str(p.relative_to(tmp))} if nt and len(ctx.samples) < 3 else None)
            # a start location that is an existing FILE (the computation is about path text: joined to the start it must
            # denote the target all the same)
            for f in rng.sample(files, min(len(files), 4)):
                for pth in rng.sample(everything, min(len(everything), 8)):
                    c = {"kind": "rel", "from": str(f), "to": str(pth), "materialise": {"dirs": [str(x.relative_to(tmp)) for x in dirs], "files": [str(x.relative_to(tmp)) for x in files], "base": str(tmp)}}
                    r = oracle(c)
                    if r:
                        ctx.oracle_fail(c, r[0], r[1])
                    ctx.count(("rf", str(f.relative_to(tmp)), str(pth.relative_to(tmp)), ti), True, "rel-from-file")
            # highest common root folder on subsets
            rel_dirs = [str(d.relative_to(root)) for d in dirs if d != root]
            rel_files = [str(f.relative_to(root)) for f in files]
            for _ in range(ctx.n(30, 60)):
                k = rng.randrange(1, 5)
                sel = rng.sample(rel_dirs + rel_files, min(k, len(rel_dirs + rel_files)))
                if not sel:
                    continue
                if rng.random() < 0.35 and rel_dirs:
                    # the same places spelled through another folder: start / relative_path(start, target) (dot-dot inside),
                    # as include paths are reported by the reader
                    sel = list(sel)
                    for j in range(len(sel)):
                        start = rng.choice(rel_dirs)
                        relp = os.path.relpath(sel[j], start)
                        if relp.startswith("..") and rng.random() < 0.6:
                            sel[j] = os.path.join(start, relp)
                c = {"kind": "hcr", "dirs": rel_dirs, "files": rel_files, "paths": sel}
                r = oracle(c)
                if r:
                    ctx.oracle_fail(c, r[0], r[1])
                # model: longest common prefix of the folders' component lists
                from dictIO.utils.path import highest_common_root_folder as hcr

                folders = [(root / q) if (root / q).is_dir() else (root / q).parent for q in sel]
                hl = "common_prefix_all " + wire.enc_list([list(f.resolve().parts) for f in folders], lambda l: wire.enc_list(l, wire.enc_str))
                hm = wire.run_model([hl])[0]
                try:
                    hi = wire.enc_list(list(Path(hcr([root / q for q in sel])).parts), wire.enc_str)
                except Exception as e:  # noqa: BLE001
                    hi = "raise " + type(e).__name__
                ctx.corr_compared += 1
                if hm != hi and len(ctx.disagreements) < 20:
                    ctx.disagree("highest_common_root_folder", c, hm, hi)
                ctx.count(("h", repr(sel), ti), any("." in Path(s).name for s in sel) or len(sel) > 2, "hcr",
                          sample={"paths": sel} if len(ctx.samples) < 5 else None)
        finally:
            shutil.rmtree(tmp, ignore_errors=True)
    # include placements
    for i in range(ctx.n(40, 600)):
        names = rng.sample(sorted(PLACEMENTS), rng.randrange(2, 5))
        a = PLACEMENTS[names[0]][0]
        bs = []
        same_name = rng.random() < 0.4          # equally named files in different folders (paramDict of case a, of case b ..)
        for j, nm in enumerate(names):
            b = PLACEMENTS[nm][1]
            cand = os.path.join(os.path.dirname(b), "paramDict" if same_name else f"inc{j}_" + os.path.basename(b))
            if cand in bs or os.path.normpath(cand) == os.path.normpath(a):
                cand = os.path.join(os.path.dirname(b), f"inc{j}_" + os.path.basename(b))
            bs.append(cand)
        how = [rng.choice(["load", "read"]) for _ in range(1 + len(bs))]
        c = {"kind": "multi-include", "a": a, "bs": bs, "how": how}
        r = oracle(c)
        if r:
            ctx.oracle_fail(c, r[0], r[1])
        ctx.count(("mi", a, tuple(bs), tuple(how)), True, "multi-include")
    for name, (a, b) in PLACEMENTS.items():
        c = {"kind": "include", "a": a, "b": b}
        r = oracle(c)
        if r:
            ctx.oracle_fail(c, r[0], r[1])
        ctx.count(("i", a, b), name != "same", "include:" + name, sample=c)
        c2 = dict(c, a_in_memory=True)
        r = oracle(c2)
        if r:
            ctx.oracle_fail(c2, r[0], r[1])
        ctx.count(("im", a, b), True, "include-in-memory:" + name)
        # model: the directive chain (emit, then parse the emitted line) names the relative path
        from dictIO.utils.path import relative_path as rp

        rel = [x for x in Path(os.path.relpath(b, os.path.dirname(a))).parts]
        ml = wire.run_model([f"include_chain {wire.enc_list(rel, wire.enc_str)}"])[0]
        rd = wire.Reader(ml)
        directive = rd.str()
        name_back = rd.opt(rd.str)
        ctx.corr_compared += 1
        if name_back != "/".join(rel):
            ctx.disagree("model include chain", c, ml, "/".join(rel))
    for i in range(ctx.n(60, 600)):
        da = "/".join(rng.choice(NAMES) for _ in range(rng.randrange(0, 4)))
        db = "/".join(rng.choice(NAMES) for _ in range(rng.randrange(0, 4)))
        a, b = (da + "/fileA").lstrip("/"), (db + "/" + rng.choice(["fileB", "fileB.dict", "p q"])).lstrip("/")
        if a == b:
            continue
        c = {"kind": "include", "a": a, "b": b}
        if i % 3 == 0:
            c["a_in_memory"] = True
        r = oracle(c)
        if r:
            ctx.oracle_fail(c, r[0], r[1])
        ctx.count(("i", a, b, c.get("a_in_memory")), da != db, "include:random")
    # chains of two includes across folders, with an equally named bystander next to the top file
    for main, base, param in (("proj/case 1/mainDict", "proj/common.d/baseDict", "paramDict"), ("proj/case 1/mainDict", "proj/common.d/baseDict", "sub/paramDict"),
                              ("proj/mainDict", "proj/lib/baseDict", "paramDict"), ("proj/a/b/mainDict", "proj/baseDict", "a/paramDict"),
                              ("proj/mainDict", "proj/baseDict", "paramDict")):
        c = {"kind": "include-chain", "main": main, "base": base, "param": param}
        r = oracle(c)
        if r:
            ctx.oracle_fail(c, r[0], r[1])
        ctx.count(("ic", main, base, param), True, "include-chain")
    # including and included file in different formats, for every placement
    for name, (a, b) in PLACEMENTS.items():
        for ea, eb in (("", ".json"), (".json", ""), (".json", ".json"), ("", ".foam"), (".foam", ".json")):
            c = {"kind": "include-x", "a": a, "b": b, "ea": ea, "eb": eb}
            r = oracle(c)
            if r:
                ctx.oracle_fail(c, r[0], r[1])
            ctx.count(("ix", a, b, ea, eb), True, "include-cross-format")
    sd_include_cases(ctx, rng)
    if ctx.classes["rel"] == 0 or ctx.classes["hcr"] == 0:
        raise RuntimeError("generator starved")
