"""C09  JSON files round-trip, and mean the same as the equivalent native file."""
from __future__ import annotations

import copy
import itertools
import json
import shutil

from harness import gen, native, wire
from harness.props import c07, c15

RULE = (
    "seeded JSON-representable dicts (string keys, nested dicts / lists, ints, floats, bools, None, strings incl. ones that "
    "spell numbers or booleans, blanks, quotes, backslashes, non-ASCII) through JsonFormatter+JsonParser (strings) and "
    "DictWriter+DictReader (.json files); and model documents (content tree + references / expressions + include graph of "
    "<= 3 files) rendered once in native and once in JSON syntax, in every format assignment across the include graph, read "
    "with DictReader and compared; the JSON front end (include / expression extraction) is compared with the Coq model; "
    "non-trivial = dict has a re-typable string or nesting >= 2, document has an include or an expression; distinct = "
    "distinct dicts / (document, format assignment)"
)
ASSUMPTIONS = [
    "json.loads(json.dumps(t)) == t for JSON-representable trees (stdlib; checked on every generated tree)",
    "documents for the JSON == native comparison use strings that the element-type table does not re-type (native typing "
    "applies to quoted strings, JSON keeps them as strings: documented difference)",
]
TRUSTED_BASE = ["json (stdlib)"]


def json_leaf(rng, retypable=True):
    m = rng.randrange(10)
    if m < 5:
        s = rng.choice([gen.dom_string(rng), gen.word(rng), "two words", "it's", 'say "x" now', "back\\slash", "äö 日本", "",
                        # an odd number of embedded quotes, comment-like and URL-like content: all plain text inside a JSON string
                        '27" display', 'pipe 3/4" /* nominal */ steel', "src/*/test/*/conftest.py", "a // b", "http://x.org/y", "/* remark */",
                        "tab\there", "line\nbreak", "\u2028sep",
                        # runs of blanks, brackets and braces inside strings (text a serialiser must not touch)
                        "a  b", "ab   ", "   lead", "[m  s-1]", "x [Hs = 2.5 m,   Tp = 8 s] y", "{ a:  1 }", "tab\t\tgap", "q [ ]  r", "1,  2"])
        if not retypable and rng.random() < 0.12:
            # quote characters at the very ends (only compared on the formatter -> parser route: a JSON string is data)
            s = rng.choice(['5"', "'single quoted'", "rock 'n'", '"', "'", "''x''", '"dq"', "12''", "'", "it's'", '3\''])
        if retypable and rng.random() < 0.3:
            s = rng.choice(["1", "2.5", "true", "NULL", "off", "1e5", "-3"])
        return s
    if m == 5:
        return rng.randrange(-1000, 1000)
    if m == 6:
        return gen.rand_float(rng)
    if m == 7:
        return rng.choice([True, False])
    if m == 8:
        return None
    return gen.word(rng)


def json_tree(rng, retypable=True, depth=0):
    d = {}
    for _ in range(rng.randrange(1, 6)):
        k = gen.plain_key(rng)
        r = rng.random()
        if r < 0.25 and depth < 3:
            d[k] = json_tree(rng, retypable, depth + 1)
        elif r < 0.4:
            d[k] = [json_leaf(rng, retypable) if rng.random() < 0.8 else json_tree(rng, retypable, 3) for _ in range(rng.randrange(0, 4))]
        else:
            d[k] = json_leaf(rng, retypable)
    return d


def stable_string(rng):
    while True:
        s = rng.choice([gen.word(rng, 2, 8), "two words", "path/to/x", "C:\\dir", "äö 日本", "a-b.c"])
        if not gen.spells_typed(s) and gen.in_str_domain(s):
            return s


def gen_document(rng):
    """content per file + expressions; returns list of files: {name, content(dict), includes([names])}"""
    nfiles = rng.randrange(1, 4)
    files = []
    varnames = ["va", "vb", "vc", "vd"]
    if rng.random() < 0.3:
        # names that start with a digit, an underscore or a letter beyond ASCII (word characters all the same)
        varnames = rng.sample(["2nd", "\u0394p", "\u00f6l", "_u", "v_1", "9k", "x\u00e4"], 4)
    used = []
    for i in range(nfiles):
        c = {}
        for _ in range(rng.randrange(1, 4)):
            k = f"k{i}_{gen.plain_key(rng)}"
            r = rng.random()
            if r < 0.2:
                c[k] = {f"n{i}": rng.randrange(9), "s": stable_string(rng), "l": [1, 2.5, stable_string(rng)]}
            elif r < 0.35:
                c[k] = [rng.randrange(9), stable_string(rng)]
            else:
                c[k] = rng.choice([rng.randrange(-50, 50), gen.rand_float(rng), True, None, stable_string(rng)])
        if rng.random() < 0.8:
            v = varnames[i]
            c[v] = rng.choice([rng.randrange(1, 20), 2.5, 0.1])
            used.append(v)
        files.append({"name": f"f{i}", "content": c, "includes": []})
    # expressions anywhere, referring to variables declared anywhere
    for i, f in enumerate(files):
        for j in range(rng.randrange(0, 3)):
            if not used:
                break
            m = rng.randrange(4)
            a = rng.choice(used)
            if m == 0:
                f["content"][f"r{i}{j}"] = "$" + a
            elif m == 1:
                f["content"][f"e{i}{j}"] = f"${a} + {rng.randrange(1, 9)}"
                if rng.random() < 0.3:
                    # blanks around the expression text (a compound expression: a padded LONE reference is a recorded
                    # difference of the two front ends, Properties/C09.v C09_padded_reference_finding)
                    f["content"][f"e{i}{j}"] = rng.choice([" ", "  "]) + f["content"][f"e{i}{j}"] + rng.choice([" ", ""])
            elif m == 2 and len(used) > 1:
                b = rng.choice([u for u in used if u != a])
                f["content"][f"e{i}{j}"] = f"${a} * ${b}"
            else:
                f["content"][f"u{i}{j}"] = "$undefinedVar"
        if used and rng.random() < 0.5:
            a = rng.choice(used)
            # lists that start with a number and hold references / expressions further back, and matrix rows
            f["content"][f"vec{i}"] = [rng.randrange(1, 9), "$" + a, f"${a} * 2"]
            f["content"][f"mat{i}"] = [[0.5, f"${a} + 1"], [rng.randrange(1, 9), rng.randrange(1, 9)]]
    if nfiles >= 2:
        files[0]["includes"].append("f1")
    if nfiles == 3:
        files[rng.choice([0, 1])]["includes"].append("f2")
    return files


def render_native(f, fmt_of):
    dictIO = native.dictio()
    c = copy.deepcopy(f["content"])
    lines = [f"#include '{n}{'.json' if fmt_of[n] == 'json' else ''}'" for n in f["includes"]]
    fm = dictIO.NativeFormatter()
    body = fm.to_string(c)
    return "\n".join(lines) + ("\n" if lines else "") + body


def render_json(f, fmt_of):
    out = {}
    for j, n in enumerate(f["includes"]):
        out["#include" + (str(j) if j else "")] = n + (".json" if fmt_of[n] == "json" else "")
    out.update(copy.deepcopy(f["content"]))
    return json.dumps(out, indent=2)


def read_document(files, assignment):
    dictIO = native.dictio()
    fmt_of = {f["name"]: a for f, a in zip(files, assignment)}
    tmp = native.scratch_dir("c09_")
    try:
        for f in files:
            if fmt_of[f["name"]] == "json":
                (tmp / (f["name"] + ".json")).write_text(render_json(f, fmt_of))
            else:
                (tmp / f["name"]).write_text(render_native(f, fmt_of))
        root = tmp / ("f0.json" if assignment[0] == "json" else "f0")
        return gen.plain(dict(dictIO.DictReader.read(root)))
    finally:
        shutil.rmtree(tmp, ignore_errors=True)


def oracle(case: dict):
    dictIO = native.dictio()
    kind = case["kind"]
    if kind in ("rt", "rtd"):
        d = case["t"]
        if json.loads(json.dumps(d)) != d:
            return None
        try:
            txt = dictIO.JsonFormatter().to_string(copy.deepcopy(d))
            back = gen.plain(dict(dictIO.JsonParser().parse_string(txt, dictIO.SDict())))
        except Exception as e:  # noqa: BLE001
            return ("raises", f"JSON string round trip raised {type(e).__name__}: {e}")
        if not gen.typed_eq(back, d):
            return ("rt-string", f"JsonParser(JsonFormatter(d)) = {back!r}, d = {d!r}")
        if kind == "rtd":
            return None         # strings with quote characters at their ends: the formatter -> parser route only
        tmp = native.scratch_dir("c09r_")
        try:
            f = tmp / "x.json"
            try:
                dictIO.DictWriter.write(copy.deepcopy(d), f, mode="w")
                r = gen.plain(dict(dictIO.DictReader.read(f)))
            except Exception as e:  # noqa: BLE001
                return ("raises", f"JSON file round trip raised {type(e).__name__}: {e}")
            exp = native.normalise(d)
            if not gen.typed_eq(r, exp):
                return ("rt-file", f"read(write(d, x.json)) = {r!r}, expected {exp!r}")
        finally:
            shutil.rmtree(tmp, ignore_errors=True)
        return None
    if kind == "equiv":
        files = case["files"]
        results = {}
        for assignment in itertools.product(("native", "json"), repeat=len(files)):
            try:
                results[assignment] = read_document(files, assignment)
            except Exception as e:  # noqa: BLE001
                return ("raises", f"reading the document as {assignment} raised {type(e).__name__}: {e}")
        ref_a = tuple(["native"] * len(files))
        ref = native.strip_placeholders(results[ref_a], kinds=("COMMENT", "INCLUDE"))
        for a, r in results.items():
            got = native.strip_placeholders(r, kinds=("COMMENT", "INCLUDE"))
            if not c15.assoc_eq(got, ref):
                return ("json-vs-native", f"format assignment {a} reads {got!r}; all-native reads {ref!r}")
        return None
    raise ValueError(kind)


def shrink(case):
    if case["kind"] in ("rt", "rtd"):
        for t2 in gen.shrink_tree(case["t"]):
            yield {"kind": case["kind"], "t": t2}
    else:
        files = case["files"]
        for i, f in enumerate(files):
            for k in list(f["content"]):
                c = copy.deepcopy(files)
                del c[i]["content"][k]
                yield {"kind": "equiv", "files": c}


KNOWN_PREDICATES = {}


def run(ctx):
    rng = ctx.rng
    dictIO = native.dictio()
    rts = [{"kind": "rt", "t": json_tree(rng)} for _ in range(ctx.n(500, 12000))]
    rtds = [{"kind": "rtd", "t": json_tree(rng, retypable=False)} for _ in range(ctx.n(150, 3000))]
    for c in rtds:
        r = oracle(c)
        if r:
            ctx.oracle_fail(c, r[0], r[1])
        ctx.count(("rtd", repr(c["t"])), True, "rt-direct")
    # model correspondence: JSON front end on every tree (plus trees with include keys and dollar strings)
    mtrees = [c["t"] for c in rts[: ctx.n(300, 4000)]]
    for _ in range(ctx.n(150, 2000)):
        t = json_tree(rng)
        t = {**({"#include": "inc.json"} if rng.random() < 0.5 else {}), **t}
        if rng.random() < 0.5:
            t[" # include2"] = "sub/other"
        t["ref"] = rng.choice(["$a", " $a ", "$a + 1", "$a[0]", "x $a y", "$a $b", "no dollar", "$", "a$b"])
        t["lst"] = ["$x", {"deep": "$y * 2"}, 1]
        t["numfirst"] = [1, "$x", "$y + 1", [2.5, "$z"]]
        mtrees.append(t)
    mlines, ilines = [], []
    for t in mtrees:
        native.set_counter(-1)
        mlines.append(f"json_parse {wire.enc_str(str(__import__('os').getcwd()))} i-1 {wire.enc_tree(t)}")
        try:
            s = dictIO.JsonParser().parse_string(json.dumps(t), dictIO.SDict())
            ilines.append(c07.enc_sdict_obj(s) + f" i{native.counter_value()}")
        except Exception as e:  # noqa: BLE001
            ilines.append("raise " + type(e).__name__)
    mout = wire.run_model_sharded(mlines)
    ctx.compare("JsonParser.parse_string", [{"kind": "rt", "t": t} for t in mtrees], mout, ilines)
    for c in rts:
        r = oracle(c)
        if r:
            ctx.oracle_fail(c, r[0], r[1])
        nt = gen.tree_depth(c["t"]) >= 2 or any(isinstance(v, str) and gen.spells_typed(v) for v in c["t"].values())
        ctx.count(("r", wire.enc_tree(c["t"])), nt, "rt", sample={"dict": c["t"]} if nt and len(ctx.samples) < 3 else None)
    for _ in range(ctx.n(120, 3000)):
        files = gen_document(rng)
        c = {"kind": "equiv", "files": files}
        r = oracle(c)
        if r:
            ctx.oracle_fail(c, r[0], r[1])
        nt = len(files) > 1 or any(isinstance(v, str) and "$" in v for f in files for v in f["content"].values())
        ctx.count(("e", repr(files)), nt, f"equiv{len(files)}", sample={"files": files} if nt and len(ctx.samples) < 5 else None)
    if ctx.classes["rt"] == 0 or ctx.classes["equiv2"] + ctx.classes["equiv3"] == 0:
        raise RuntimeError("generator starved")
