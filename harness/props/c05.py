"""C05  References and expressions evaluate to the value a direct computation gives."""
from __future__ import annotations

import copy
import itertools
import json
import shutil

from harness import gen, native, wire

RULE = (
    "seeded dependency graphs of variables (literals incl. strings with blanks / quotes / backslashes / digits / names of math "
    "constants, lists; plain references; indexed references; arithmetic expressions over + - * / ( ); dangling, self- and "
    "mutually-referential references), names drawn from a pool with prefix relations (a, ab, abc, a1, a_b ...), declaration "
    "order permuted (all permutations for <= 4 variables in thorough), declarations spread over the root, nested dicts, dicts "
    "inside lists and native / JSON include files; DictReader.read compared with an independent topological evaluator; "
    "non-trivial = graph has a prefix pair, an indexed reference, an expression with >= 2 references or an unresolvable "
    "reference; distinct = distinct (graph, order, placement)"
)
ASSUMPTIONS = [
    "every referenced name is declared once in the whole document (the variable table is flat over all nesting levels)",
    "arithmetic is well typed (numeric operands); an ill-typed expression makes eval raise, which is outside the quantifier",
    "an expression with an unresolvable reference must still contain that reference's original text; a plain unresolvable "
    "reference is left exactly as written",
    "Python's eval / float arithmetic is the reference for numeric results (same operations in the same order)",
]
TRUSTED_BASE = ["the independent evaluator of this module (AST walk with Python's own arithmetic)"]

NAMES = ["a", "ab", "abc", "b", "a1", "a_b", "x", "xy", "x1", "bb"]
STRS = ["hello", "two words", "e", "pi", "exp", "it's", 'say "hi" now', "back\\slash", "C:\\dir\\n", "007x", "a+b", "1 2", "None", "true"]


class Node:
    def __init__(self, name, kind, payload):
        self.name, self.kind, self.payload = name, kind, payload


def expr_text(ast) -> str:
    k = ast[0]
    if k == "ref":
        return "$" + ast[1]
    if k == "idx":
        return "$" + ast[1] + "".join(f"[{i}]" for i in ast[2])
    if k == "num":
        return repr(ast[1])
    if k == "par":
        return "(" + expr_text(ast[1]) + ")"
    if k == "call":          # a Python builtin applied to sub-expressions: abs(..), max(.., ..), round(.., 2), int(..)
        return ast[1] + "(" + ", ".join(expr_text(a) for a in ast[2]) + ")"
    def sub(x):
        t = expr_text(x)
        return "(" + t + ")" if x[0] in "+-*/" else t
    return sub(ast[1]) + ast[3] + k + ast[3] + sub(ast[2])


def expr_eval(ast, env):
    k = ast[0]
    if k == "ref":
        return env[ast[1]]
    if k == "idx":
        v = env[ast[1]]
        for i in ast[2]:
            v = v[i]
        return v
    if k == "num":
        return ast[1]
    if k == "par":
        return expr_eval(ast[1], env)
    if k == "call":
        return {"abs": abs, "max": max, "min": min, "round": round, "int": int, "float": float}[ast[1]](*[expr_eval(a, env) for a in ast[2]])
    a, b = expr_eval(ast[1], env), expr_eval(ast[2], env)
    return {"+": lambda: a + b, "-": lambda: a - b, "*": lambda: a * b, "/": lambda: a / b}[k]()


def expr_refs(ast):
    if ast[0] in ("ref", "idx"):
        return [ast[1]]
    if ast[0] == "num":
        return []
    if ast[0] == "par":
        return expr_refs(ast[1])
    if ast[0] == "call":
        return [r for a in ast[2] for r in expr_refs(a)]
    return expr_refs(ast[1]) + expr_refs(ast[2])


def gen_graph(rng, ints=False):
    """ints=True: integer literals and + - * only (the fragment of eval that the Coq model covers)"""
    n = rng.randrange(2, 8)
    names = rng.sample(NAMES, n)
    nodes: list[Node] = []
    numeric: list[str] = []
    lists: list[str] = []
    anyv: list[str] = []
    feats = set()
    for i, nm in enumerate(names):
        r = rng.random()
        if r < 0.35 or i == 0:
            v = rng.choice([rng.randrange(-9, 50), round(rng.uniform(-5, 5), 3), rng.randrange(1, 9), 0.1, 2.5e-3])
            if ints:
                v = rng.choice([rng.randrange(-9, 50), rng.randrange(1, 9), 0, 12345678901234567890])
            nodes.append(Node(nm, "lit", v))
            numeric.append(nm)
        elif r < 0.45:
            nodes.append(Node(nm, "lit", rng.choice(STRS) if not ints else rng.randrange(-3, 4)))
            if ints:
                numeric.append(nm)
        elif r < 0.55:
            # mostly short; one list in four has more than ten items, so that indices of two digits occur
            v = [rng.randrange(1, 9) for _ in range(rng.randrange(1, 4) if rng.random() < 0.75 else rng.randrange(11, 15))]
            if rng.random() < 0.4:
                v = [v, [0.5, 1.5] if not ints else [3, -4]]
            elif not ints and rng.random() < 0.45:
                # lists of words, among them names Python's eval knows: an indexed reference holds the element itself
                v = [rng.choice(["e", "pi", "exp", "id", "max", "sin", "inf", "hello", "two words", "None1", "abs"]) for _ in range(rng.randrange(1, 5))]
                if rng.random() < 0.3:
                    v = [v, ["pi", "e"]]
                feats.add("word-list")
            nodes.append(Node(nm, "lit", v))
            lists.append(nm)
        elif r < 0.68 and anyv:
            tgt = rng.choice(anyv if not lists or rng.random() < 0.7 else lists)
            nodes.append(Node(nm, "ref", tgt))
            if tgt in lists:
                lists.append(nm)
            if tgt in numeric:
                numeric.append(nm)
        elif r < 0.76 and lists:
            tgt = rng.choice(lists)
            val = resolve_lit(nodes, tgt)
            idx = [rng.randrange(len(val)) if len(val) <= 10 or rng.random() < 0.4 else rng.randrange(10, len(val))]
            if isinstance(val[idx[0]], list):
                if rng.random() < 0.6:
                    idx.append(rng.randrange(len(val[idx[0]])))
            nodes.append(Node(nm, "idx", (tgt, idx)))
            feats.add("indexed")
        elif r < 0.92 and numeric:
            flat_lists = [x.name for x in nodes if x.kind == "lit" and isinstance(x.payload, list) and x.payload and all(isinstance(e, (int, float)) for e in x.payload)]

            def mk(depth=0):
                q = rng.random()
                if flat_lists and q < 0.2:
                    ln = rng.choice(flat_lists)
                    n_items = len(next(x for x in nodes if x.name == ln).payload)
                    return ("idx", ln, [rng.randrange(n_items) if n_items <= 10 or rng.random() < 0.4 else rng.randrange(10, n_items)])
                if q < 0.45 or depth > 1:
                    return ("ref", rng.choice(numeric))
                if q < 0.55:
                    return ("num", rng.choice([1, 2, 10, 0.5] if not ints else [1, 2, 10, 0]))
                if q < 0.65:
                    return ("par", mk(depth + 1))
                if q < 0.75 and not ints:
                    f = rng.choice(["abs", "max", "min", "round", "int", "float"])
                    if f in ("max", "min"):
                        return ("call", f, [mk(depth + 1), mk(depth + 1)])
                    if f == "round":
                        return ("call", f, [mk(depth + 1), ("num", rng.choice([0, 1, 3]))])
                    return ("call", f, [mk(depth + 1)])
                op = rng.choice("+-*/" if not ints else "+-*")
                rhs = mk(depth + 1)
                return (op, mk(depth + 1), rhs, rng.choice(["", " "]))
            ast = mk()
            if ast[0] == "call":
                feats.add("builtin-call")
            if not expr_refs(ast) or ast[0] in ("ref", "par", "idx"):
                ast = ("+", ("ref", rng.choice(numeric)), ast if ast[0] != "ref" else ("num", 1), " ")
            nodes.append(Node(nm, "expr", ast))
            if len(expr_refs(ast)) >= 2:
                feats.add("multi-ref")
            if any(x.kind == "expr" and x.name in expr_refs(ast) for x in nodes[:-1]):
                feats.add("expr-of-expr")       # needs more than one evaluation round
            numeric.append(nm)                  # later expressions may build on this one
        else:
            m = rng.randrange(5)
            if m == 4 and (lists or numeric):
                if lists and rng.random() < 0.7:
                    tgt = rng.choice(lists)
                    nodes.append(Node(nm, "badidx", (tgt, [len(resolve_lit(nodes, tgt)) + rng.randrange(0, 3)])))
                else:
                    cand = [x.name for x in nodes if x.kind == "lit" and isinstance(x.payload, (int, float)) and not isinstance(x.payload, bool)]
                    nodes.append(Node(nm, "badidx", (rng.choice(cand), [0])) if cand else Node(nm, "dangling", "nope" + str(i)))
                feats.add("bad-index")
            elif m == 0 or m == 4:
                nodes.append(Node(nm, "dangling", "nope" + str(i)))
            elif m == 1:
                nodes.append(Node(nm, "self", nm))
            elif m == 2 and i + 1 < n:
                nodes.append(Node(nm, "cyc", names[i + 1]))
                names_next = names[i + 1]
                nodes.append(Node(names_next, "cyc", nm))
                feats.add("unresolvable")
                break
            else:
                nodes.append(Node(nm, "expr-dangling", (rng.choice(numeric) if numeric else None, "nope" + str(i))))
            feats.add("unresolvable")
        if nodes[-1].kind in ("lit", "ref", "idx", "expr") and nodes[-1].name not in anyv:
            anyv.append(nm)
            if nodes[-1].kind == "expr" or (nodes[-1].kind == "idx"):
                pass
    declared = [x.name for x in nodes]
    if any(p != q and q.startswith(p) for p in declared for q in declared):
        feats.add("prefix")
    return nodes, feats


def resolve_lit(nodes, name):
    """the literal a chain of plain references ends in"""
    byname = {x.name: x for x in nodes}
    x = byname[name]
    while x.kind == "ref":
        x = byname[x.payload]
    return x.payload


def expected_values(nodes):
    env, unresolved = {}, {}
    byname = {x.name: x for x in nodes}
    state = {}

    def ev(nm):
        if nm in env:
            return True
        if nm in unresolved or state.get(nm) == 1 or nm not in byname:
            return False
        state[nm] = 1
        x = byname[nm]
        ok = True
        if x.kind == "lit":
            env[nm] = copy.deepcopy(x.payload)
        elif x.kind == "ref":
            ok = ev(x.payload)
            if ok:
                env[nm] = copy.deepcopy(env[x.payload])
        elif x.kind == "idx":
            ok = ev(x.payload[0])
            if ok:
                v = env[x.payload[0]]
                for i in x.payload[1]:
                    v = v[i]
                env[nm] = copy.deepcopy(v)
        elif x.kind == "expr":
            ok = all(ev(r) for r in expr_refs(x.payload))
            if ok:
                if any(isinstance(env[r], str) and env[r] == "ZERODIV" for r in expr_refs(x.payload)):
                    env[nm] = "ZERODIV"          # builds on a division by zero: the whole graph is discarded
                else:
                    try:
                        env[nm] = expr_eval(x.payload, env)
                    except ZeroDivisionError:
                        env[nm] = "ZERODIV"
        else:
            ok = False
        state[nm] = 2
        if not ok:
            unresolved[nm] = True
        return ok
    for x in nodes:
        ev(x.name)
    return env, unresolved


def node_text(x: Node, fmt) -> str:
    """value text in native syntax"""
    if x.kind == "lit":
        return None
    if x.kind == "ref":
        return "$" + x.payload
    if x.kind == "idx":
        return "$" + x.payload[0] + "".join(f"[{i}]" for i in x.payload[1])
    if x.kind == "expr":
        return '"' + expr_text(x.payload) + '"'
    if x.kind == "dangling":
        return "$" + x.payload
    if x.kind == "badidx":       # an index that addresses no element: out of range, or the value is no list
        return "$" + x.payload[0] + "".join(f"[{i}]" for i in x.payload[1])
    if x.kind in ("self", "cyc"):
        return "$" + x.payload
    if x.kind == "expr-dangling":
        a, d = x.payload
        return f'"${a} + ${d}"' if a else f'"${d} + 1"'
    raise ValueError(x.kind)


def original_text(x: Node) -> str:
    t = node_text(x, None)
    return t.strip('"')


def render_doc(rng, nodes, order=None, placement=None):
    """returns files {rel: text}; placement: per node one of root / nested / inlist / inc-native / inc-json"""
    dictIO = native.dictio()
    fmt = dictIO.NativeFormatter()
    order = order if order is not None else rng.sample(range(len(nodes)), len(nodes))
    placement = placement or [rng.choice(["root"] * 4 + ["nested", "inlist", "inc-native", "inc-json"]) for _ in nodes]
    buckets = {"root": [], "nested": [], "inlist": [], "inc-native": [], "inc-json": []}
    for i in order:
        buckets[placement[i]].append(nodes[i])

    def native_stmt(x):
        if x.kind == "lit":
            return fmt.to_string({x.name: x.payload}).rstrip("\n")
        return f"{x.name}  {node_text(x, fmt)};"
    lines = []
    files = {}
    if buckets["inc-native"]:
        lines.append("#include 'sub/incn'")
        files["sub/incn"] = "\n".join(native_stmt(x) for x in buckets["inc-native"]) + "\n"
    if buckets["inc-json"]:
        lines.append("#include 'incj.json'")
        j = {}
        for x in buckets["inc-json"]:
            j[x.name] = x.payload if x.kind == "lit" else node_text(x, fmt).strip('"')
        files["incj.json"] = json.dumps(j)
    top = [native_stmt(x) for x in buckets["root"]]
    if buckets["nested"]:
        # the nested dicts are named by words, or (one time in three) numbered: cases { 0 { .. } }
        outer, inner = ("nest", "inner") if rng.random() < 0.67 else ("cases", rng.choice(["0", "3", "12"]))
        top.insert(rng.randrange(len(top) + 1), outer + "\n{\n    " + inner + "\n    {\n" + "\n".join("        " + native_stmt(x).replace("\n", "\n        ") for x in buckets["nested"]) + "\n    }\n}")
    if buckets["inlist"]:
        top.insert(rng.randrange(len(top) + 1), "lst\n(\n    {\n" + "\n".join("        " + native_stmt(x).replace("\n", "\n        ") for x in buckets["inlist"]) + "\n    }\n);")
    files["root"] = "\n".join(lines + top) + "\n"
    return files


def find_key(d, name):
    if isinstance(d, dict):
        if name in d:
            return True, d[name]
        for v in d.values():
            ok, r = find_key(v, name)
            if ok:
                return ok, r
    elif isinstance(d, list):
        for v in d:
            ok, r = find_key(v, name)
            if ok:
                return ok, r
    return False, None


def decode_nodes(case):
    return [Node(n, k, _thaw(p)) for n, k, p in case["nodes"]]


def _freeze(p):
    return p


def _thaw(p):
    if isinstance(p, list) and p and p[0] in ("ref", "num", "par", "call", "idx", "+", "-", "*", "/") and not all(isinstance(x, (int, float)) for x in p):
        return tuple(_thaw(x) if isinstance(x, list) else x for x in p)
    return p


def termination_probe(case: dict):
    """read a document in a child process with a time limit (a hang cannot be observed from inside the process)"""
    import subprocess
    import sys

    tmp = native.scratch_dir("c05t_")
    try:
        (tmp / "root").write_text(case["text"])
        code = ("import logging,sys\nlogging.disable(logging.CRITICAL)\nfrom dictIO import DictReader\n"
                "from dictIO.utils.counter import BorgCounter\nBorgCounter.Borg['theCount'] = -1\n"
                f"d = DictReader.read({str(tmp / 'root')!r})\nprint(repr(dict(d)))\n")
        try:
            p = subprocess.run([sys.executable, "-B", "-c", code], capture_output=True, text=True, timeout=case.get("limit", 20), check=False)
        except subprocess.TimeoutExpired:
            return ("no-termination", f"DictReader.read did not return within {case.get('limit', 20)} s on {case['text']!r}")
        if p.returncode != 0:
            return ("raises", f"read of {case['text']!r} failed: {p.stderr.strip().splitlines()[-1] if p.stderr.strip() else p.returncode}")
        want = case.get("expect")
        if want is not None and want not in p.stdout:
            return ("value", f"read of {case['text']!r} gave {p.stdout.strip()[:300]}, expected it to hold {want}")
        return None
    finally:
        shutil.rmtree(tmp, ignore_errors=True)


def session_oracle(case: dict):
    """several dict files that include ONE file with expressions of its own, read one after the other in one process
    (read / load / reset in between): every read gives the values of the direct computation"""
    dictIO = native.dictio()
    tmp = native.scratch_dir("c05s_")
    try:
        for rel, text in case["files"].items():
            (tmp / rel).write_text(text)
        for step, (op, name) in enumerate(case["ops"]):
            try:
                if op == "reset":
                    dictIO.SDict().reset()
                    continue
                r = dictIO.SDict().load(tmp / name) if op == "load" else dictIO.DictReader.read(tmp / name)
            except Exception as e:  # noqa: BLE001
                return ("raises", f"step {step} {op} {name} raised {type(e).__name__}: {e}")
            got = {k: v for k, v in gen.plain(dict(r)).items() if k in case["expect"][name]}
            bad = {k: (got.get(k), v) for k, v in case["expect"][name].items() if k not in got or not gen.typed_eq(got.get(k), v)}
            if bad:
                return ("value", f"step {step} ({op} {name} after {case['ops'][:step]}): (got, direct computation) per key {bad!r}")
        return None
    finally:
        shutil.rmtree(tmp, ignore_errors=True)


def session_case(rng):
    a, b, c = rng.randrange(2, 9), rng.randrange(2, 9), rng.randrange(2, 9)
    params = f"p1  {a};\np2  \"$p1 + {b}\";\np3  \"$p2 * {c}\";\np4  $p1;\n"
    pv = {"p1": a, "p2": a + b, "p3": (a + b) * c, "p4": a}
    files, expect = {"params": params}, {}
    # two more included files that both declare the nested dict cfg (different keys): declarations spread over included files
    files["incA"] = f"cfg\n{{\n    length  {a}.0;\n    sub {{ s1 {b}; }}\n}}\n"
    files["incB"] = f"cfg\n{{\n    width  {c}.5;\n    sub {{ s2 {c}; }}\n}}\n"
    for nm in ("caseA", "caseB", "caseC"):
        n = rng.randrange(1, 7)
        x = rng.randrange(1, 9)
        lines, vals = ["#include 'params'", "#include 'incA'", "#include 'incB'", f"{nm}0  {x};"], {f"{nm}0": x}
        lines.append(f'{nm}area  "$length * $width";')
        lines.append(f'{nm}s  "$s1 + $s2";')
        vals[f"{nm}area"] = float(a) * (c + 0.5)
        vals[f"{nm}s"] = b + c
        for i in range(1, n + 1):
            prev = f"{nm}{i - 1}"
            ref = rng.choice(["p1", "p2", "p3"])
            k = rng.randrange(1, 5)
            lines.append(f'{nm}{i}  "${prev} + ${ref} * {k}";')
            vals[f"{nm}{i}"] = vals[prev] + pv[ref] * k
        # references and expressions as cells of a matrix (a list inside a list), and in a list of lists of lists
        last = f"{nm}{n}"
        ref = rng.choice(["p1", "p2", "p3"])
        lines.append(f'{nm}mat  (( ${last} 0 ) ( 0 "${ref} * 2" ) ( $nowhere{nm} 1 ));')
        vals[f"{nm}mat"] = [[vals[last], 0], [0, pv[ref] * 2], [f"$nowhere{nm}", 1]]
        lines.append(f'{nm}cube  ((( 1 $p1 ) ( "$p2 + 1" 2 )));')
        vals[f"{nm}cube"] = [[[1, pv["p1"]], [pv["p2"] + 1, 2]]]
        files[nm] = "\n".join(lines) + "\n"
        expect[nm] = dict(pv, **vals)
    ops = []
    for _ in range(rng.randrange(2, 6)):
        ops.append(rng.choice([("read", "caseA"), ("read", "caseB"), ("read", "caseC"), ("load", "caseA"), ("load", "caseB"), ("reset", "")]))
    ops.append((rng.choice(["read", "load"]), rng.choice(["caseA", "caseB", "caseC"])))
    return {"kind": "session", "files": files, "expect": expect, "ops": ops}


def oracle(case: dict):
    if case.get("kind") == "session":
        return session_oracle(case)
    if case.get("kind") == "termination":
        return termination_probe(case)
    if case.get("kind") == "read-scope":
        from harness.props import c14

        return c14.read_scope_oracle(case)
    dictIO = native.dictio()
    nodes = decode_nodes(case)
    try:
        env, unresolved = expected_values(nodes)
    except (TypeError, IndexError, KeyError, ValueError):
        return None                 # not a well-typed graph (a shrink step can produce one): outside the quantifier
    if any(isinstance(v, str) and v == "ZERODIV" for v in env.values()):
        return None                 # division by zero makes eval raise: outside the quantifier (well-typed arithmetic)
    tmp = native.scratch_dir("c05_")
    try:
        for rel, text in case["files"].items():
            p = tmp / rel
            p.parent.mkdir(parents=True, exist_ok=True)
            p.write_text(text)
        try:
            r = dictIO.DictReader.read(tmp / "root")
        except RecursionError as e:
            return ("no-termination", f"read raised RecursionError ({str(e)[:60]})")
        except Exception as e:  # noqa: BLE001
            return ("raises", f"read raised {type(e).__name__}: {e}")
    finally:
        shutil.rmtree(tmp, ignore_errors=True)
    got = gen.plain(dict(r))
    import re

    def has_ph(x):
        if isinstance(x, dict):
            return any(has_ph(k) or has_ph(v) for k, v in x.items())
        if isinstance(x, list):
            return any(has_ph(v) for v in x)
        return isinstance(x, str) and re.search(r"EXPRESSION\d{6}", x) is not None
    if has_ph(got):
        return ("placeholder-left", f"an EXPRESSION placeholder is left in the result: {got!r}")
    json_declared = set(json.loads(case["files"]["incj.json"])) if "incj.json" in case["files"] else set()
    for x in nodes:
        ok, v = find_key(got, x.name)
        if not ok:
            return ("missing", f"key {x.name} is missing in the result {got!r}")
        if x.name in env:
            exp = env[x.name]
            if exp == "ZERODIV":
                continue
            if isinstance(exp, str):
                exp = native.normalise(exp) if x.kind == "lit" else exp
            if x.kind == "ref" and isinstance(exp, str):
                exp = native.normalise(exp) if False else exp
            # a referenced string literal is read (and typed) by the reader first
            exp = _retype(exp, nodes, x, json_declared)
            if not gen.typed_eq(v, exp):
                return ("value", f"{x.name} = {v!r} ({type(v).__name__}), direct computation gives {exp!r} ({type(exp).__name__}); "
                                 f"declaration {x.name} {node_text(x, None) if x.kind != 'lit' else x.payload!r}")
        else:
            orig = original_text(x)
            if x.kind == "expr-dangling":
                d = "$" + x.payload[1]
                if not (isinstance(v, str) and d in v):
                    return ("unresolved", f"{x.name} = {v!r}: the unresolvable reference {d} is gone")
            elif x.kind in ("dangling", "self", "cyc"):
                if v != orig:
                    return ("unresolved", f"{x.name} = {v!r}, expected the original text {orig!r}")
            else:
                # depends on something unresolvable: must still mention an unresolved reference
                if not (isinstance(v, str) and "$" in v):
                    return ("unresolved", f"{x.name} = {v!r} although it depends on an unresolvable reference")
    return None


def _retype(exp, nodes, x, json_declared=frozenset()):
    """string literals are typed by the reader on their way in (documented normalisation)"""
    byname = {n.name: n for n in nodes}
    cur = x
    seen = set()
    while cur.kind == "ref" and cur.payload in byname and cur.name not in seen:
        seen.add(cur.name)
        cur = byname[cur.payload]
    if cur.kind == "lit" and isinstance(cur.payload, str):
        return cur.payload if cur.name in json_declared else native.normalise(cur.payload)
    return exp


def shrink(case):
    if case.get("kind") == "session":
        for i in range(len(case["ops"]) - 1):
            yield dict(case, ops=case["ops"][:i] + case["ops"][i + 1:])
        return
    if case.get("kind") in ("termination", "read-scope"):
        return
    nodes = case["nodes"]
    for i in range(len(nodes)):
        nm = nodes[i][0]
        rest = nodes[:i] + nodes[i + 1:]
        if any(_mentions(p, nm) for _, _, p in rest):
            continue
        import random

        ns = [Node(n, k, _thaw(p)) for n, k, p in rest]
        files = render_doc(random.Random(0), ns, order=list(range(len(ns))), placement=["root"] * len(ns))
        yield {"nodes": rest, "files": files}


def _mentions(p, nm):
    if isinstance(p, str):
        return p == nm
    if isinstance(p, (list, tuple)):
        return any(_mentions(x, nm) for x in p)
    return False


def none_ref(case, f):
    """a reference (chain) ends in a key whose value is None: a literal None, or a native string that spells none / null"""
    if "nodes" not in case:
        return False
    def is_none(p):
        return p is None or (isinstance(p, str) and p.strip().lower() in ("none", "null"))
    return any(k == "lit" and is_none(p) for _, k, p in case["nodes"]) and f["symptom"] in ("unresolved", "value") \
        and "gives None" in f["detail"]


KNOWN_PREDICATES = {"C05-reference-to-none": none_ref}


def lexable(nodes) -> bool:
    """the file stays inside the string domain of C01 (balanced inner quotes): a value with a lone apostrophe (it's) that is
    followed by a single-quoted literal is tokenised differently by the reader's two independent quote scans; that is a
    limitation of the lexer outside C01's stated domain, not the resolver's business"""
    strs = []

    def go(x):
        if isinstance(x, (list, tuple)):
            for v in x:
                go(v)
        elif isinstance(x, str):
            strs.append(x)
    for x in nodes:
        if x.kind == "lit":
            go(x.payload)
    if not any(s.count("'") % 2 for s in strs):
        return True
    f = native.dictio().NativeFormatter()
    return not any(f.format_value(s).startswith("'") for s in strs)


def mk_case(rng, nodes, order=None, placement=None):
    files = render_doc(rng, nodes, order, placement)
    return {"nodes": [(x.name, x.kind, x.payload) for x in nodes], "files": files}


def run(ctx):
    rng = ctx.rng
    cases = []
    for i in range(ctx.n(500, 15000)):
        nodes, feats = gen_graph(rng)
        if "ZERODIV" in expected_values(nodes)[0].values():
            continue        # division by zero makes eval raise: outside the quantifier (well-typed arithmetic)
        if not lexable(nodes):
            continue
        c = mk_case(rng, nodes)
        cases.append((c, feats))
    # sessions: several case files over one included file that has expressions of its own, read / load / reset in one process
    for i in range(ctx.n(40, 800)):
        c = session_case(rng)
        r = oracle(c)
        if r:
            ctx.oracle_fail(c, r[0], r[1])
        ctx.count(("ss", repr(c["ops"]), repr(c["files"])), True, "session")
    if ctx.tier == "thorough":
        for _ in range(150):
            nodes, feats = gen_graph(rng)
            if len(nodes) > 4:
                nodes = nodes[:4]
                if any(_mentions(x.payload, n) for x in nodes for n in NAMES if n not in [y.name for y in nodes]):
                    continue
            for perm in itertools.permutations(range(len(nodes))):
                cases.append((mk_case(rng, nodes, order=list(perm), placement=["root"] * len(nodes)), feats | {"all-orders"}))
        ctx.extra["exhaustive_part"] = "all declaration orders for graphs with <= 4 variables"
    # fixed probes: prefix, mutual cycle, backslash, math-constant names, None
    probes = [
        [Node("a", "lit", 1), Node("ab", "lit", 2), Node("x", "expr", ("+", ("ref", "a"), ("ref", "ab"), " "))],
        [Node("b", "cyc", "bb"), Node("bb", "cyc", "b"), Node("x", "lit", 3), Node("xy", "ref", "x")],
        [Node("a", "lit", "back\\slash"), Node("b", "ref", "a")],
        [Node("a", "lit", "e"), Node("b", "ref", "a"), Node("x", "lit", "pi"), Node("xy", "ref", "x")],
    ]
    for nodes in probes:
        cases.append((mk_case(rng, nodes, order=list(range(len(nodes))), placement=["root"] * len(nodes)), {"probe"}))
    for nodes in ([Node("l", "lit", [3, 5, 8]), Node("d", "badidx", ("l", [5])), Node("ok", "idx", ("l", [1]))],
                  [Node("q", "lit", 5), Node("f", "badidx", ("q", [0])), Node("k", "ref", "q")]):
        cases.append((mk_case(rng, nodes, order=list(range(len(nodes))), placement=["root"] * len(nodes)), {"probe", "bad-index", "unresolvable"}))
    for nodes in ([Node("u", "lit", ["m", "kg", "e", "pi"]), Node("a", "idx", ("u", [2])), Node("b", "idx", ("u", [3])), Node("uu", "ref", "u"), Node("c", "idx", ("uu", [2]))],
                  [Node("t", "lit", [["id", "max"], ["sin", "x y"]]), Node("a", "idx", ("t", [0, 0])), Node("b", "idx", ("t", [1, 0])), Node("c", "idx", ("t", [1]))]):
        cases.append((mk_case(rng, nodes, order=list(range(len(nodes))), placement=["root"] * len(nodes)), {"probe", "indexed", "word-list"}))
    for nodes in ([Node("x", "lit", [5, 6]), Node("a", "expr", ("+", ("idx", "x", [0]), ("num", 1), " ")), Node("b", "expr", ("*", ("ref", "a"), ("num", 2), " ")), Node("xy", "ref", "a")],
                  [Node("x", "lit", [5, 6]), Node("ab", "ref", "x"), Node("abc", "ref", "ab"), Node("a", "idx", ("abc", [1]))]):
        cases.append((mk_case(rng, nodes, order=list(range(len(nodes))), placement=["root"] * len(nodes)), {"probe", "indexed"}))
    # unresolvable references whose NAME spells a placeholder (the very id the expression gets on a fresh counter, a
    # neighbouring id, another kind): must be left as their text, and reading must return
    for text, expect in (('a  "$EXPRESSION000000 + 1";\n', "$EXPRESSION000000 + 1"), ('k  1;\na  "$EXPRESSION000001 + $k";\n', "$EXPRESSION000001 + 1"),
                         ('a  $EXPRESSION000000;\n', "$EXPRESSION000000"), ('a  "$STRINGLITERAL000000 + 1";\nb  \'x y\';\n', "x y")):
        c = {"kind": "termination", "text": text, "expect": expect, "limit": 20}
        r = oracle(c)
        if r:
            ctx.oracle_fail(c, r[0], r[1])
        ctx.count(("t", text), True, "termination-probe")
        # the model on the same document (it stops re-inserting when the value spells the placeholder)
        ml = wire.run_model([f"read_full l1 {wire.enc_str('/w/root')} native {wire.enc_str(text)} {wire.enc_str('/w/root')} b1 i-1"])[0]
        ctx.corr_compared += 1
        ok = ml.startswith("ok SD ")
        if ok:
            rd = wire.Reader(ml[len("ok SD "):])
            ok = expect in repr(rd.tree())
        if not ok and r is None:
            ctx.disagree("read_full (reference named like a placeholder)", c, ml[:600], f"returns, result holds {expect!r}")
    none_probe = mk_case(rng, [Node("a", "lit", None), Node("b", "ref", "a")], order=[0, 1], placement=["root", "root"])
    cases.append((none_probe, {"probe"}))
    # the same values must come out when the dict is reduced to a scope by the READ OPTION (references from inside the
    # scope to keys declared outside it)
    for c, feats in cases[: ctx.n(120, 2000)]:
        if "nest\n" in c["files"]["root"]:
            for p in (["nest"], ["nest", "inner"]):
                cs = {"kind": "read-scope", "files": c["files"], "p": p}
                r = oracle(cs)
                if r:
                    ctx.oracle_fail(cs, r[0], r[1])
                ctx.count(("rs", repr(c["files"]), tuple(p)), True, "read-scope")
    for c, feats in cases:
        r = oracle(c)
        if r:
            ctx.oracle_fail(c, r[0], r[1])
        ctx.count(("g", repr(c["files"])), bool(feats), "+".join(sorted(feats)) or "plain",
                  sample={"files": c["files"]} if feats and len(ctx.samples) < 4 else None)
    model_correspondence(ctx, [c for c, _ in cases])
    read_full_correspondence(ctx, rng, [c for c, _ in cases])
    for need in ("prefix", "indexed", "unresolvable", "multi-ref", "expr-of-expr"):
        if not any(need in k for k in ctx.classes):
            raise RuntimeError(f"generator starved: no graph with feature {need}")


MALFORMED = ['"$a +"', '"* $a"', '"($a"', '"$a $ab"', '"$a ** 2"', '"()"', '"$a (2)"', '"$a +- 3"', '"- -$a"', '"07 + $a"',
             '"$a\t*\t2"', '" $a "', '"$a + nope"', '"$a / 2"', '"$a + 1.5"', '"$a + \'x\'"', '"$$a"', '"$a[0] + 1"', '"1 2"']


def read_full_correspondence(ctx, rng, cases):
    """the whole of DictReader.read on documents with references and expressions: parse, merge includes, the iterative
    substitute-and-evaluate loop, back-insertion; model (Eval.read_full) vs implementation, data + tables + counter.
    The model evaluates integer arithmetic only and answers "outside" elsewhere (counted, not compared)."""
    import shutil

    from harness.props import c07
    dictIO = native.dictio()
    docs = list(cases[:ctx.n(150, 3000)])
    for i in range(ctx.n(350, 9000)):
        nodes, feats = gen_graph(rng, ints=True)
        if "ZERODIV" in expected_values(nodes)[0].values() or not lexable(nodes):
            continue
        c = mk_case(rng, nodes)
        if rng.random() < 0.25:
            # a malformed / out-of-fragment expression next to the well-formed ones
            nm = rng.choice([x.name for x in nodes])
            c = {"nodes": c["nodes"], "files": dict(c["files"])}
            c["files"]["root"] += f"odd{i}  {rng.choice(MALFORMED).replace('$a', '$' + nm)};\n"
        docs.append(c)
        r = oracle(c) if "odd" not in c["files"]["root"] else None
        if r:
            ctx.oracle_fail(c, r[0], r[1])
        ctx.count(("gi", repr(c["files"])), bool(feats), "int:" + ("+".join(sorted(feats)) or "plain"))
    tmp = native.scratch_dir("c05f_")
    try:
        mlines, ilines, kept = [], [], []
        for c in docs:
            for p in list(tmp.rglob("*")):
                if p.is_file():
                    p.unlink()
            parts = []
            for rel, text in c["files"].items():
                p = tmp / rel
                p.parent.mkdir(parents=True, exist_ok=True)
                p.write_text(text)
                if rel.endswith(".json"):
                    parts.append(f"{wire.enc_str(str(p))} json {wire.enc_tree(json.loads(text))}")
                else:
                    parts.append(f"{wire.enc_str(str(p))} native {wire.enc_str(text)}")
            mlines.append(f"read_full l{len(parts)} " + " ".join(parts) + f" {wire.enc_str(str(tmp / 'root'))} b1 i-1")
            native.set_counter(-1)
            try:
                r = dictIO.DictReader.read(tmp / "root")
                ilines.append("ok " + c07.enc_sdict_obj(r) + f" i{native.counter_value()}")
            except (ValueError, TypeError, IndexError, KeyError, RecursionError) as e:
                ilines.append(f"raise {native.ERRCODE[type(e).__name__]}")
            except Exception as e:  # noqa: BLE001
                ilines.append("raise-other " + type(e).__name__)
            kept.append(c)
        mout = wire.run_model_sharded(mlines)
        inside = 0
        for c, ml, il in zip(kept, mout, ilines):
            if ml == "outside":
                ctx.classes["read_full:outside the modelled fragment of eval"] += 1
                continue
            inside += 1
            ctx.corr_compared += 1
            if wire.canon_floats(ml) != wire.canon_floats(il) and len(ctx.disagreements) < 30:
                ctx.disagree("read_full (parse + includes + expression loop)", c, ml[:3000], il[:3000])
        ctx.classes["read_full:compared"] += inside
        if inside < len(kept) // 4:
            raise RuntimeError("generator starved: too few documents inside the modelled fragment of eval")
    finally:
        shutil.rmtree(tmp, ignore_errors=True)


def model_correspondence(ctx, cases):
    """filled in by harness/exprmodel.py once the Coq model of variables / resolve / substitute is extracted"""
    try:
        from harness import exprmodel
    except ImportError:
        return
    exprmodel.run(ctx, cases)
