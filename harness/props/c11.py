"""C11  XML documents map faithfully to dicts and survive a write/read cycle."""
from __future__ import annotations

import copy
import re
import shutil
import xml.etree.ElementTree as ET

from harness import gen, native, wire

RULE = (
    "seeded XML documents (absent / default / prefixed single namespace; element trees <= 30 elements, depth <= 5, repeated "
    "tags, attributes incl. empty ones, typed text, multi-line text, empty and white-space-only elements, text containing "
    "':' '<' '&' and the prefix letters) checked against an independent xml.etree walk; write -> read cycles; and dicts of "
    "the value domain with XML-name keys written as XML and re-parsed with xml.etree; non-trivial = document has a "
    "namespace, repeated tags, attributes or multi-line text; distinct = distinct documents / dicts"
)
ASSUMPTIONS = [
    "lxml / xml.etree / minidom map text to element trees and back (trusted; xml.etree is the independent parser of the oracle)",
    "attributes are unprefixed; one namespace per document; mixed content (text next to child elements) is not generated",
    "typed text / attribute values follow the element-type table (C04)",
]
TRUSTED_BASE = ["xml.etree.ElementTree as independent parser"]

TAGS = ["a", "b", "item", "node", "Value", "x1", "on", "xs", "n", "INCLUDE", "INCLUDES", "_opts", "BLOCKCOMMENT1",
        "LINECOMMENT2", "_content", "_attributes", "_xOpts"]
NS_URI = "http://example.org/ns"


def text_value(rng):
    m = rng.randrange(9)
    if m == 0:
        return str(rng.randrange(-99, 99))
    if m == 1:
        return repr(round(rng.uniform(-9, 9), 3))
    if m == 2:
        return rng.choice(["true", "false", "NULL", "on"])
    if m == 3:
        # multi-line text: indented lines, empty and white-space-only lines inside, CRLF, tabs
        return rng.choice(["line one\n      line two\n   three", "para one\n\n   para two", "a\n   \n\n  b\n c", "x\r\n  y\r\n\r\nz",
                           "\tfirst\n\t\n\tlast", "1\n2", "head\n\n\n\ntail"])
    if m == 4:
        return rng.choice(["on:off", "xs:thing", "n:1", "a < b", "x & y", "xs:", "key: value", "/xs:schema/xs:element", "kg/n:3 per on:x", "a/None:b", "(xs:int) >xs:y", "=on:1 ,n:2"])
    if m == 5:
        if rng.random() < 0.5:
            # one long line (well beyond any plausible line width), words separated by single blanks
            return " ".join(rng.choice(["the", "sphinx", "of", "black", "quartz", "judges", "my", "vow", "x1", "äö"]) for _ in range(rng.randrange(25, 70)))
        return "   "
    if m == 6:
        return None
    return rng.choice(["plain", "two words", "äö 日本", "C:/path/x", "it's"])


def gen_elem(rng, depth, budget):
    tag = rng.choice(TAGS)
    e = {"tag": tag, "attrs": {}, "text": None, "children": []}
    for _ in range(rng.randrange(0, 3)):
        e["attrs"][rng.choice(["id", "name", "unit", "flag", "v"])] = rng.choice(["1", "x", "", "true", "a b", "2.5", "xs:int", "n:0", "none", "NULL", "null", "off", " None ", "/xs:a/on:b", "p/n:q"])
    if depth < 4 and budget[0] > 0 and rng.random() < 0.5:
        for _ in range(rng.randrange(1, 4)):
            if budget[0] <= 0:
                break
            budget[0] -= 1
            e["children"].append(gen_elem(rng, depth + 1, budget))
    else:
        e["text"] = text_value(rng)
    return e


def gen_doc(rng):
    ns = rng.choice(["none", "default", "prefixed"])
    prefix = rng.choice(["xs", "n", "on"]) if ns == "prefixed" else None
    root = {"tag": rng.choice(["root", "Config", "data"]), "attrs": {}, "text": None, "children": []}
    if rng.random() < 0.4:
        root["attrs"]["version"] = rng.choice(["1.0", "2", "beta"])
    if rng.random() < 0.35:
        # root attributes are kept verbatim (text, not typed values): words and spellings a typing step would change
        root["attrs"][rng.choice(["standalone", "validated", "strict", "level"])] = rng.choice(["True", "FALSE", "true", "None", "007", "1.50", "on", " x ", "NULL"])
    budget = [rng.choice([3, 8, 25])]
    for _ in range(rng.randrange(1, 5)):
        root["children"].append(gen_elem(rng, 1, budget))
    return {"ns": ns, "prefix": prefix, "root": root}


def esc(s):
    return s.replace("&", "&amp;").replace("<", "&lt;").replace(">", "&gt;")


def render(doc) -> str:
    p = (doc["prefix"] + ":") if doc["prefix"] else ""

    def go(e, ind, top=False):
        attrs = "".join(f' {k}="{esc(v)}"' for k, v in e["attrs"].items())
        if top:
            if doc["ns"] == "default":
                attrs += f' xmlns="{NS_URI}"'
            elif doc["ns"] == "prefixed":
                attrs += f' xmlns:{doc["prefix"]}="{NS_URI}"'
        t = p + e["tag"]
        if e["children"]:
            inner = "\n".join(go(c, ind + "  ") for c in e["children"])
            return f"{ind}<{t}{attrs}>\n{inner}\n{ind}</{t}>"
        if e["text"] is None:
            return f"{ind}<{t}{attrs}/>"
        return f"{ind}<{t}{attrs}>{esc(e['text'])}</{t}>"
    return '<?xml version="1.0" encoding="UTF-8"?>\n' + go(doc["root"], "", top=True) + "\n"


def local(tag: str) -> str:
    return re.sub(r"^\{.*\}", "", tag)


def norm_text(t):
    if t is None or re.fullmatch(r"[\s\n\r]*", t):
        return None
    return ("\n".join(l.strip() for l in t.splitlines(keepends=True))).strip()


def spec_entries(elem):
    """independent walk: list of (tag, entry) in document order; entry = dict with typed _content / _attributes / children"""
    from harness.props.c04 import spec_classify

    out = []
    for child in list(elem):
        if len(child):
            entry = {"children": spec_entries(child)}
        else:
            t = norm_text(child.text)
            entry = {} if t is None else {"_content": spec_classify(t)}
        attrs = {k: spec_classify(v) for k, v in child.attrib.items() if v != ""}
        if attrs:
            entry["_attributes"] = attrs
        out.append((local(child.tag), entry))
    return out


def impl_entries(d):
    """entries of the parsed dict in order, numbering removed, same shape as spec_entries"""
    out = []
    for k, v in d.items():
        if k == "_xmlOpts" or k in ("_attributes", "_content"):
            continue
        tag = re.sub(r"^\d{6}_", "", str(k))
        entry = {}
        if isinstance(v, dict):
            if "_content" in v:
                entry["_content"] = v["_content"]
            if v.get("_attributes"):        # an empty attribute dict carries nothing
                entry["_attributes"] = dict(v["_attributes"])
            kids = impl_entries(v)
            if kids:
                entry["children"] = kids
        else:
            entry["_content"] = v
        out.append((tag, entry))
    return out


def entries_eq(a, b):
    if len(a) != len(b):
        return False
    for (ta, ea), (tb, eb) in zip(a, b):
        if ta != tb or set(ea) != set(eb):
            return False
        for k in ea:
            if k == "children":
                if not entries_eq(ea[k], eb[k]):
                    return False
            elif not gen.typed_eq(ea[k], eb[k]):
                return False
    return True


def oracle(case: dict):
    dictIO = native.dictio()
    if case["kind"] == "doc":
        xml = case["xml"]
        root = ET.fromstring(xml.encode("utf-8"))
        exp = spec_entries(root)
        try:
            d1 = gen.plain(dict(dictIO.XmlParser().parse_string(xml, dictIO.SDict())))
        except Exception as e:  # noqa: BLE001
            return ("raises", f"XmlParser.parse_string raised {type(e).__name__}: {e}")
        got = impl_entries(d1)
        if not entries_eq(got, exp):
            return ("read-mapping", f"parsed entries {got!r}; xml.etree sees {exp!r}")
        opts = d1.get("_xmlOpts", {})
        if opts.get("_rootTag") != local(root.tag):
            return ("root-tag", f"_rootTag {opts.get('_rootTag')!r}, document root {local(root.tag)!r}")
        if {k: v for k, v in opts.get("_rootAttributes", {}).items()} != dict(root.attrib):
            return ("root-attrs", f"_rootAttributes {opts.get('_rootAttributes')!r} vs {dict(root.attrib)!r}")
        ns = opts.get("_nameSpaces", {})
        if case["ns"] == "default" and ns != {"None": NS_URI}:
            return ("namespace", f"_nameSpaces {ns!r} for a default namespace")
        if case["ns"] == "prefixed" and ns != {case["prefix"]: NS_URI}:
            return ("namespace", f"_nameSpaces {ns!r} for prefix {case['prefix']}")
        # write -> read cycle
        try:
            xml2 = dictIO.XmlFormatter().to_string(copy.deepcopy(d1))
            d2 = gen.plain(dict(dictIO.XmlParser().parse_string(xml2, dictIO.SDict())))
        except Exception as e:  # noqa: BLE001
            return ("cycle-raises", f"write/read cycle raised {type(e).__name__}: {e}")
        got2 = impl_entries(d2)
        if not entries_eq(got2, got):
            return ("cycle", f"after write+read: {got2!r}; first read: {got!r}; written {xml2!r}")
        o2 = d2.get("_xmlOpts", {})
        for k in ("_rootTag", "_rootAttributes", "_nameSpaces"):
            if o2.get(k) != opts.get(k):
                return ("cycle-opts", f"{k} changed over the cycle: {opts.get(k)!r} -> {o2.get(k)!r}")
        # the written document agrees with the independent parser, too
        try:
            r2 = ET.fromstring(xml2.encode("utf-8"))
        except ET.ParseError as e:
            return ("not-wellformed", f"written document is not well-formed: {e}: {xml2!r}")
        if not entries_eq(spec_entries(r2), exp):
            return ("cycle-etree", f"written document seen by xml.etree {spec_entries(r2)!r}, original {exp!r}")
        return None
    if case["kind"] == "dict":
        d = case["t"]
        try:
            xml = dictIO.XmlFormatter().to_string(copy.deepcopy(d))
        except Exception as e:  # noqa: BLE001
            return ("raises", f"XmlFormatter.to_string raised {type(e).__name__}: {e}")
        try:
            root = ET.fromstring(xml.encode("utf-8"))
        except ET.ParseError as e:
            return ("not-wellformed", f"output is not well-formed XML ({e}): {xml!r}")

        def check(elem, sub, path):
            kids = [c for c in list(elem)]
            i = 0
            for k, v in sub.items():
                if i >= len(kids) or local(kids[i].tag) != k:
                    return f"element for key path {path + [k]} missing or out of order"
                if isinstance(v, dict):
                    r = check(kids[i], v, path + [k])
                    if r:
                        return r
                else:
                    exp_text = " ".join(str(x) for x in v) if isinstance(v, list) else ("" if v is None else str(v))
                    got = kids[i].text or ""
                    if got != exp_text:
                        return f"text at key path {path + [k]} is {got!r}, leaf value {v!r}"
                i += 1
            return None
        r = check(root, d, [])
        if r:
            return ("leaf-text", r + f" in {xml!r}")
        return None
    raise ValueError(case["kind"])


def shrink(case):
    return iter(())


def _reserved_prefix(case, f):
    """a namespace prefix of the form ns<digits>: ElementTree reserves it for the prefixes it generates and refuses to
    register it, so the dict read from such a document cannot be written (recorded finding)"""
    return re.search(r"xmlns:ns\d+=", case.get("xml", "")) is not None


KNOWN_PREDICATES = {"C11-reserved-namespace-prefix": _reserved_prefix}


def name_key(rng):
    return rng.choice(["alpha", "beta", "Gamma", "x1", "node", "item_a", "v.w", "on", "xs"]) + rng.choice(["", "", "2", "_b"])


def xml_leaf(rng):
    m = rng.randrange(7)
    if m == 0:
        return rng.randrange(-99, 99)
    if m == 1:
        return round(rng.uniform(-9, 9), 3)
    if m == 2:
        return rng.choice([True, False])
    if m == 3:
        return rng.choice(["on:off", "xs:thing", "a < b", "x & y", "n:1", "/xs:schema/xs:element", "m/xs:3", "a/None:b", ">xs:y", "\"xs:q"])
    if m == 4:
        return [1, 2.5, "w"]
    return rng.choice(["plain", "two words", "äö 日本", "C:/path/x", "O'Brien", 'say "hi" now', "3\" pipe", "it's {a}; (b)", "'quoted'"])


def enc_elem(e: ET.Element) -> str:
    attrs = list(e.attrib.items())
    kids = list(e)
    a = " ".join([f"l{len(attrs)}"] + [f"{wire.enc_str(k)} {wire.enc_str(v)}" for k, v in attrs])
    t = "none" if e.text is None else "some " + wire.enc_str(e.text)
    k = " ".join([f"l{len(kids)}"] + [enc_elem(c) for c in kids])
    return f"E {wire.enc_str(local(e.tag))} {a} {t} {k}"


def dec_elem(rd: wire.Reader):
    assert rd.next() == "E"
    tag = rd.str()
    attrs = rd.list(lambda: (rd.str(), rd.str()))
    text = rd.opt(rd.str)
    kids = rd.list(lambda: dec_elem(rd))
    return (tag, dict(attrs), text, kids)


def et_shape(e: ET.Element):
    kids = [et_shape(c) for c in e]
    text = e.text
    if kids and (text is None or not text.strip()):
        text = None
    return (local(e.tag), dict(e.attrib), text or None, kids)


def model_shape(t):
    tag, attrs, text, kids = t
    return (tag, attrs, text or None, [model_shape(k) for k in kids])


def model_read(ctx, xmls):
    """XmlParser._parse_nodes: implementation on the text vs model on the element tree xml.etree sees"""
    dictIO = native.dictio()
    mlines, ilines, cases = [], [], []
    for xml in xmls:
        root = ET.fromstring(xml.encode("utf-8"))
        native.set_counter(-1)
        mlines.append(f"xml_parse b1 i-1 {enc_elem(root)}")
        try:
            d = gen.plain(dict(dictIO.XmlParser().parse_string(xml, dictIO.SDict())))
            d.pop("_xmlOpts", None)
            ilines.append(wire.enc_tree(d) + f" i{native.counter_value()}")
        except Exception as e:  # noqa: BLE001
            ilines.append("raise " + type(e).__name__)
        cases.append({"kind": "doc", "xml": xml})
    mout = wire.run_model_sharded(mlines)
    ctx.compare("XmlParser._parse_nodes", cases, mout, ilines)


def model_write(ctx, dicts):
    """populate_into_element: model element tree vs what xml.etree sees in the implementation's output"""
    dictIO = native.dictio()
    mlines = [f"xml_populate {wire.enc_str('NOTSPECIFIED')} {wire.enc_tree(d)}" for d in dicts]
    mout = wire.run_model_sharded(mlines)
    for d, ml in zip(dicts, mout):
        ctx.corr_compared += 1
        try:
            xml = dictIO.XmlFormatter().to_string(copy.deepcopy(d))
            got = et_shape(ET.fromstring(xml.encode("utf-8")))
        except Exception as e:  # noqa: BLE001
            got = ("raise", type(e).__name__)
        m = model_shape(dec_elem(wire.Reader(ml)))
        if m != got:
            if len(ctx.disagreements) < 20:
                ctx.disagree("XmlFormatter.populate_into_element", {"kind": "dict", "t": d}, repr(m)[:800], repr(got)[:800])


def with_extra_ns(rng, xml: str) -> str:
    """further namespace declarations on the root element (declared, not used by any tag): a prefix literally called
    None, a second prefix, a default namespace next to a prefixed one"""
    extra = rng.choice([' xmlns:None="urn:none"', ' xmlns:extra="urn:extra"', ' xmlns:None="urn:none" xmlns:z="urn:z"', ""])
    head, sep, rest = xml.partition("?>\n")
    i = rest.index(">")
    if rest[i - 1] == "/":
        i -= 1
    return head + sep + rest[:i] + extra + rest[i:]


def model_read_doc(ctx, xmls):
    """XmlParser.parse_string, document level (nodes + the `_xmlOpts` entry: namespaces, root tag, root attributes,
    numbering flag): implementation on the text vs `Xml.parse_doc` on the namespace map and element tree the XML
    libraries see"""
    from lxml import etree as LET

    dictIO = native.dictio()
    mlines, ilines, cases = [], [], []
    for xml in xmls:
        root = ET.fromstring(xml.encode("utf-8"))
        nsmap = list(LET.fromstring(xml.encode("utf-8")).nsmap.items())
        nb = ctx.rng.random() < 0.75
        native.set_counter(-1)
        line = f"xml_parse_doc {wire.enc_bool(nb)} i-1 {wire.enc_list([k for k, _ in nsmap], lambda k: wire.enc_opt(k, wire.enc_str))} " \
               f"{wire.enc_list([u for _, u in nsmap], wire.enc_str)} {enc_elem(root)}"
        try:
            d = dict(dictIO.XmlParser(add_node_numbering=nb).parse_string(xml, dictIO.SDict()))
            cnt = native.counter_value()
        except Exception as e:  # noqa: BLE001
            mlines.append(line)
            ilines.append("raise " + type(e).__name__)
        else:
            try:
                enc = wire.enc_tree(gen.plain(d))
            except TypeError:
                continue          # numbering off and a tag that types to a bool / None key: outside the value model (DESIGN, model restrictions)
            mlines.append(line)
            ilines.append(enc + f" i{cnt}")
        cases.append({"kind": "doc-level", "xml": xml, "numbering": nb})
    mout = wire.run_model_sharded(mlines)
    ctx.compare("XmlParser.parse_string (document level)", cases, mout, ilines)


def xml_opts_variants(rng, d: dict) -> dict:
    d = copy.deepcopy(d)
    o = {}
    if rng.random() < 0.7:
        o["_rootTag"] = rng.choice(["Root", "cfg", "a.b", True, "NOTSPECIFIED", "_r"])
    if rng.random() < 0.6:
        ra = {}
        for k in rng.sample(["version", "id", "flag", "empty", "n"], rng.randrange(0, 4)):
            ra[k] = rng.choice(["1.0", "", "True", "x y", 3, 2.5, True, None, "none"])
        o["_rootAttributes"] = ra
    if rng.random() < 0.6:
        o["_nameSpaces"] = rng.choice([{"xs": NS_URI}, {"None": "urn:d"}, {"n": "urn:n", "None": "urn:d"}, {"None": "urn:d", "q": "urn:q"}, {"on": NS_URI}])
    if rng.random() < 0.2:
        o["_removeNodeNumbering"] = True
    if rng.random() < 0.2:
        o["_addNodeNumbering"] = rng.choice([True, False])
    if rng.random() < 0.85:
        d["_xmlOpts"] = o
        if rng.random() < 0.3:
            d = {"_xmlOpts": d.pop("_xmlOpts"), **d}
    if rng.random() < 0.25:
        d["_attributes"] = rng.choice([{"top": "1"}, {"top": ""}, {}, {"a": True, "b": "x"}])
    return d


def model_write_doc(ctx, dicts):
    """XmlFormatter.to_string, document level: the namespace the tags are put in, root tag, root attributes and the
    element tree, `Xml.format_doc` vs what lxml / xml.etree see in the implementation's output"""
    from lxml import etree as LET

    dictIO = native.dictio()
    mlines = [f"xml_format_doc {wire.enc_tree(d)}" for d in dicts]
    mout = wire.run_model_sharded(mlines)
    for d, ml in zip(dicts, mout):
        ctx.corr_compared += 1
        try:
            xml = dictIO.XmlFormatter().to_string(copy.deepcopy(d))
            nsmap = list(LET.fromstring(xml.encode("utf-8")).nsmap.items())
            got = (nsmap, et_shape(ET.fromstring(xml.encode("utf-8"))))
        except Exception as e:  # noqa: BLE001
            got = ("raise", type(e).__name__)
        rd = wire.Reader(ml)
        if rd.next() == "none":
            m = ("outside",)
            if got[0] == "raise":
                continue              # outside the model and the library raises: nothing to compare
        else:
            pfx, uri = rd.str(), rd.str()
            m = ([(None if pfx == "None" else pfx, uri)], model_shape(dec_elem(rd)))
        if m != got and len(ctx.disagreements) < 20:
            ctx.disagree("XmlFormatter.to_string (document level)", {"kind": "dict-doc", "t": d}, repr(m)[:800], repr(got)[:800])


def run(ctx):
    rng = ctx.rng
    xmls, dicts = [], []
    for _ in range(ctx.n(400, 10000)):
        doc = gen_doc(rng)
        xml = render(doc)
        xmls.append(xml)
        c = {"kind": "doc", "xml": xml, "ns": doc["ns"], "prefix": doc["prefix"]}
        r = oracle(c)
        if r:
            ctx.oracle_fail(c, r[0], r[1])
        nt = doc["ns"] != "none" or "\n      " in xml or 'id="' in xml
        ctx.count(("d", xml), nt, "doc:" + doc["ns"], sample={"xml": xml} if nt and len(ctx.samples) < 3 else None)
    # the node numbers come from the global counter: documents read while it passes its wrap-around (ids stay six digits)
    for i in range(ctx.n(12, 120)):
        doc = gen_doc(rng)
        c = {"kind": "doc", "xml": render(doc), "ns": doc["ns"], "prefix": doc["prefix"]}
        native.set_counter(rng.choice([999990, 999996, 999998, 999999]))
        r = oracle(c)
        if r:
            ctx.oracle_fail(c, r[0], r[1])
        ctx.count(("dw", c["xml"]), True, "doc:counter-wrap")
    # a prefix of the form ns<digits> (a legitimate prefix; ElementTree reserves the form for the prefixes it generates)
    for pfx in ("ns0", "ns12"):
        doc = gen_doc(rng)
        doc["ns"], doc["prefix"] = "prefixed", pfx
        c = {"kind": "doc", "xml": render(doc), "ns": "prefixed", "prefix": pfx}
        r = oracle(c)
        if r:
            ctx.oracle_fail(c, r[0], r[1])
        ctx.count(("d", c["xml"]), True, "doc:reserved-prefix")
    for _ in range(ctx.n(400, 10000)):
        t = gen.dom_tree(rng, max_nodes=rng.choice([4, 12]), max_depth=3, int_keys=0.0, list_p=0.0, key=name_key, leaf=xml_leaf)
        dicts.append(t)
        c = {"kind": "dict", "t": t}
        r = oracle(c)
        if r:
            ctx.oracle_fail(c, r[0], r[1])
        ctx.count(("t", wire.enc_tree(t)), gen.tree_depth(t) >= 2, "dict", sample={"dict": t} if len(ctx.samples) < 5 else None)
    model_read(ctx, xmls[: ctx.n(300, 3000)])
    # populate on plain name-keyed dicts and on dicts as the reader produces them (numbered keys, _content, _attributes)
    dictIO = native.dictio()
    parsed = []
    for xml in xmls[: ctx.n(200, 2000)]:
        try:
            d = gen.plain(dict(dictIO.XmlParser().parse_string(xml, dictIO.SDict())))
            d.pop("_xmlOpts", None)
            parsed.append(d)
        except Exception:  # noqa: BLE001
            pass
    model_write(ctx, dicts[: ctx.n(300, 3000)] + parsed)
    model_read_doc(ctx, [with_extra_ns(rng, x) if i % 3 == 0 else x for i, x in enumerate(xmls[: ctx.n(200, 2000)])])
    withopts = []
    for xml in xmls[: ctx.n(150, 1500)]:
        try:
            withopts.append(gen.plain(dict(dictIO.XmlParser().parse_string(xml, dictIO.SDict()))))
        except Exception:  # noqa: BLE001
            pass
    model_write_doc(ctx, withopts + [xml_opts_variants(rng, d) for d in (dicts[: ctx.n(150, 1500)] + parsed[: ctx.n(100, 1000)])])
    # sessions: ONE XmlParser object over several documents (absent / default / prefixed namespace in any order), string
    # route and file route: every result is that of a fresh parser
    for i in range(ctx.n(40, 600)):
        seq = [rng.choice(xmls) for _ in range(rng.randrange(2, 5))]
        ps = dictIO.XmlParser()
        tmpd = native.scratch_dir("c11s_")
        try:
            for j, xml in enumerate(seq):
                try:
                    native.set_counter(-1)
                    fresh = gen.plain(dict(dictIO.XmlParser().parse_string(xml, dictIO.SDict())))
                    native.set_counter(-1)
                    if (i + j) % 3 == 0:
                        f = tmpd / f"d{j}.xml"
                        f.write_text(xml)
                        got = gen.plain(dict(dictIO.DictReader.read(f, parser=ps)))
                        native.set_counter(-1)
                        fresh = gen.plain(dict(dictIO.DictReader.read(f)))
                    else:
                        got = gen.plain(dict(ps.parse_string(xml, dictIO.SDict())))
                except Exception as e:  # noqa: BLE001
                    got, fresh = ("raise", type(e).__name__), None
                if got != fresh:
                    c = {"kind": "doc-session", "xmls": seq[: j + 1], "xml": xml}
                    diff = {k: (got.get(k), fresh.get(k)) for k in set(got) | set(fresh) if got.get(k) != fresh.get(k)} if isinstance(got, dict) and isinstance(fresh, dict) else (got, fresh)
                    ctx.oracle_fail(c, "session", f"document {j} of a session with one XmlParser object reads differently from a fresh parser: {str(diff)[:400]}")
                    break
        finally:
            shutil.rmtree(tmpd, ignore_errors=True)
        ctx.count(("ds", i, tuple(seq)), True, "doc-session")
    for k in ("doc:none", "doc:default", "doc:prefixed", "dict"):
        if ctx.classes[k] == 0:
            raise RuntimeError("generator starved")
