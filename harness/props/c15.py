"""C15  Ordering sorts keys at every dict level and changes nothing else."""
from __future__ import annotations

import copy
import itertools
import os
import re
import shutil
import tempfile
from pathlib import Path

from harness import gen, wire

RULE = (
    "seeded nested dicts with mixed int/str keys (negative ints, keys differing only in case / length / prefix, "
    "non-ASCII), lists with dicts inside; order_keys, SDict.order_keys, read/write/parse with order on and off; "
    "thorough adds every dict with <= 4 keys over a pool of 6 in every insertion order; non-trivial = some dict level "
    "is not already sorted; distinct = distinct input structures"
)
ASSUMPTIONS = ["key order (is-string, key): ints by value, strings by code point (Python str comparison)"]
TRUSTED_BASE = ["Python's sorted() (stable; any correct sort gives the same result on unique keys)"]


def _impl():
    import dictIO

    return dictIO


def ordered_spec(t):
    """independent specification: sort each dict level reachable through dicts; lists untouched"""
    if isinstance(t, dict):
        ks = sorted([k for k in t if not isinstance(k, str)]) + sorted([k for k in t if isinstance(k, str)])
        return {k: (ordered_spec(t[k]) if isinstance(t[k], dict) else copy.deepcopy(t[k])) for k in ks}
    return copy.deepcopy(t)


def assoc_eq(a, b) -> bool:
    """same key -> value association at every dict level (order ignored), lists compared with order"""
    if isinstance(a, dict) and isinstance(b, dict):
        if set(map(repr, a)) != set(map(repr, b)):
            return False
        return all(assoc_eq(a[k], b[k]) for k in a)
    return gen.typed_eq(a, b)


def is_sorted_deep(t) -> bool:
    if isinstance(t, dict):
        ks = list(t)
        exp = sorted([k for k in ks if not isinstance(k, str)]) + sorted([k for k in ks if isinstance(k, str)])
        return ks == exp and all(is_sorted_deep(v) for v in t.values() if isinstance(v, dict))
    return True


def oracle(case: dict):
    dictIO = _impl()
    t = case["t"]
    kind = case["kind"]
    if kind == "order":
        work = copy.deepcopy(t)
        try:
            r = dictIO.order_keys(work)
        except Exception as e:  # noqa: BLE001
            return ("order-raises", f"order_keys raised {type(e).__name__}: {e}")
        if r is not work:
            return ("order-identity", "order_keys did not return the instance it was given")
        if not assoc_eq(work, t):
            return ("order-assoc", f"order_keys changed the association: {work!r} from {t!r}")
        if not is_sorted_deep(work):
            return ("order-unsorted", f"not sorted at some dict level: {work!r}")
        if not gen.typed_eq(work, ordered_spec(t)):
            return ("order-spec", f"order_keys gives {work!r}, specification {ordered_spec(t)!r}")
        again = dictIO.order_keys(copy.deepcopy(work))
        if not gen.typed_eq(again, work):
            return ("order-idem", "order_keys is not idempotent")
        s = dictIO.SDict(copy.deepcopy(t))
        s.order_keys()
        if not gen.typed_eq(gen.plain(dict(s)), ordered_spec(t)):
            return ("order-sdict", f"SDict.order_keys gives {dict(s)!r}, specification {ordered_spec(t)!r}")
        return None
    if kind == "file":
        ext = case["ext"]
        d = Path(tempfile.mkdtemp(prefix="c15_", dir=os.environ.get("VERIF_SCRATCH", "/var/tmp")))
        try:
            fu, fo = d / f"u{ext}", d / f"o{ext}"
            try:
                dictIO.DictWriter.write(copy.deepcopy(t), fu, mode="w")
                dictIO.DictWriter.write(copy.deepcopy(t), fo, mode="w", order=True)
                ru = gen.plain(dict(dictIO.DictReader.read(fu)))
                ro = gen.plain(dict(dictIO.DictReader.read(fo)))
                ruo = gen.plain(dict(dictIO.DictReader.read(fu, order=True)))
            except Exception as e:  # noqa: BLE001
                return ("file-raises", f"write/read with order raised {type(e).__name__}: {e}")
            strip = lambda x: {k: v for k, v in x.items() if not (isinstance(k, str) and "COMMENT" in k)}  # noqa: E731
            ru, ro, ruo = strip(ru), strip(ro), strip(ruo)
            if not assoc_eq(ro, ru):
                return ("file-assoc", f"ordered file reads back to {ro!r}, unordered file to {ru!r}")
            if not gen.typed_eq(ruo, ordered_spec(ru)):
                return ("file-read-order", f"read(order=True) = {ruo!r}, expected {ordered_spec(ru)!r}")
            if not gen.typed_eq(ro, ordered_spec(ru)):
                return ("file-write-order", f"file written with order=True reads as {ro!r}, expected {ordered_spec(ru)!r}")
            return None
        finally:
            shutil.rmtree(d, ignore_errors=True)
    if kind == "commented":
        # a commented source (comments at the top level, in nested dicts and in dicts that are list items): ordering
        # changes the order of keys and nothing else - the comment / include tables keep their entries, every placeholder
        # entry keeps its table row, the ordered file still spells every comment and reads back to the same data
        d = Path(tempfile.mkdtemp(prefix="c15c_", dir=os.environ.get("VERIF_SCRATCH", "/var/tmp")))

        def phs(x, acc):
            if isinstance(x, dict):
                for k, v in x.items():
                    if isinstance(k, str) and re.fullmatch(r"(LINE|BLOCK)COMMENT\d{6}", k):
                        acc.append(k)
                    phs(v, acc)
            elif isinstance(x, list):
                for v in x:
                    phs(v, acc)
            return acc

        def deep_strip(x):
            if isinstance(x, dict):
                return {k: deep_strip(v) for k, v in x.items() if not (isinstance(k, str) and re.fullmatch(r"(LINE|BLOCK)COMMENT\d{6}", k))}
            if isinstance(x, list):
                return [deep_strip(v) for v in x]
            return x

        try:
            f, fo = d / "src", d / "ordered"
            f.write_text(case["text"])
            try:
                s0 = dictIO.DictReader.read(f)
                texts0 = sorted(list(s0.line_comments.values()) + list(s0.block_comments.values()))
                s1 = dictIO.DictReader.read(f)
                s1.order_keys()
                so = dictIO.DictReader.read(f, order=True)
                dictIO.DictWriter.write(dictIO.DictReader.read(f), fo, mode="w", order=True)
                back = dictIO.DictReader.read(fo)
            except Exception as e:  # noqa: BLE001
                return ("file-raises", f"ordering a commented file raised {type(e).__name__}: {e}")
            for name, sx in (("order_keys()", s1), ("read(order=True)", so)):
                tx = sorted(list(sx.line_comments.values()) + list(sx.block_comments.values()))
                if tx != texts0:
                    return ("order-tables", f"{name} on a commented dict: comment tables hold {tx!r}, before ordering {texts0!r}")
                for k in phs(gen.plain(dict(sx)), []):
                    tab = sx.line_comments if k.startswith("LINE") else sx.block_comments
                    if int(k[-6:]) not in tab:
                        return ("order-tables", f"{name}: the placeholder entry {k} has lost its row in the comment table")
                if not assoc_eq(deep_strip(gen.plain(dict(sx))), deep_strip(gen.plain(dict(s0)))):
                    return ("order-assoc", f"{name} on a commented dict changed the association")
                # placeholder entries are keys like any other string key: the whole key sequence is in order
                if not is_sorted_deep(gen.plain(dict(sx))):
                    return ("order-unsorted", f"{name} on a commented dict: top-level keys {list(gen.plain(dict(sx)))!r} are not in ascending order (ints first, then strings)")
            out = fo.read_text()
            for c in case["comments"]:
                if c not in out:
                    return ("file-assoc", f"the file written with order=True no longer spells the comment {c!r}")
            if not assoc_eq(deep_strip(gen.plain(dict(back))), deep_strip(gen.plain(dict(s0)))):
                return ("file-assoc", f"the ordered commented file reads back to {deep_strip(gen.plain(dict(back)))!r}, the source to {deep_strip(gen.plain(dict(s0)))!r}")
            return None
        finally:
            shutil.rmtree(d, ignore_errors=True)
    if kind == "order-expr":
        # the order option changes the order of keys and nothing else: evaluated references and expressions have the values
        # of the unordered read (also when a name is declared on more than one level)
        d = Path(tempfile.mkdtemp(prefix="c15e_", dir=os.environ.get("VERIF_SCRATCH", "/var/tmp")))
        try:
            f = d / "src"
            f.write_text(case["text"])
            try:
                ru = gen.plain(dict(dictIO.DictReader.read(f, comments=False)))
                ro = gen.plain(dict(dictIO.DictReader.read(f, comments=False, order=True)))
                rp = gen.plain(dict(dictIO.DictParser.parse(f, order=True, comments=False)))
            except Exception as e:  # noqa: BLE001
                return ("file-raises", f"read / parse with order=True raised {type(e).__name__}: {e}")
            for name, r in (("read(order=True)", ro), ("parse(order=True)", rp)):
                if not assoc_eq(r, ru):
                    return ("order-assoc", f"{name} = {r!r}, the unordered read {ru!r}: the association differs")
                if not is_sorted_deep(r):
                    return ("order-unsorted", f"{name} = {r!r} is not in order")
            return None
        finally:
            shutil.rmtree(d, ignore_errors=True)
    if kind == "parse-order":
        # the order option of parse: the dict parse() RETURNS is ordered at every level (and the file it wrote reads back to
        # the same association), with a fresh target and onto an existing one, in both modes
        d = Path(tempfile.mkdtemp(prefix="c15p_", dir=os.environ.get("VERIF_SCRATCH", "/var/tmp")))
        try:
            src = d / "src"
            dictIO.DictWriter.write(copy.deepcopy(t), src, mode="w")
            plain = gen.plain(dict(dictIO.DictReader.read(src, comments=False)))
            if case["existing"]:
                dictIO.DictWriter.write(copy.deepcopy(case["t2"]), d / "parsed.src", mode="w")
            try:
                r = dictIO.DictParser.parse(src, order=True, mode=case["mode"], comments=False)
            except Exception as e:  # noqa: BLE001
                return ("file-raises", f"parse(order=True, mode={case['mode']!r}) raised {type(e).__name__}: {e}")
            got = gen.plain(dict(r))
            strip = lambda x: {k: v for k, v in x.items() if not (isinstance(k, str) and "COMMENT" in k)}  # noqa: E731
            got = strip(got)
            if not is_sorted_deep(got):
                return ("parse-order", f"parse(order=True, mode={case['mode']!r}, existing target: {case['existing']}) returned {got!r}: not in ascending order at some level")
            if not (case["existing"] and case["mode"] == "a") and not assoc_eq(got, strip(plain)):
                return ("order-assoc", f"parse(order=True) returned {got!r}, the source reads {strip(plain)!r}")
            return None
        finally:
            shutil.rmtree(d, ignore_errors=True)
    if kind == "reorder":
        # one SDict instance: order, add keys below the top level (no top-level write), order again
        s = dictIO.SDict(copy.deepcopy(t))
        try:
            s.order_keys()
            model = copy.deepcopy(gen.plain(dict(s)))
            for path, k, v in case["adds"]:
                tgt_i, tgt_m = s, model
                for p in path:
                    tgt_i, tgt_m = tgt_i[p], tgt_m[p]
                if k in tgt_m:
                    continue            # additions only: an existing entry (possibly a dict on another path) stays
                tgt_i[k] = copy.deepcopy(v)
                tgt_m[k] = copy.deepcopy(v)
            s.order_keys()
        except Exception as e:  # noqa: BLE001
            return ("order-raises", f"order / nested additions / order raised {type(e).__name__}: {e}")
        got = gen.plain(dict(s))
        if not gen.typed_eq(got, ordered_spec(model)):
            return ("reorder", f"after ordering, adding {case['adds']!r} and ordering again: {got!r}, expected {ordered_spec(model)!r}")
        return None
    if kind == "append-order":
        d = Path(tempfile.mkdtemp(prefix="c15a_", dir=os.environ.get("VERIF_SCRATCH", "/var/tmp")))
        try:
            f = d / ("t" + case["ext"])
            try:
                dictIO.DictWriter.write(copy.deepcopy(t), f, mode="w")
                dictIO.DictWriter.write(copy.deepcopy(case["t2"]), f, mode="a", order=True)
                got = gen.plain(dict(dictIO.DictReader.read(f)))
                plain = gen.plain(dict(dictIO.DictReader.read(f, order=False)))
            except Exception as e:  # noqa: BLE001
                return ("file-raises", f"append with order=True raised {type(e).__name__}: {e}")
            strip = lambda x: {k: v for k, v in x.items() if not (isinstance(k, str) and "COMMENT" in k)}  # noqa: E731
            got = strip(got)
            if case["ext"] == ".foam":
                got.pop("FoamFile", None)       # the Foam writer puts its own FoamFile block first, by design
            if not is_sorted_deep(got):
                return ("append-order", f"file appended to with order=True reads as {got!r}: not in ascending order at some level")
            return None
        finally:
            shutil.rmtree(d, ignore_errors=True)
    raise ValueError(kind)


def shrink(case):
    if case["kind"] in ("reorder", "append-order"):
        return
    for t2 in gen.shrink_tree(case["t"]):
        c = dict(case)
        c["t"] = t2
        yield c


KNOWN_PREDICATES = {}


def tricky_key(rng):
    r = rng.random()
    if r < 0.3:
        return rng.choice([-10, -2, -1, 0, 1, 2, 3, 10, 11, 100, 2**40, -(2**40)])
    base = rng.choice(["a", "A", "ab", "aB", "Ab", "b", "B", "a1", "a10", "a2", "_a", "Z", "z", "aa", "ä", "Ω", "a.b", "a-b"])
    return base if r < 0.8 else gen.plain_key(rng)


def run(ctx):
    rng = ctx.rng
    dictIO = _impl()
    trees = []
    for _ in range(ctx.n(1200, 30000)):
        t = gen.dom_tree(rng, max_nodes=rng.choice([5, 20, 60]), max_depth=rng.choice([1, 3, 5]), int_keys=0.0,
                         key=tricky_key, leaf=lambda r: gen.dom_scalar(r))
        trees.append(t)
        if len(trees) % 6 == 0:
            # twins: distinct sub-dicts with equal content in the same (unsorted) key sequence, as siblings and on
            # different levels (equal blocks are common in real dict files: pumpA { .. } pumpB { .. })
            subs = [(k, v) for k, v in t.items() if isinstance(v, dict) and len(v) >= 2]
            blk = copy.deepcopy(subs[0][1]) if subs else {"rpm": 1500, "flow": 2.5, 3: "x", "housing": {"width": 1, "depth": 2}}
            tw = dict(t)
            tw["twinB_" + str(len(trees))] = copy.deepcopy(blk)
            tw["AtwinA"] = copy.deepcopy(blk)
            tw["holder"] = {"zz": 1, "inner": copy.deepcopy(blk), "aa": [copy.deepcopy(blk)]}
            trees.append(tw)
    for depth in range(9, 20):
        # deep nesting (beyond any recursion guard one might think of): unsorted keys at every level
        t = {"z": depth, 7: 0, "a": 1, 3: [{"q": 1, "b": 2}]}
        for lv in range(depth):
            t = {"z": lv, 7: 0, "sub": t, "a": 1, 3: 2}
        trees.append(t)
    if ctx.tier == "thorough":
        pool = [2, -1, 10, "a", "B", "ab"]
        for n in range(0, 5):
            for ks in itertools.permutations(pool, n):
                trees.append({k: ({"z": 1, 3: 2, "a": [{"b": 1, "a": 2}]} if i == 0 else i) for i, k in enumerate(ks)})
        ctx.extra["exhaustive_part"] = "every dict with <= 4 keys over a pool of 6 in every insertion order"
    cases = [{"kind": "order", "t": t} for t in trees]
    mout = wire.run_model_sharded(["order_tree " + wire.enc_tree(t) for t in trees])
    iout = []
    for t in trees:
        try:
            iout.append(wire.enc_tree(dictIO.order_keys(copy.deepcopy(t))))
        except Exception as e:  # noqa: BLE001
            iout.append("raise " + type(e).__name__)
    ctx.compare("order_keys", cases, mout, iout)
    for c in cases:
        r = oracle(c)
        if r:
            ctx.oracle_fail(c, r[0], r[1])
        ctx.count(("o", wire.enc_tree(c["t"])), not is_sorted_deep(c["t"]), "order",
                  sample={"order_keys": c["t"]} if not is_sorted_deep(c["t"]) else None)
    # files (native with mixed keys, JSON and Foam with string keys)
    nfile = ctx.n(120, 2500)
    for i in range(nfile):
        ext = ["", ".json", ".foam", ""][i % 4]
        t = gen.dom_tree(rng, max_nodes=rng.choice([5, 20]), max_depth=3, int_keys=0.0,
                         key=(tricky_key if ext == "" else (lambda r: gen.plain_key(r))),
                         leaf=lambda r: gen.dom_scalar(r) if ext != ".foam" else _foam_leaf(r))
        if ext in (".json", ".foam"):
            t = _str_keys_only(t)
        if not t:
            continue
        c = {"kind": "file", "t": t, "ext": ext}
        r = oracle(c)
        if r:
            ctx.oracle_fail(c, r[0], r[1])
        ctx.count(("f", ext, wire.enc_tree(t)), not is_sorted_deep(t), "file" + (ext or ".native"))
    # expressions under the order option, names declared on two levels
    for i, text in enumerate(['tolerance  0.125;\nlimit  "$tolerance * 8";\nsolver { tolerance 0.5; steps 10; }\n',
                              'n  4;\ncells  "$n * 100";\nzmesh { n 2; post { n 3; m "$n + 2"; } }\nalpha $n;\n',
                              'b { k 7; }\na { k 1; }\nz  "$k * 2";\n', 'zz 1;\nm { zz 2; }\naa { zz 3; }\nr $zz;\nq "$zz + 0";\n']):
        c = {"kind": "order-expr", "t": {}, "text": text}
        r = oracle(c)
        if r:
            ctx.oracle_fail(c, r[0], r[1])
        ctx.count(("oe", i), True, "order-expr")
    # the order option of parse (returned dict), fresh and existing target, both modes
    for i in range(ctx.n(40, 600)):
        t = gen.dom_tree(rng, max_nodes=rng.choice([6, 15]), max_depth=3, int_keys=0.0, key=tricky_key, leaf=lambda r: gen.dom_scalar(r))
        t2 = gen.dom_tree(rng, max_nodes=5, max_depth=2, int_keys=0.0, key=tricky_key, leaf=lambda r: gen.dom_scalar(r))
        if not t:
            continue
        c = {"kind": "parse-order", "t": t, "t2": t2, "mode": rng.choice(["a", "w"]), "existing": rng.random() < 0.6}
        r = oracle(c)
        if r:
            ctx.oracle_fail(c, r[0], r[1])
        ctx.count(("po", wire.enc_tree(t), c["mode"], c["existing"]), not is_sorted_deep(t), "parse-order")
    # commented sources: comments at the top level, in nested dicts and in dicts that are list items
    for i in range(ctx.n(40, 400)):
        ks = rng.sample(["zeta", "alpha", "mid", "b2", "Beta", "k9"], 4)
        cm = [f"// note {i} {j}" for j in range(4)] + [f"/* block {i} */"]
        ik = rng.sample(["n", "m", "k", "a"], 3)
        text = (f"/* top block {i} */\n{rng.choice([7, 12])} seven;\nAlpha {i};\n"
                f"{cm[0]}\n{ks[0]} {{ {cm[1]}\n  {ik[0]} 2; {ik[1]} 1; }}\n"
                f"{ks[1]} ( {{ {cm[2]}\n  {ik[2]} 2; {ik[0]} 1; }} {{ {cm[4]} {ik[1]} 1; }} 3 );\n"
                f"{ks[2]} 7;\n{ks[3]} {{ sub {{ {cm[3]}\n {ik[1]} 1; {ik[0]} 0; }} }}\n")
        c = {"kind": "commented", "t": {}, "text": text, "comments": [*cm, f"/* top block {i} */"]}
        r = oracle(c)
        if r:
            ctx.oracle_fail(c, r[0], r[1])
        ctx.count(("c", text), True, "commented", sample={"text": text} if i == 0 else None)
    # histories on one instance: order, nested additions, order again; append with order=True onto an existing file
    for i in range(ctx.n(150, 3000)):
        t = gen.dom_tree(rng, max_nodes=rng.choice([8, 20]), max_depth=3, int_keys=0.0, key=tricky_key, leaf=lambda r: gen.dom_scalar(r))
        paths = []

        def walk(x, path):
            if isinstance(x, dict):
                if path:
                    paths.append(list(path))
                for k, v in x.items():
                    walk(v, path + [k])
        walk(t, [])
        if not paths:
            continue
        adds = []
        for _ in range(rng.randrange(1, 4)):
            pth = rng.choice(paths)
            adds.append((pth, tricky_key(rng), rng.choice([gen.dom_scalar(rng), {tricky_key(rng): 1, tricky_key(rng): 2}])))
        c = {"kind": "reorder", "t": t, "adds": adds}
        r = oracle(c)
        if r:
            ctx.oracle_fail(c, r[0], r[1])
        ctx.count(("r", wire.enc_tree(t), repr(adds)), True, "reorder")
    for i in range(ctx.n(60, 1200)):
        ext = ["", ".json", ".foam"][i % 3]
        mk = lambda: _str_keys_only(gen.dom_tree(rng, max_nodes=12, max_depth=3, int_keys=0.0, key=lambda r: r.choice(["zeta", "alpha", "mid", "Beta", "sub", "k9", "k10"]),  # noqa: E731
                                               leaf=lambda r: gen.dom_scalar(r) if ext != ".foam" else _foam_leaf(r)))
        t, t2 = mk(), mk()
        if not t or not t2:
            continue
        c = {"kind": "append-order", "t": t, "t2": t2, "ext": ext}
        r = oracle(c)
        if r:
            ctx.oracle_fail(c, r[0], r[1])
        ctx.count(("a", ext, wire.enc_tree(t), wire.enc_tree(t2)), True, "append-order")
    if ctx.classes["order"] == 0 or ctx.classes["file.native"] == 0:
        raise RuntimeError("generator starved")


def _foam_leaf(rng):
    while True:
        v = gen.dom_scalar(rng)
        if not (isinstance(v, str) and ('"' in v or "'" in v)):
            return v


def _str_keys_only(t):
    if isinstance(t, dict):
        return {k: _str_keys_only(v) for k, v in t.items() if isinstance(k, str) and not k.startswith("_")}
    if isinstance(t, list):
        return [_str_keys_only(v) for v in t]
    return t
