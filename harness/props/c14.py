"""C14  Key paths address one place: lookup, assignment and scope reduction agree."""
from __future__ import annotations

import copy
import json
import os
import re
import shutil
import tempfile
from pathlib import Path

from harness import gen, native, wire

RULE = (
    "seeded nested dict/list structures (depth <= 10, int and str keys, adversarial keys containing quotes / brackets / "
    "Python source) x every path into each structure (exhaustive per structure) + adversarial / non-existent paths; "
    "operations set_global_key, find_global_key, global_key_exists, SDict.reduce_scope, DictReader.read(scope=); "
    "non-trivial = path of length >= 2, or through a list, or an adversarial / int key, or a non-existent path; "
    "distinct = distinct (operation, structure, path, value) tuples"
)
ASSUMPTIONS = [
    "queries of find_global_key are restricted to [A-Za-z0-9_]+ (the API treats the query as a regular expression)",
    "existence test and scope reduction are about paths of dict keys (the CLI scope is a list of keys); list indices are not scope elements",
    "object aliasing is not represented in the model (arguments are deep-copied by the harness)",
]
TRUSTED_BASE = []
ERRNAME = {"KeyError": 4, "IndexError": 3, "RecursionError": 5, "TypeError": 2}


def _impl():
    import dictIO
    from dictIO.utils.dict import find_global_key, global_key_exists, set_global_key

    return dictIO, find_global_key, set_global_key, global_key_exists


def enc_path(p) -> str:
    return wire.enc_list(list(p), wire.enc_key)


def res_of(fn):
    try:
        return ("ok", fn())
    except (KeyError, IndexError, RecursionError, TypeError, SyntaxError, NameError, AttributeError, ValueError) as e:
        return ("raise", type(e).__name__)


# ---- independent interpreters (oracle side) ----------------------------------------------------
def dict_walk(t, path):
    """walk through dicts only; returns the dict reached or None"""
    for k in path:
        if not isinstance(t, dict) or isinstance(k, (dict, list)) or k not in t:
            return None
        t = t[k]
    return t if isinstance(t, dict) else None


def leaves(t, prefix=()):
    if isinstance(t, dict):
        for k, v in t.items():
            yield from leaves(v, prefix + (k,))
    elif isinstance(t, list):
        for i, v in enumerate(t):
            yield from leaves(v, prefix + (i,))
    else:
        yield prefix, t


def read_scope_oracle(case: dict):
    """scope as a READ OPTION on a file with references, expressions and includes: read(f, scope=p) must be precisely
    the content of the sub-dict at p of read(f) (references to keys outside the scope included)"""
    import shutil

    dictIO = native.dictio()
    tmp = native.scratch_dir("c14r_")
    try:
        for rel, text in case["files"].items():
            q = tmp / rel
            q.parent.mkdir(parents=True, exist_ok=True)
            q.write_text(text)
        try:
            full = gen.plain(dict(dictIO.DictReader.read(tmp / "root")))
        except Exception:  # noqa: BLE001
            return None                     # reading the document itself is C05's business
        sub = full
        for k in case["p"]:
            if not isinstance(sub, dict) or k not in sub:
                return None
            sub = sub[k]
        if not isinstance(sub, dict):
            return None
        try:
            scoped = gen.plain(dict(dictIO.DictReader.read(tmp / "root", scope=list(case["p"]))))
        except SystemExit:
            return ("read-scope", f"read(scope={case['p']}) exited although the path leads to a dict")
        except Exception as e:  # noqa: BLE001
            return ("read-scope", f"read(scope={case['p']}) raised {type(e).__name__}: {e}")
        a, b = native.canon_ids(native.strip_placeholders(scoped)), native.canon_ids(native.strip_placeholders(sub))
        if not gen.typed_eq(a, b):
            return ("read-scope", f"read(scope={case['p']}) = {a!r}, the sub-dict of the full read is {b!r}")
        return None
    finally:
        shutil.rmtree(tmp, ignore_errors=True)


def oracle(case: dict):
    if case["kind"] == "read-scope":
        return read_scope_oracle(case)
    dictIO, find_global_key, set_global_key, global_key_exists = _impl()
    kind = case["kind"]
    t = case["t"]
    if kind == "set":
        p, v = list(case["p"]), case["v"]
        work = copy.deepcopy(t)
        expected = copy.deepcopy(t)
        try:
            parent = gen.walk(expected, p[:-1])
            if isinstance(parent, list):
                if not isinstance(p[-1], int):
                    raise KeyError
                parent[p[-1]] = copy.deepcopy(v)
            elif isinstance(parent, dict):
                if p[-1] not in parent:
                    raise KeyError  # only paths INTO the structure are in the property's domain
                parent[p[-1]] = copy.deepcopy(v)
            else:
                raise KeyError
        except (KeyError, IndexError, TypeError):
            return None  # not a path into the structure: outside the quantifier for assignment
        if len(p) > 10:
            return None
        try:
            set_global_key(work, p, copy.deepcopy(v))
        except Exception as e:  # noqa: BLE001
            return ("set-raises", f"set_global_key(path={p}) raised {type(e).__name__}: {e}")
        if not gen.typed_eq(work, expected):
            return ("set-wrong", f"after set_global_key(path={p}, value={v!r}) structure is {work!r}, expected {expected!r}")
        return None
    if kind == "find":
        q = case["q"]
        work = copy.deepcopy(t)
        try:
            r = find_global_key(work, q)
        except Exception as e:  # noqa: BLE001
            return ("find-raises", f"find_global_key(query={q!r}) raised {type(e).__name__}: {e}")
        if not gen.typed_eq(work, t):
            return ("find-mutates", "find_global_key modified its argument")
        matching = [p for p, leaf in leaves(t) if re.search(q, str(leaf))]
        if r is None:
            if matching:
                return ("find-incomplete", f"find_global_key(query={q!r}) = None but leaf at {matching[0]} matches")
            return None
        try:
            leaf = gen.walk(t, r)
        except Exception as e:  # noqa: BLE001
            return ("find-unsound", f"find_global_key(query={q!r}) = {r} does not lead into the structure ({type(e).__name__})")
        if isinstance(leaf, (dict, list)) or not re.search(q, str(leaf)):
            return ("find-unsound", f"find_global_key(query={q!r}) = {r} leads to {leaf!r} which does not match")
        return None
    if kind == "exists":
        p = list(case["p"])
        try:
            r = global_key_exists(copy.deepcopy(t), p)
        except Exception as e:  # noqa: BLE001
            return ("exists-raises", f"global_key_exists({p}) raised {type(e).__name__}: {e}")
        exp = dict_walk(t, p) is not None
        if r != exp:
            return ("exists-wrong", f"global_key_exists({p}) = {r}, but the path {'leads' if exp else 'does not lead'} to a dict")
        return None
    if kind == "scope":
        p = list(case["p"])
        s = dictIO.SDict(copy.deepcopy(t))
        sub = dict_walk(t, p) if p else None
        exp = copy.deepcopy(sub) if sub is not None else copy.deepcopy(t)
        try:
            s.reduce_scope(p)
        except Exception as e:  # noqa: BLE001
            return ("scope-raises", f"reduce_scope({p}) raised {type(e).__name__}: {e}")
        if not gen.typed_eq(dict(s), exp):
            return ("scope-wrong", f"reduce_scope({p}) left {dict(s)!r}, expected {exp!r}")
        return None
    if kind == "readscope":
        p = list(case["p"])
        d = Path(tempfile.mkdtemp(prefix="c14_", dir=os.environ.get("VERIF_SCRATCH", "/var/tmp")))
        try:
            f = d / "src.json"
            f.write_text(json.dumps(t))
            sub = dict_walk(t, p)
            try:
                r = dictIO.DictReader.read(f, scope=p)
            except SystemExit:
                return None if sub is None else ("readscope-exit", f"read(scope={p}) exited although the scope exists")
            except Exception as e:  # noqa: BLE001
                return ("readscope-raises", f"read(scope={p}) raised {type(e).__name__}: {e}")
            if sub is None:
                return ("readscope-wrong", f"read(scope={p}) returned data although the scope does not exist")
            if not gen.typed_eq(gen.plain(dict(r)), sub):
                return ("readscope-wrong", f"read(scope={p}) = {dict(r)!r}, expected {sub!r}")
            return None
        finally:
            shutil.rmtree(d, ignore_errors=True)
    raise ValueError(kind)


def shrink(case: dict):
    if case["kind"] == "read-scope":
        return
    for t2 in gen.shrink_tree(case["t"]):
        c = dict(case)
        c["t"] = t2
        yield c
    if case["kind"] in ("set", "exists", "scope", "readscope") and len(case["p"]) > 1:
        c = dict(case)
        c["p"] = list(case["p"])[:-1]
        yield c


KNOWN_PREDICATES = {}


def model_line(case) -> str:
    k = case["kind"]
    if k == "set":
        return f"set_global_key {wire.enc_tree(case['t'])} {enc_path(case['p'])} {wire.enc_tree(case['v'])}"
    if k == "find":
        return f"find_global_key {wire.enc_str(case['q'])} {wire.enc_tree(case['t'])}"
    if k == "exists":
        return f"key_exists {wire.enc_tree(case['t'])} {enc_path(case['p'])}"
    if k == "scope":
        return f"reduce_scope {wire.enc_tree(case['t'])} {enc_path(case['p'])}"
    raise ValueError(k)


def impl_line(case) -> str:
    """implementation result in the model's output syntax"""
    dictIO, find_global_key, set_global_key, global_key_exists = _impl()
    k = case["kind"]
    t = copy.deepcopy(case["t"])
    try:
        if k == "set":
            set_global_key(t, list(case["p"]), copy.deepcopy(case["v"]))
            return "ok " + wire.enc_tree(t)
        if k == "find":
            r = find_global_key(t, case["q"])
            return "none" if r is None else "some " + enc_path(r)
        if k == "exists":
            return wire.enc_bool(global_key_exists(t, list(case["p"])))
        if k == "scope":
            s = dictIO.SDict(t)
            s.reduce_scope(list(case["p"]))
            return wire.enc_tree(gen.plain(dict(s)))
    except (KeyError, IndexError, RecursionError, TypeError) as e:
        return f"raise {ERRNAME[type(e).__name__]}"
    except Exception as e:  # noqa: BLE001
        return f"raise-other {type(e).__name__}"
    raise ValueError(k)


def mixed_key(rng):
    r = rng.random()
    if r < 0.25:
        return gen.int_key(rng)
    if r < 0.45:
        return gen.adversarial_key(rng)
    if r < 0.62:
        # key text that spells a placeholder (no table knows the id): data like any other key, several per level
        return rng.choice(["LINECOMMENT000001", "LINECOMMENT000002", "LINECOMMENT000003", "BLOCKCOMMENT000001", "BLOCKCOMMENT000002",
                           "INCLUDE000004", "INCLUDE000005", "xLINECOMMENT000006y", "EXPRESSION000001", "STRINGLITERAL000002"])
    return gen.plain_key(rng)


def leaf(rng):
    return gen.dom_scalar(rng)


def read_scope_cases(ctx, rng):
    from harness.props import c05

    for i in range(ctx.n(80, 1500)):
        nodes, feats = c05.gen_graph(rng, ints=True)
        if "ZERODIV" in c05.expected_values(nodes)[0].values() or not c05.lexable(nodes):
            continue
        placement = [rng.choice(["root", "nested", "nested", "inlist", "inc-native", "inc-json"]) for _ in nodes]
        c0 = c05.mk_case(rng, nodes, placement=placement)
        for p in (["nest"], ["nest", "inner"]):
            c = {"kind": "read-scope", "files": c0["files"], "p": p}
            r = oracle(c)
            if r:
                ctx.oracle_fail(c, r[0], r[1])
            ctx.count(("rs", repr(c0["files"]), tuple(p)), "nested" in placement, "read-scope")


def run(ctx):
    rng = ctx.rng
    read_scope_cases(ctx, rng)
    cases = []
    regex_cases = []
    n_struct = ctx.n(250, 4000)
    for si in range(n_struct):
        shape = rng.randrange(6)
        if shape == 0:
            d = rng.randrange(6, 11)
            t = gen.deep_chain(rng, d, leaf(rng))
            if not isinstance(t, dict):
                t = {gen.plain_key(rng): t}
            if gen.tree_depth(t) > 10:
                t = t[next(iter(t))] if isinstance(t[next(iter(t))], dict) else t
        else:
            t = gen.dom_tree(rng, max_nodes=rng.choice([6, 15, 30]), max_depth=rng.choice([2, 4, 6]),
                             int_keys=0.2, leaf=leaf, key=mixed_key if shape >= 3 else None)
        if si % 8 == 7:
            # several keys of ONE placeholder kind on one dict level (ids no table knows): key text is data
            kind = rng.choice(["LINECOMMENT", "BLOCKCOMMENT", "INCLUDE"])
            inner = {f"{kind}{j:06d}": leaf(rng) for j in rng.sample(range(1, 9), rng.randrange(2, 4))}
            inner[gen.plain_key(rng)] = leaf(rng)
            inner = dict(rng.sample(list(inner.items()), len(inner)))
            holder = rng.choice([t] + [sub for _, sub in gen.all_paths(t) if isinstance(sub, dict)])
            holder[gen.plain_key(rng) + "_ph"] = inner
            if rng.random() < 0.5:
                holder.update({k: v for k, v in list(inner.items())[:2]})
        if gen.tree_depth(t) > 10:
            continue
        paths = list(gen.all_paths(t))
        rng.shuffle(paths)
        for p, sub in paths[:40]:
            v = rng.choice([leaf(rng), {"n": 1}, [1, "x"], {}, []])
            cases.append({"kind": "set", "t": t, "p": list(p), "v": v})
            cases.append({"kind": "exists", "t": t, "p": list(p)})
            if all(not isinstance(x, int) or True for x in p):
                cases.append({"kind": "scope", "t": t, "p": list(p)})
        # adversarial / non-existent paths
        for _ in range(6):
            if paths and rng.random() < 0.7:
                p = list(rng.choice(paths)[0])
                m = rng.randrange(4)
                if m == 0:
                    p[-1] = gen.adversarial_key(rng)
                elif m == 1:
                    p.append(rng.choice([gen.adversarial_key(rng), 0, -1, "x"]))
                elif m == 2 and isinstance(p[-1], int):
                    p[-1] = str(p[-1])
                else:
                    p[rng.randrange(len(p))] = rng.choice([gen.adversarial_key(rng), 99, "nope"])
            else:
                p = [rng.choice([gen.adversarial_key(rng), "nope", 5]) for _ in range(rng.randrange(1, 4))]
            cases.append({"kind": "exists", "t": t, "p": p})
            cases.append({"kind": "scope", "t": t, "p": p})
            cases.append({"kind": "set", "t": t, "p": p, "v": 1})
        # queries
        lv = [str(x) for _, x in leaves(t)]
        qs = set()
        for s in rng.sample(lv, min(4, len(lv))):
            ws = re.findall(r"[A-Za-z0-9_]+", s)
            if ws:
                w = rng.choice(ws)
                a = rng.randrange(len(w))
                qs.add(w[a: a + rng.randrange(1, 5)])
        qs.add(rng.choice(["zz", "0", "e", "True", "None", "_", "1"]))
        for q in qs:
            cases.append({"kind": "find", "t": t, "q": q})
        # the query is a regular expression: anchored queries and escaped literals (oracle only; the model covers
        # plain word queries)
        for x in rng.sample(lv, min(3, len(lv))):
            if x:
                regex_cases.append({"kind": "find", "t": t, "q": "^" + re.escape(x) + "$"})
                regex_cases.append({"kind": "find", "t": t, "q": re.escape(x)})
                regex_cases.append({"kind": "find", "t": t, "q": r"\A" + re.escape(x[: max(1, len(x) // 2)])})
        if si % 5 == 0 and all(isinstance(k, str) for k, _ in _all_keys(t)) and t:
            dp = [p for p, sub in paths if isinstance(sub, dict) and dict_walk(t, p) is not None]
            for p in dp[:3]:
                cases.append({"kind": "readscope", "t": _jsonable(t), "p": list(p)})
            cases.append({"kind": "readscope", "t": _jsonable(t), "p": ["nope"]})
    # correspondence
    mcases = [c for c in cases if c["kind"] != "readscope"]
    mout = wire.run_model_sharded([model_line(c) for c in mcases])
    iout = [impl_line(c) for c in mcases]
    ctx.compare("keypath", mcases, mout, iout)
    # oracle
    for c in cases + regex_cases:
        r = oracle(c)
        if r:
            ctx.oracle_fail(c, r[0], r[1])
        p = c.get("p", [])
        if c["kind"] == "find" and not re.fullmatch(r"[A-Za-z0-9_]+", c["q"]):
            ctx.classes["find-regex"] += 1
        nontrivial = c["kind"] == "find" or len(p) >= 2 or any(isinstance(x, int) for x in p) or any(
            isinstance(x, str) and not re.fullmatch(r"[A-Za-z_][\w.-]*", x) for x in p)
        ctx.count((c["kind"], wire.enc_tree(c["t"]), repr(p), repr(c.get("v")), c.get("q")), nontrivial, c["kind"],
                  sample={"kind": c["kind"], "path": p, "query": c.get("q"), "structure": c["t"]} if len(ctx.samples) < 6 and nontrivial else None)
    for k in ("set", "find", "exists", "scope", "readscope"):
        if ctx.classes[k] == 0:
            raise RuntimeError(f"generator starved: no {k} cases")


def _all_keys(t):
    if isinstance(t, dict):
        for k, v in t.items():
            yield k, v
            yield from _all_keys(v)
    elif isinstance(t, list):
        for v in t:
            yield from _all_keys(v)


def _jsonable(t):
    if isinstance(t, dict):
        return {k: _jsonable(v) for k, v in t.items()}
    if isinstance(t, list):
        return [_jsonable(v) for v in t]
    if isinstance(t, float) and (t != t or t in (float("inf"), float("-inf"))):
        return 0.0
    if isinstance(t, str) and "$" in t:
        return t.replace("$", "S")
    return t
