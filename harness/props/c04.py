"""C04  Scalar typing is total, deterministic and follows the documented type table."""
from __future__ import annotations

import itertools
import math
import re
import struct
from concurrent.futures import ProcessPoolExecutor

from harness import wire

RULE = (
    "exhaustive sweep of all strings up to a length bound over the 18-character alphabet "
    "0 1 9 + - . e E ' \" t r u n space LF a _ (model vs Parser.parse_value vs type-table oracle), plus seeded random "
    "longer strings over a wider alphabet, all ints in [-10^4,10^4], random big ints and random floats incl. "
    "subnormals through format_value -> parse_value; a case is non-trivial when the classifier leaves the default "
    "'plain string' exit (number / bool / none / quote removal / empty / reserved char) or is a numeric round trip; "
    "distinct = distinct input strings / values"
)
ASSUMPTIONS = [
    "CPython int()/float() literal grammars as written in Model/Scalar.v (py_int_ok, py_float_ok), validated by the sweep",
    "float(repr(x)) == x for finite floats (CPython)",
    "code points >= 128 are letters (no Unicode digits/spaces in generated strings)",
    "digit runs shorter than CPython's int-string limit (4300 digits) except in the known finding C04-int-digit-limit",
]
TRUSTED_BASE = ["re semantics of the five patterns of Parser.parse_value (validated exhaustively on short strings)"]

ALPHABET = "019+-.eE'\"trun \na_"
NUM_ALPHABET = "019+-.eE "
WORDS = {"true": True, "false": False, "on": True, "off": False, "none": None, "null": None}
_INT = re.compile(r"[+-]?[0-9]+\Z")
_FLOAT = re.compile(r"[+-]?([0-9]+\.?[0-9]*|\.[0-9]+)([eE][+-]?[0-9]+)?\Z")


def _impl():
    from dictIO import NativeFormatter, Parser

    return Parser(), NativeFormatter()


def spec_unquote(s: str) -> str:
    if s and s[0] in "'\"":
        s = s[1:]
    if s and s[-1] in "'\"":
        return s[:-1]
    if len(s) >= 2 and s[-1] == "\n" and s[-2] in "'\"":
        return s[:-2] + "\n"
    return s


def spec_classify(s: str):
    """The documented element-type table, written independently of the code."""
    if spec_unquote(s) == "":
        return ""
    if s in ("-", "_", "."):
        return s
    t = s[:-1] if s.endswith("\n") else s  # a final line break is not part of the literal
    if _INT.match(t):
        return int(t)
    if _FLOAT.match(t):
        return float(t)
    w = s.strip().lower()
    if w in WORDS:
        return WORDS[w]
    return spec_unquote(s)


def canon(v) -> str:
    if isinstance(v, bool):
        return "b1" if v else "b0"
    if isinstance(v, int):
        return f"i{v}"
    if isinstance(v, float):
        return "f" + v.hex()
    if v is None:
        return "n"
    if isinstance(v, str):
        return "s" + wire.cps(v)
    return "?" + repr(v)


def canon_model(line: str) -> str:
    """model output line -> same canonical form (floats through CPython's float())"""
    if line.startswith("ok f"):
        txt = wire.uncps(line[4:])
        try:
            return "f" + float(txt).hex()
        except ValueError:
            return "raise-in-harness ValueError"
    if line.startswith("ok "):
        return line[3:]
    if line.startswith("raise "):
        return "raise " + wire.ERR.get(int(line.split()[1]), "?")
    return line


def nontrivial_result(c: str) -> bool:
    return not c.startswith("s") or c == "s"


def oracle(case: dict):
    """Evaluate the property on the implementation for one case."""
    parser, fmt = _impl()
    kind = case["kind"]
    if kind == "parse":
        s = case["s"]
        try:
            v = parser.parse_value(s)
        except Exception as e:  # noqa: BLE001
            return ("raises", f"parse_value({s!r}) raised {type(e).__name__}: {e}")
        try:
            exp = spec_classify(s)
        except ValueError:
            # CPython cannot convert this integer literal (digit limit): the table says int, the known finding is that
            # parse_value raises; any other answer is a deviation
            return ("table", f"parse_value({s[:20]!r}... {len(s)} chars) = {str(v)[:40]!r}, type table says an int of {len(s)} digits")
        if canon(v) != canon(exp):
            return ("table", f"parse_value({s!r}) = {v!r}, type table says {exp!r}")
        try:
            k = parser.parse_key(s)
        except Exception as e:  # noqa: BLE001
            return ("raises", f"parse_key({s!r}) raised {type(e).__name__}: {e}")
        if canon(k) != canon(exp):
            return ("table", f"parse_key({s!r}) = {k!r}, type table says {exp!r}")
        if "'" not in s and '"' not in s:
            try:
                v2 = parser.parse_value(v)
            except Exception as e:  # noqa: BLE001
                return ("raises", f"parse_value({v!r}) raised {type(e).__name__}: {e}")
            if canon(v2) != canon(v):
                return ("idempotence", f"parse_value({s!r}) = {v!r} but classifying that again gives {v2!r}")
        return None
    if kind == "fmt":
        v = case["v"]
        if case.get("float_hex"):
            v = float.fromhex(case["float_hex"])
        try:
            txt = fmt.format_value(v)
            back = parser.parse_value(txt)
        except Exception as e:  # noqa: BLE001
            return ("raises", f"format/parse of {v!r} raised {type(e).__name__}: {e}")
        exp_txt = {True: "true", False: "false"}.get(v) if isinstance(v, bool) else ("NULL" if v is None else repr(v))
        if txt != exp_txt:
            return ("spelling", f"format_value({v!r}) = {txt!r}, documented spelling {exp_txt!r}")
        if canon(back) != canon(v) and not (isinstance(v, float) and v != v and isinstance(back, float) and back != back):
            return ("format-roundtrip", f"format_value({v!r}) = {txt!r} is classified back as {back!r}")
        return None
    if kind == "hist":
        # "deterministic": ONE parser / formatter instance classifies a whole sequence of values; every answer must be the
        # answer a fresh instance gives for that value alone, and an already typed value must come back as it is (same
        # type, same sign of zero) whatever was classified before
        for i, x in enumerate(case["vals"]):
            try:
                got = parser.parse_value(x)
                alone = _impl()[0].parse_value(x)
                txt = fmt.format_value(got) if not isinstance(got, str) else None
                txt_alone = _impl()[1].format_value(alone) if not isinstance(alone, str) else None
            except Exception as e:  # noqa: BLE001
                return ("raises", f"value {i} of the sequence {case['vals']!r}: {type(e).__name__}: {e}")
            if canon(got) != canon(alone):
                return ("history", f"after {case['vals'][:i]!r} parse_value({x!r}) = {got!r}; on a fresh parser {alone!r}")
            if not isinstance(x, str) and canon(got) != canon(x):
                return ("idempotence", f"after {case['vals'][:i]!r} the typed value {x!r} is classified as {got!r}")
            if txt != txt_alone:
                return ("history", f"after {case['vals'][:i]!r} format_value({got!r}) = {txt!r}; on a fresh formatter {txt_alone!r}")
        return None
    raise ValueError(kind)


def shrink(case: dict):
    if case["kind"] == "hist":
        v = case["vals"]
        for i in range(len(v)):
            yield {"kind": "hist", "vals": v[:i] + v[i + 1:]}
    if case["kind"] == "parse":
        s = case["s"]
        for i in range(len(s)):
            yield {"kind": "parse", "s": s[:i] + s[i + 1:]}


def mutations(case: dict, rng):
    if case["kind"] == "parse":
        s = case["s"]
        for _ in range(300):
            t = list(s)
            op = rng.randrange(3)
            if op == 0 and t:
                t[rng.randrange(len(t))] = rng.choice(ALPHABET)
            elif op == 1:
                t.insert(rng.randrange(len(t) + 1), rng.choice(ALPHABET))
            elif t:
                del t[rng.randrange(len(t))]
            yield {"kind": "parse", "s": "".join(t)}


KNOWN_PREDICATES = {
    "C04-int-digit-limit": lambda case, f: case["kind"] == "parse" and f["symptom"] == "raises"
    and re.fullmatch(r"[+-]?[0-9]{4301,}\n?", case["s"]) is not None,
    "C04-nonfinite-float": lambda case, f: case["kind"] == "fmt" and f["symptom"] == "format-roundtrip"
    and isinstance(case.get("float_hex"), str) and not math.isfinite(float.fromhex(case["float_hex"])),
}


# ---- exhaustive sweep (worker processes) ---------------------------------------------------------
def _sweep_worker(args):
    alphabet, length, prefix = args
    parser, _ = _impl()
    strings = [prefix + "".join(t) for t in itertools.product(alphabet, repeat=length - len(prefix))]
    lines = ["parse_value " + wire.enc_str(s) for s in strings]
    mout = wire.run_model(lines)
    bad_corr, bad_oracle, nontriv, classes = [], [], 0, {}
    for s, ml in zip(strings, mout):
        try:
            v = parser.parse_value(s)
            ci = canon(v)
        except Exception as e:  # noqa: BLE001
            ci = "raise " + type(e).__name__
        cm = canon_model(ml)
        if cm != ci and len(bad_corr) < 20:
            bad_corr.append((s, cm, ci))
        ce = canon(spec_classify(s))
        if ce != ci and len(bad_oracle) < 20:
            bad_oracle.append(s)
        if nontrivial_result(ci):
            nontriv += 1
        k = ci[0] if not ci.startswith("raise") else "raise"
        classes[k] = classes.get(k, 0) + 1
    return len(strings), nontriv, classes, bad_corr, bad_oracle


def sweep(ctx, alphabet: str, max_len: int, label: str):
    tasks = []
    for length in range(0, max_len + 1):
        if length <= 3:
            tasks.append((alphabet, length, ""))
        else:
            for p in itertools.product(alphabet, repeat=2):
                tasks.append((alphabet, length, "".join(p)))
    total = 0
    with ProcessPoolExecutor(max_workers=16) as ex:
        for n, nontriv, classes, bad_corr, bad_oracle in ex.map(_sweep_worker, tasks, chunksize=4):
            total += n
            ctx.evaluations += n
            ctx.corr_compared += n
            ctx.extra["sweep_nontrivial_" + label] = ctx.extra.get("sweep_nontrivial_" + label, 0) + nontriv
            for k, v in classes.items():
                ctx.classes[f"{label}:{k}"] += v
            for s, cm, ci in bad_corr:
                ctx.disagree("parse_value", {"kind": "parse", "s": s}, cm, ci)
            for s in bad_oracle:
                r = oracle({"kind": "parse", "s": s})
                if r:
                    ctx.oracle_fail({"kind": "parse", "s": s}, r[0], r[1])
    ctx.extra["sweep_strings_" + label] = total
    return total


def run(ctx):
    parser, fmt = _impl()
    rng = ctx.rng
    # 1. exhaustive sweeps
    max_len = 5 if ctx.tier == "quick" else 6
    n = sweep(ctx, ALPHABET, max_len, "full")
    ctx.exhaustive = True
    ctx.extra["sweep"] = f"all {n} strings of length <= {max_len} over {len(ALPHABET)} characters"
    if ctx.tier == "thorough":
        n2 = sweep(ctx, NUM_ALPHABET, 7, "numeric")
        ctx.extra["sweep"] += f"; all {n2} strings of length <= 7 over the numeric sub-alphabet"
    # distinct / non-trivial accounting for the sweep (every swept string is distinct by construction)
    swept_nontrivial = sum(v for k, v in ctx.extra.items() if k.startswith("sweep_nontrivial_"))
    ctx.extra["sweep_distinct_nontrivial"] = swept_nontrivial
    ctx.nontrivial_extra += swept_nontrivial  # swept strings are pairwise distinct by construction
    # 2. random longer strings (wider alphabet, class driven)
    wide = ALPHABET + "TRUENOFLSlfos0123456789\t\r\\;{}()/:äΩ日"
    cases = []
    for _ in range(ctx.n(20000, 200000)):
        mode = rng.randrange(6)
        if mode == 0:
            s = "".join(rng.choice(wide) for _ in range(rng.randrange(6, 14)))
        elif mode == 1:  # number-like with noise
            s = rng.choice(["", "+", "-"]) + "".join(rng.choice("0123456789") for _ in range(rng.randrange(0, 6)))
            s += rng.choice(["", ".", ".", "e", "E", "..", "-"]) + "".join(rng.choice("0123456789") for _ in range(rng.randrange(0, 5)))
            s += rng.choice(["", "", "e5", "E-3", "e+", "e", "\n", " ", "_1", "e1e1"])
        elif mode == 2 and rng.random() < 0.75:  # bool / none spellings with noise
            w = rng.choice(list(WORDS))
            w = "".join(c.upper() if rng.random() < 0.4 else c for c in w)
            s = rng.choice(["", "", " ", "\t", "'", '"', "\n"]) + w + rng.choice(["", "", " ", "\n", "'", '"', "x"])
        elif mode == 3:  # quoted things
            q = rng.choice("'\"")
            body = "".join(rng.choice(wide) for _ in range(rng.randrange(0, 8)))
            s = rng.choice([q + body + q, q + body, body + q, q + q, q, body + q + "\n", "\\" + body, body + "\\"])
        elif mode == 2:
            # look-alikes of the six words: ligatures, long s, Kelvin sign, dotted capital I (case FOLDING would turn some into the word)
            s = rng.choice(["o\ufb00", "O\ufb00", "fal\u017fe", "FAL\u017fE", "\ufb01", "nu\u217c\u217c", "tr\u00fce", "n\u00f6ne", "o\uff4e", "\u212aelvin",
                            "\u0130", "nul\u217c", "tru\u0435", "off\u200b", "\ufeffon"]) + rng.choice(["", "", " ", "\n"])
        elif mode == 4:
            s = rng.choice(["-", "_", ".", "", "\n", " ", "--", "__", "..", "+", "e5", "2024-01", "1+1", "--1", "1e", ".e1", "1.e-03", "١٢"[:0]])
        else:
            s = repr(rng.uniform(-1e6, 1e6)) + rng.choice(["", "", "\n", "0", "e2"])
        cases.append(s)
    lines = ["parse_value " + wire.enc_str(s) for s in cases]
    mout = wire.run_model_sharded(lines)
    for s, ml in zip(cases, mout):
        case = {"kind": "parse", "s": s}
        try:
            ci = canon(parser.parse_value(s))
        except Exception as e:  # noqa: BLE001
            ci = "raise " + type(e).__name__
        cm = canon_model(ml)
        ctx.corr_compared += 1
        if cm != ci:
            ctx.disagree("parse_value", case, cm, ci)
        r = oracle(case)
        if r:
            ctx.oracle_fail(case, r[0], r[1])
        ctx.count("p" + s, nontrivial_result(ci), "random:" + (ci[0] if not ci.startswith("raise") else "raise"), sample={"parse_value": s, "result": ci})
    # 3. numbers through the writer
    vals: list = list(range(-10**4, 10**4 + 1)) if ctx.tier == "thorough" else list(range(-2000, 2001))
    vals += [rng.randrange(-10**60, 10**60) for _ in range(ctx.n(3000, 20000))]
    vals += [True, False, None]
    floats = [0.0, -0.0, 5e-324, 2.2250738585072014e-308, 1e22, 1e16, 1e-5, 1.7976931348623157e308, 0.1, 1 / 3, 123456789.123456789, 1e15, 1e-4]
    for _ in range(ctx.n(8000, 60000)):
        m = rng.randrange(4)
        if m == 0:
            floats.append(struct.unpack("<d", struct.pack("<Q", rng.getrandbits(64)))[0])
        elif m == 1:
            floats.append(rng.uniform(-1e6, 1e6))
        elif m == 2:
            floats.append(float(rng.randrange(-10**6, 10**6)) * 10.0 ** rng.randrange(-30, 30))
        else:
            floats.append(struct.unpack("<d", struct.pack("<Q", rng.getrandbits(52)))[0])  # subnormals
    fcases = []
    for v in vals:
        fcases.append(({"kind": "fmt", "v": v}, v))
    for x in floats:
        fcases.append(({"kind": "fmt", "v": None, "float_hex": x.hex()}, x))
    flines = ["format_scalar " + wire.enc_scalar(v) for _, v in fcases if not (isinstance(v, float) and not math.isfinite(v))]
    fout = iter(wire.run_model_sharded(flines))
    back_lines, back_idx = [], []
    for idx, (case, v) in enumerate(fcases):
        finite = not (isinstance(v, float) and not math.isfinite(v))
        if finite:
            mtxt = wire.Reader(next(fout)).str()
            itxt = fmt.format_value(v)
            ctx.corr_compared += 1
            if mtxt != itxt:
                ctx.disagree("format_value", case, mtxt, itxt)
            back_lines.append("parse_value " + wire.enc_str(mtxt))
            back_idx.append(idx)
        r = oracle(case)
        if r:
            ctx.oracle_fail(case, r[0], r[1])
        ctx.count("v" + (case.get("float_hex") or repr(v)), True, "fmt:" + type(v).__name__,
                  sample={"format_value": repr(v)} if idx % 997 == 0 else None)
    # model: parse_value (format_scalar v) must give v back (mirrors theorems C04_fmt_*)
    bout = wire.run_model_sharded(back_lines)
    for idx, ml in zip(back_idx, bout):
        case, v = fcases[idx]
        if canon_model(ml) != canon(v):
            ctx.disagree("model parse(format v)", case, canon_model(ml), canon(v))
    # 3b. sequences on one instance: values that compare (and hash) equal across types or signs -- 0 == 0.0 == -0.0 == False,
    # 1 == 1.0 == True -- and their spellings, in every order
    pool = [0, 0.0, -0.0, False, 1, 1.0, True, -1, -1.0, None, 10, 10.0, 1e1, "0", "0.0", "-0.0", "+0", "-0", "false", "False",
            "true", "1", "1.0", "1.", "1e0", "on", "off", "none", "NULL", "", "'0'", '"1.0"', " 1 ", "-1", "1e1", 2**63, float(2**63)]
    for _ in range(ctx.n(600, 12000)):
        vals = [rng.choice(pool) for _ in range(rng.randrange(2, 9))]
        case = {"kind": "hist", "vals": vals}
        r = oracle(case)
        if r:
            ctx.oracle_fail(case, r[0], r[1])
        ctx.count(("h", repr(vals)), True, "history-one-instance")
    # 4. known findings are re-established explicitly (they are outside the random generators)
    for case in ({"kind": "parse", "s": "1" * 4301}, {"kind": "fmt", "v": None, "float_hex": float("inf").hex()},
                 {"kind": "fmt", "v": None, "float_hex": float("-inf").hex()}, {"kind": "fmt", "v": None, "float_hex": float("nan").hex()}):
        r = oracle(case)
        ctx.count(("known-probe", repr(case)), True, "known-probe")
        if r:
            ctx.oracle_fail(case, r[0], r[1])
    # sweep strings count as distinct cases
    ctx.extra["distinct_total_including_sweep"] = len(ctx.distinct) + sum(v for k, v in ctx.extra.items() if k.startswith("sweep_strings_"))
    if not ctx.classes:
        raise RuntimeError("generator starved")
