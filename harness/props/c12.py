"""C12  Comments and include directives survive read -> write, and can be switched off."""
from __future__ import annotations

import re
import shutil

from harness import gen, native, wire

RULE = (
    "seeded well-formed native sources: optional own header, line comments (end-of-line and own-line) and block comments at "
    "statement boundaries of nested dicts with text over an alphabet containing ' \" { } ; $ \\ ( ) and re.sub template "
    "sequences (\\1, \\g<0>, \\\\, \\n), include directives with plain / quoted / sub-directory / backslash paths (existing "
    "and missing files); read with comments on and off, written with NativeFormatter; thorough adds every single comment of "
    "length <= 3 over 12 hazardous characters at 4 positions; non-trivial = a comment with a hazardous character, a nested "
    "or duplicate comment, or an include with a separator; distinct = distinct sources"
)
ASSUMPTIONS = [
    "comments stand at statement boundaries of dict bodies, with white space or a delimiter on each side; comment text is single "
    "line, free of '//', '/*', '*/' and placeholder words; a block comment is not the whole content of a line that starts with '#include'",
    "identical comments inside one dict are written once (documented); the same holds for identical include directives, so "
    "generated sources include each file at most once per dict",
]
TRUSTED_BASE = ["the independent line scanner of this module that recovers comments and their nesting depth from the written text"]

HAZ = "'\"{};$\\()1g<>0n"
DEFAULT_HEADER_START = "/*---------------------------------*- C++ -*----------------------------------*\\\n"


def comment_text(rng, hazardous=True) -> str:
    n = rng.randrange(0, 14)
    al = "abc xyz 12 .,:-=#" + (HAZ if hazardous else "")
    s = "".join(rng.choice(al) for _ in range(n))
    if hazardous and rng.random() < 0.3:
        s += rng.choice(["\\1", "\\g<0>", "\\\\", "\\n", "\\", "$a", "'x", '"y', "{", "};"])
    s = s.replace("//", "/ /").replace("/*", "/ *").replace("*/", "* /")
    s = s.strip()
    for w in gen.RESERVED_WORDS:
        s = s.replace(w, w.lower())
    return s


class Src:
    """a generated source together with what the property expects"""

    def __init__(self):
        self.lines: list[str] = []
        self.line_comments: list[tuple[int, int, str]] = []   # (dict id, depth, text incl. //)
        self.block_comments: list[tuple[int, int, str]] = []
        self.includes: list[str] = []
        self.own_header = False
        self.first_block_nested = False
        self.nontrivial = False
        self.files: dict[str, str] = {}
        self._dict_counter = 0
        self.chain = False


def gen_source(rng, hazardous=True) -> Src:
    s = Src()
    s.max_depth = 3 if rng.random() < 0.7 else 6
    ind = lambda d: "    " * d  # noqa: E731

    def lc(did, depth, same_line=False):
        t = "//" + rng.choice(["", " "]) + comment_text(rng, hazardous)
        if hazardous and rng.random() < 0.15:
            # comment markers inside a line comment are plain text (the comment runs to the end of the line)
            t += rng.choice([" src/*.cpp", " see /* below", " a // b", " end */", " http://x.y/z", " /* closed */ tail"])
            s.nontrivial = True
        t = t.rstrip()
        if any(c in t for c in HAZ):
            s.nontrivial = True
        s.line_comments.append((did, depth, t))
        return t

    def bc(did, depth):
        t = "/* " + comment_text(rng, hazardous) + " */"
        if rng.random() < 0.2:
            # several lines (continuation lines carry their own indentation), at any nesting level
            t = "/* " + (comment_text(rng, False) or "a") + "\n" + ind(depth) + " * " + (comment_text(rng, False) or "b") + "\n" + ind(depth) + " */"
            s.nontrivial = True
        elif hazardous and rng.random() < 0.1:
            # characters that str.splitlines() takes for line boundaries (form feed, vertical tab, separators, NEL, LS) in the
            # middle of a block comment: part of its text
            t = "/* " + (comment_text(rng, False) or "page") + rng.choice(["\x0c", "\x0b", "\x1d", "\x85", "\u2028"]) + "break */"
            s.nontrivial = True
        elif hazardous and rng.random() < 0.25:
            # boxed / banner style: runs of stars of either parity at both ends
            body = comment_text(rng, hazardous)
            t = rng.choice(["/** " + body + " **/", "/*** " + body + " ***/", "/*" + "*" * rng.randrange(1, 9) + "/", "/* " + body + " ****/"])
            s.nontrivial = True
        others = [x for x in s.block_comments if x[0] != did and not x[2].startswith("/*-")]
        if others and rng.random() < 0.25:
            t = rng.choice(others)[2]          # the same block comment text again, in another dict / at another level
            s.nontrivial = True
        if not s.block_comments and not s.own_header and depth > 0:
            s.first_block_nested = True
        s.block_comments.append((did, depth, t))
        return t

    def body(did, depth):
        nst = rng.randrange(1, 5)
        used_keys: set[str] = set()
        if rng.random() < 0.35:
            s.lines.append(ind(depth) + lc(did, depth))
        for _ in range(nst):
            r = rng.random()
            k = gen.plain_key(rng)
            while k in used_keys or k in ("fromA", "fromB", "nb"):
                k = gen.plain_key(rng)          # a well-formed dict declares every key once
            used_keys.add(k)
            if r < (0.2 if depth < 3 else 0.45) and depth < s.max_depth:
                s._dict_counter += 1
                nd = s._dict_counter
                s.lines.append(ind(depth) + k)
                glue_open = rng.random() < 0.15
                s.lines.append(ind(depth) + "{" + (lc(nd, depth + 1) if glue_open else ""))      # {// first in the dict
                body(nd, depth + 1)
                s.lines.append(ind(depth) + "}" + (lc(did, depth) if rng.random() < 0.15 else ""))   # }// after the dict
            elif r < 0.3:
                s.lines.append(ind(depth) + k + " (1 2 'a b');")
            else:
                v = native.dictio().NativeFormatter().format_value(gen.dom_scalar(rng))
                if rng.random() < 0.1:
                    # a value that holds :// (no comment marker: the look-behind for the colon), often with a comment behind it
                    v = rng.choice(["'https://example.org/project'", "'ftp://files.example.org/pub'", "\"http://x.org/a b\""])
                line = ind(depth) + k + "  " + v + ";"
                if rng.random() < 0.3:
                    # a blank, a tab, or nothing between the statement and the comment (a 1;// note)
                    line += rng.choice([" ", " ", "\t", "", ""]) + lc(did, depth)
                s.lines.append(line)
            r2 = rng.random()
            if r2 < 0.2:
                s.lines.append(ind(depth) + lc(did, depth))
            elif r2 < 0.3:
                s.lines.append(ind(depth) + bc(did, depth))
            elif r2 < 0.36 and s.line_comments and s.line_comments[-1][0] == did:
                # duplicate of an earlier comment of the same dict
                d0, p0, t0 = s.line_comments[-1]
                s.line_comments.append((did, depth, t0))
                s.lines.append(ind(depth) + t0)
                s.nontrivial = True
        if depth > 0 and (s.line_comments and s.line_comments[-1][1] == depth):
            s.nontrivial = True

    if rng.random() < 0.5:
        s.own_header = True
        hdr = "/*---------------------------------*- C++ -*----------------------------------*\\\nfiletype dictionary; coding utf-8; version 0.1; local --; purpose " + gen.word(rng, 2, 6) + ";\n\\*----------------------------------------------------------------------------*/"
        s.lines.append(hdr)
        s.block_comments.append((0, 0, hdr))
    for name in rng.sample(["inc1", "sub/inc2", "inc 3", "sub\\win", "../up", "missing", "sub/deep/inc4"], rng.randrange(0, 3)):
        quoted = rng.choice(["'", '"', ""]) if " " not in name else rng.choice(["'", '"'])      # sub\\win also without quotes
        s.lines.append("#include " + quoted + name + quoted)
        s.includes.append(name)
        if "/" in name or "\\" in name:
            s.nontrivial = True
        if name not in ("missing", "../up", "sub\\win"):
            s.files[name] = gen.plain_key(rng) + "_inc  1;\n"
    if rng.random() < 0.35:
        # an include chain of depth two with comments in the deeper file (they are not comments of this source:
        # with comments on they are merged in as entries of the included files, with comments off none may appear)
        s.lines.append("#include 'chainA'")
        s.includes.append("chainA")
        s.files["chainA"] = "#include 'sub/chainB'\n// comment in chainA\nfromA  1;\n"
        s.files["sub/chainB"] = "// comment in chainB\nfromB  2;\nnb\n{\n    // nested comment in chainB\n    q  3;\n}\n/* block in chainB */\n"
        s.chain = True
        s.nontrivial = True
    if s.own_header and len(s.lines) > 1 and rng.random() < 0.3:
        # include directives in front of the file's own header block
        s.lines.append(s.lines.pop(0))
        s.nontrivial = True
    body(0, 0)
    return s


def source_text(s: Src) -> str:
    return "\n".join(s.lines) + "\n"


# ---- independent scanner of the written text -------------------------------------------------------
class MalformedOutput(Exception):
    pass


def scan_output(text: str):
    """returns (line comments [(depth, text)], block comments [(depth, text)], include names) in text order"""
    lcs, bcs, incs = [], [], []
    depth = 0
    i, n = 0, len(text)
    line_start = True
    while i < n:
        c = text[i]
        if text.startswith("/*", i):
            e = text.find("*/", i + 2)
            if e < 0:
                raise MalformedOutput(f"the written text holds a block comment that is never closed: {text[i:i + 60]!r}")
            e += 2
            bcs.append((depth, text[i:e]))
            i = e
            continue
        if text.startswith("//", i) and (i == 0 or text[i - 1] != ":"):
            e = text.find("\n", i)
            e = n if e < 0 else e
            lcs.append((depth, text[i:e].rstrip()))
            i = e
            continue
        if line_start and re.match(r"[ \t]*#include", text[i:i + 40]):
            e = text.find("\n", i)
            e = n if e < 0 else e
            m = re.match(r"\s*#include\s*(.*?)\s*$", text[i:e])
            incs.append(m.group(1))
            i = e
            continue
        if c in "'\"":
            e = text.find(c, i + 1)
            i = (e + 1) if e >= 0 else n
            line_start = False
            continue
        if c == "{":
            depth += 1
        elif c == "}":
            depth -= 1
        if c == "\n":
            line_start = True
        elif not c.isspace():
            line_start = False
        i += 1
    return lcs, bcs, incs


def dedup_per_dict(items):
    seen = set()
    out = []
    for did, depth, t in items:
        if (did, t) in seen:
            continue
        seen.add((did, t))
        out.append((depth, t))
    return out


def unq(s: str) -> str:
    if len(s) >= 2 and s[0] == s[-1] and s[0] in "'\"":
        return s[1:-1]
    return s


def off_in_list_oracle(case: dict):
    """comments at statement boundaries inside dicts that are LIST items, read with comments off: no comment entry anywhere,
    only the header written, the data that of the same text without the comments"""
    dictIO = native.dictio()
    tmp = native.scratch_dir("c12l_")
    try:
        f, g = tmp / "src", tmp / "plain"
        f.write_text(case["text"])
        g.write_text(case["plain"])
        try:
            d_off = dictIO.DictReader.read(f, comments=False)
            out_off = dictIO.NativeFormatter().to_string(d_off)
            d_plain = dictIO.DictReader.read(g, comments=False)
        except Exception as e:  # noqa: BLE001
            return ("raises", f"read/write without comments raised {type(e).__name__}: {e}")
    finally:
        shutil.rmtree(tmp, ignore_errors=True)

    def comment_keys(x, path=""):
        if isinstance(x, dict):
            for k, v in x.items():
                if isinstance(k, str) and "COMMENT" in k:
                    yield f"{path}/{k}"
                yield from comment_keys(v, f"{path}/{k}")
        elif isinstance(x, list):
            for i, v in enumerate(x):
                yield from comment_keys(v, f"{path}[{i}]")
    ck = list(comment_keys(gen.plain(dict(d_off))))
    if ck:
        return ("off-keys", f"comments=False returned comment entries {ck} for {case['text']!r}")
    try:
        lo, bo, _ = scan_output(out_off)
    except MalformedOutput as e:
        return ("output-malformed", "comments off: " + str(e))
    if lo or len(bo) != 1 or not out_off.startswith(DEFAULT_HEADER_START):
        return ("off-written", f"comments=False: written comments {lo!r} {bo[1:]!r} for {case['text']!r}")
    if not gen.typed_eq(gen.plain(dict(d_off)), gen.plain(dict(d_plain))):
        return ("off-data", f"data differs from the text without comments: {gen.plain(dict(d_off))!r} vs {gen.plain(dict(d_plain))!r}")
    return None


def nested_include_oracle(case: dict):
    """every #include directive of the written output names one of the files the source includes (resolved against the
    folder of the file that was read): the root includes a file in ANOTHER folder that has an include of its own"""
    dictIO = native.dictio()
    tmp = native.scratch_dir("c12n_")
    try:
        (tmp / "sub").mkdir()
        (tmp / "root").write_text("#include 'sub/a2'\nx  1;\n")
        (tmp / "sub" / "a2").write_text("#include 'b2'\ny  2;\n")
        (tmp / "sub" / "b2").write_text("z  3;\n")
        if case.get("decoy"):
            (tmp / "b2").write_text("z  99;\nother  5;\n")
        try:
            d = dictIO.DictReader.read(tmp / "root", comments=case.get("comments", True))
            out = dictIO.NativeFormatter().to_string(d)
        except Exception as e:  # noqa: BLE001
            return ("raises", f"read/write raised {type(e).__name__}: {e}")
        closure = {(tmp / "sub" / "a2").resolve(), (tmp / "sub" / "b2").resolve()}
        for line in out.splitlines():
            m = re.match(r"\s*#include\s*(.*?)\s*$", line)
            if m:
                name = m.group(1).strip("'\"")
                tgt = (tmp / name).resolve()
                if tgt not in closure:
                    return ("include-target", f"the written directive {line.strip()!r} names {tgt.relative_to(tmp.resolve()) if str(tgt).startswith(str(tmp.resolve())) else tgt} "
                                              f"(relative to the folder of the file that was read); the source includes sub/a2 and, through it, sub/b2")
        return None
    finally:
        shutil.rmtree(tmp, ignore_errors=True)


def oracle(case: dict):
    if case.get("kind") == "off-in-list":
        return off_in_list_oracle(case)
    if case.get("kind") == "nested-include":
        return nested_include_oracle(case)
    dictIO = native.dictio()
    text = case["text"]
    tmp = native.scratch_dir("c12_")
    try:
        f = tmp / "src"
        f.write_text(text)
        for name, content in case.get("files", {}).items():
            p = tmp / name
            p.parent.mkdir(parents=True, exist_ok=True)
            p.write_text(content)
        try:
            d_on = dictIO.DictReader.read(f, comments=True)
            out = dictIO.NativeFormatter().to_string(d_on)
        except Exception as e:  # noqa: BLE001
            return ("raises", f"read/write with comments raised {type(e).__name__}: {e}")
        try:
            d_off = dictIO.DictReader.read(f, comments=False)
            out_off = dictIO.NativeFormatter().to_string(d_off)
        except Exception as e:  # noqa: BLE001
            return ("raises", f"read/write without comments raised {type(e).__name__}: {e}")
    finally:
        shutil.rmtree(tmp, ignore_errors=True)
    try:
        lcs, bcs, incs = scan_output(out)
    except MalformedOutput as e:
        return ("output-malformed", str(e))
    if case.get("chain"):
        foreign = ("// comment in chainA", "// comment in chainB", "// nested comment in chainB")
        lcs = [(dp, t) for dp, t in lcs if t not in foreign]
        bcs = [(dp, t) for dp, t in bcs if t != "/* block in chainB */"]
        incs = [x for x in incs if unq(x) != "sub/chainB"]     # the include directive of the included file chainA
    exp_l = dedup_per_dict(case["line_comments"])
    got_l = [(dp, t) for dp, t in lcs]
    if got_l != [(dp, t.rstrip()) for dp, t in exp_l]:
        return ("line-comments", f"line comments (depth, text) in the output {got_l!r}, in the source {exp_l!r}")
    exp_b = dedup_per_dict(case["block_comments"])
    own_header = case["own_header"]
    got_b_texts = sorted(t for _, t in bcs)
    hdr_default = [t for _, t in bcs if t.startswith(DEFAULT_HEADER_START.rstrip("\n"))]
    exp_texts = sorted(t for _, t in exp_b)
    if not own_header:
        # the default header is put in front of the first block comment (or stands alone)
        if not out.startswith(DEFAULT_HEADER_START):
            return ("header", f"output does not begin with the default header: {out[:100]!r}")
    else:
        if not out.startswith(case["block_comments"][0][2]):
            return ("header", f"output does not begin with the source's own header: {out[:100]!r}")
    # every block comment text of the source is in the output, at its depth
    for dp, t in exp_b:
        if not any(bt == t and bd == dp for bd, bt in bcs):
            if not own_header and any(bt.startswith(DEFAULT_HEADER_START.rstrip("\n")) for _, bt in bcs):
                # the scanner sees "default header + first comment" as two comments: header, then the comment
                pass
            return ("block-comments", f"block comment {t!r} at depth {dp} not found in the output; found {bcs!r}")
    n_extra = len(bcs) - len(exp_b)
    # (block comment ids are local to each file: with an include chain, block comments of included files may show up
    #  under this source's texts; the property is about this source's own comments, so the count is only checked
    #  when no included file carries block comments)
    if not case.get("chain") and n_extra not in ((0,) if own_header else (1,)):
        return ("block-comments", f"{len(bcs)} block comments written, {len(exp_b)} in the source (+ default header: {not own_header})")
    if [unq(x) for x in incs] != list(case["includes"]):
        return ("includes", f"include directives written {incs!r}, source names {case['includes']!r}")
    # comments switched off
    def has_comment_key(x):
        if isinstance(x, dict):
            return any((isinstance(k, str) and "COMMENT" in k) or has_comment_key(v) for k, v in x.items())
        if isinstance(x, list):
            return any(has_comment_key(v) for v in x)
        return False
    if has_comment_key(gen.plain(dict(d_off))):
        return ("off-keys", "comments=False returned a comment entry")
    try:
        lo, bo, _ = scan_output(out_off)
    except MalformedOutput as e:
        return ("output-malformed", "comments off: " + str(e))
    if lo or len(bo) != 1 or not out_off.startswith(DEFAULT_HEADER_START):
        return ("off-written", f"comments=False: written comments {lo!r} {bo!r}")
    a = native.canon_ids(native.strip_placeholders(gen.plain(dict(d_on))))
    b = native.canon_ids(native.strip_placeholders(gen.plain(dict(d_off))))
    if not gen.typed_eq(a, b):
        return ("off-data", f"non-comment data differs: with comments {a!r}, without {b!r}")
    return None


def shrink(case):
    lines = case["text"].split("\n")
    # shrinking would need to keep the expectation in step: only whole trailing statements are dropped via regeneration
    return iter(())


def _slashes_in_block(case, f):
    """a block comment whose text contains the line-comment marker: line comments are lifted out first, also inside a block
    comment, and never put back there (recorded finding; Properties/C12.v C12_finding_slashes_in_block_comment)"""
    import re as _re

    return any(_re.search(r"(?<!:)//", t[2][2:]) for t in case.get("block_comments", [])) and f["symptom"] in (
        "block-comments", "line-comments", "output-malformed", "raises", "data", "off-data", "header")


def _nested_include_other_folder(case, f):
    return case.get("kind") == "nested-include" and f["symptom"] == "include-target"


KNOWN_PREDICATES = {"C12-line-comment-marker-inside-block-comment": _slashes_in_block,
                    "C12-nested-include-from-another-folder": _nested_include_other_folder}


def mk_case(s: Src) -> dict:
    return {"text": source_text(s), "line_comments": s.line_comments, "block_comments": s.block_comments,
            "includes": s.includes, "own_header": s.own_header, "files": s.files, "chain": getattr(s, "chain", False)}


def run(ctx):
    rng = ctx.rng
    dictIO = native.dictio()
    # an include from another folder that has an include of its own (recorded finding: the nested directive is re-emitted
    # with a name relative to the nested file's folder)
    for decoy in (False, True):
        for com in (True, False):
            c = {"kind": "nested-include", "decoy": decoy, "comments": com, "text": "#include 'sub/a2'\nx  1;\n", "block_comments": []}
            r = oracle(c)
            if r:
                ctx.oracle_fail(c, r[0], r[1])
            ctx.count(("ni", decoy, com), True, "nested-include-other-folder")
    # identical comments on one level are written once - also when the first of them got the id 0 (the first comment of the
    # first file a process reads, or the first after a reset / the wrap of the counter)
    for start in (-1, 999999, 41):
        for text, lcs in (("// all values in SI units\na  1;\n// all values in SI units\nb  2;\n", [(0, 0, "// all values in SI units"), (0, 0, "// all values in SI units")]),
                          ("s\n{\n    // x\n    a  1;\n    // x\n    b  2;\n}\n// x\n", [(1, 1, "// x"), (1, 1, "// x"), (0, 0, "// x")])):
            c = {"text": text, "line_comments": lcs, "block_comments": [], "includes": [], "own_header": False, "files": {}, "chain": False}
            native.set_counter(start)
            r = oracle(c)
            if r:
                ctx.oracle_fail(c, r[0], r[1])
            ctx.count(("id0", start, text), True, "repeated-comment-at-id-0")
    cases = []
    for i in range(ctx.n(500, 12000)):
        s = gen_source(rng, hazardous=(i % 4 != 0))
        cases.append((mk_case(s), s.nontrivial or s.first_block_nested))
    # comments inside dicts that are list items, comments off
    for i in range(ctx.n(40, 600)):
        items, plain_items = [], []
        for j in range(rng.randrange(1, 4)):
            body, pbody = [], []
            for q in range(rng.randrange(1, 4)):
                k = gen.plain_key(rng)
                stmt = f"        {k}  {rng.randrange(0, 99)};"
                m = rng.randrange(4)
                cm = comment_text(rng, hazardous=False) or "c"
                if m == 0:
                    body += [f"        // {cm}", stmt]
                elif m == 1:
                    body += [stmt + f" // {cm}"]
                elif m == 2:
                    body += [f"        /* {cm} */", stmt]
                else:
                    body += [stmt]
                pbody += [stmt]
            items.append("    {\n" + "\n".join(body) + "\n    }")
            plain_items.append("    {\n" + "\n".join(pbody) + "\n    }")
        text = "top  1;\ncases\n(\n" + "\n".join(items) + "\n);\nlast  2;\n"
        plain = "top  1;\ncases\n(\n" + "\n".join(plain_items) + "\n);\nlast  2;\n"
        c = {"kind": "off-in-list", "text": text, "plain": plain, "block_comments": []}
        r = oracle(c)
        if r:
            ctx.oracle_fail(c, r[0], r[1])
        ctx.count(("ol", text), "//" in text or "/*" in text, "comments-off-in-list-dicts")
    # the recorded finding, re-established on every run: a block comment (on lines of its own, at a statement boundary)
    # whose text contains the line-comment marker
    for txt in ("/* see a // b\n */", "/* 1 // 2 */"):
        ps = Src()
        ps.lines = ["a  1;", txt, "d", "{", "    b  2;", "}"]
        ps.block_comments = [(0, 0, txt)]
        cases.append((mk_case(ps), True))
    if ctx.tier == "thorough":
        import itertools

        hz = "'\"{};$\\()1g<"
        for n in range(1, 4):
            for tup in itertools.product(hz, repeat=n):
                t = "".join(tup)
                if "//" in t or "/*" in t or "*/" in t:
                    continue
                for pos in range(4):
                    s = Src()
                    c = "// " + t
                    if pos == 0:
                        s.lines = [c, "a 1;", "d", "{", "    b 2;", "}"]
                        s.line_comments = [(0, 0, c)]
                    elif pos == 1:
                        s.lines = ["a 1; " + c, "d", "{", "    b 2;", "}"]
                        s.line_comments = [(0, 0, c)]
                    elif pos == 2:
                        s.lines = ["a 1;", "d", "{", "    b 2; " + c, "}"]
                        s.line_comments = [(1, 1, c)]
                    else:
                        c = "/* " + t + " */"
                        s.lines = ["a 1;", c, "d", "{", "    b 2;", "}"]
                        s.block_comments = [(0, 0, c)]
                    cases.append((mk_case(s), True))
        ctx.extra["exhaustive_part"] = "every comment of length <= 3 over 12 hazardous characters at 4 positions"
    # correspondence: string route, model vs implementation, written text byte for byte
    plines, ilines = [], []
    for c, _ in cases:
        native.set_counter(-1)
        plines.append(native.model_parse_line(c["text"], count=-1))
        try:
            sd = dictIO.NativeParser().parse_string(c["text"], dictIO.SDict())
            ilines.append(("ok", sd))
        except Exception as e:  # noqa: BLE001
            ilines.append(("raise", type(e).__name__))
    mout = wire.run_model_sharded(plines)
    from harness.props.c07 import enc_sdict_obj

    wlines, wcases, wimpl = [], [], []
    for (c, _), ml, il in zip(cases, mout, ilines):
        ctx.corr_compared += 1
        if il[0] == "raise":
            if not ml.startswith("raise"):
                ctx.disagree("parse_string(comments)", c, ml[:500], "raise " + il[1])
            continue
        if not ml.startswith("ok "):
            ctx.disagree("parse_string(comments)", c, ml[:500], "ok ...")
            continue
        # the model state, written by the model, must equal the implementation's output for its own state
        sd_tokens = ml[3:].rsplit(" ", 1)[0]
        wlines.append("to_string_sd " + wire.canon_floats(sd_tokens))  # floats re-spelled by CPython's repr
        wcases.append(c)
        try:
            wimpl.append(dictIO.NativeFormatter().to_string(il[1]))
        except Exception as e:  # noqa: BLE001
            wimpl.append("raise " + type(e).__name__)
    wout = wire.run_model_sharded(wlines)
    for c, ml, it in zip(wcases, wout, wimpl):
        ctx.corr_compared += 1
        mt = wire.Reader(ml).str()
        if mt != it:
            ctx.disagree("to_string(parse_string(src))", c, mt[:1500], it[:1500])
    for c, nt in cases:
        r = oracle(c)
        if r:
            ctx.oracle_fail(c, r[0], r[1])
        ctx.count(("s", c["text"]), nt, "own-header" if c["own_header"] else "no-header",
                  sample={"source": c["text"]} if nt and len(ctx.samples) < 4 else None)
    if ctx.classes["own-header"] == 0 or ctx.classes["no-header"] == 0:
        raise RuntimeError("generator starved")
