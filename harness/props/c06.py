"""C06  Include merging is complete, ordered and anchored at the including file."""
from __future__ import annotations

import copy
import itertools
import json
import os
import re
import shutil
from pathlib import Path

from harness import gen, native, wire
from harness.props import c07, c15

RULE = (
    "seeded include graphs over <= 8 files in <= 4 directories (trees, diamonds / shared nodes, 2- and 3-cycles, dangling "
    "edges, equally named files in different directories, the root re-included), overlapping nested content tagged by file, "
    "native and JSON syntax mixed, self-referring placeholder entries; histories of reads / SDict.load / counter resets in one "
    "process over files with references and expressions; DictReader.read(root) and read(root, includes=False) "
    "compared with an independent first-wins closure fold and with the Coq model; thorough adds every graph on <= 4 nodes "
    "with out-degree <= 2; non-trivial = graph has a shared node, a cycle, a dangling edge or equal names; distinct = "
    "distinct (graph, content, syntax assignment)"
)
ASSUMPTIONS = [
    "key order of the merged result is not part of the property (association compared at every level)",
    "file contents of the graph are free of '$' in the model correspondence (expressions are C05); the self-reference "
    "exception is checked by the oracle on the implementation only",
]
TRUSTED_BASE = ["os.path.normpath / relpath to compute the graph's relative include paths"]

DIRS = ["", "a", "b", "a/c"]
KEYS = ["k1", "k2", "k3", "sub", "deep", "lst"]


def merge_spec(a, b, selfref=True):
    out = copy.deepcopy(a)
    for k, v in b.items():
        if k in out and isinstance(out[k], dict) and isinstance(v, dict):
            out[k] = merge_spec(out[k], v, selfref=False)
        elif k not in out:
            out[k] = copy.deepcopy(v)
        elif selfref and isinstance(out[k], str) and isinstance(k, str) and out[k].strip() == "$" + k:
            out[k] = copy.deepcopy(v)      # an entry that merely refers to its own key is filled by the include
    return out


def gen_graph(rng, n_files=None):
    n = n_files or rng.randrange(2, 9)
    files = []
    names_pool = ["p", "q", "r", "p", "s", "P", "R", "Q"]      # repeated names on purpose; names that differ in letter case only
    used = set()
    pj = rng.choice([0.3, 0.3, 0.3, 1.0, 0.0])      # mostly mixed syntax; sometimes every file JSON, sometimes every file native
    for i in range(n):
        for _ in range(20):
            d = rng.choice(DIRS)
            nm = rng.choice(names_pool) + ("" if rng.random() < 0.6 else str(i))
            if rng.random() < 0.12:
                nm = rng.choice(["p q", "p v2", "r s t", "b\\c"])      # a blank / a backslash in the file name (next to p, r, b)
            ext = ".json" if rng.random() < pj else ""
            rel = os.path.join(d, nm + ext) if d else nm + ext
            if rel not in used:
                used.add(rel)
                break
        else:
            rel = f"u{i}"
            used.add(rel)
        files.append({"rel": rel, "json": rel.endswith(".json"), "includes": [], "content": content(rng, i)})
    shape = rng.randrange(6)
    for i, f in enumerate(files):
        k = rng.randrange(0, 3)
        targets = []
        for _ in range(k):
            if shape == 0:      # tree: only later files
                c = [j for j in range(i + 1, n)]
            elif shape == 1:    # dag with shared nodes
                c = [j for j in range(i + 1, n)] + ([n - 1] if i < n - 1 else [])
            else:               # anything, cycles included
                c = list(range(n))
            if c:
                targets.append(rng.choice(c))
        if len(targets) == 2 and targets[0] != targets[1] and rng.random() < 0.35:
            targets.append(targets[0])      # the same file named again with another include in between: a, b, a
        for j in targets:
            frm = os.path.dirname(f["rel"])
            f["includes"].append(os.path.relpath(files[j]["rel"], frm or "."))
        if rng.random() < 0.15:
            f["includes"].append(rng.choice(["missing", "a/nothere", "../outside"]))
        elif i > 0 and rng.random() < 0.2:
            # a dangling name that DOES exist next to the root file (but not next to this file): still dangling
            here, rootdir = os.path.dirname(f["rel"]), os.path.dirname(files[0]["rel"])
            beside_root = [g["rel"] for g in files if os.path.dirname(g["rel"]) == rootdir and g is not f]
            if here != rootdir and beside_root:
                nm = os.path.basename(rng.choice(beside_root))
                if os.path.normpath(os.path.join(here, nm)) not in {g["rel"] for g in files}:
                    f["includes"].append(nm)
    if n >= 2 and not files[0]["includes"]:
        files[0]["includes"].append(os.path.relpath(files[1]["rel"], os.path.dirname(files[0]["rel"]) or "."))
    return files


def content(rng, i):
    d = {}
    for k in rng.sample(KEYS, rng.randrange(1, 5)):
        if k in ("sub", "deep") and rng.random() < 0.18:
            d[k] = rng.choice([i, f"v{i}_{k}", [i], None])      # the same key holds another KIND of value in this file
        elif k in ("sub", "deep"):
            d[k] = {kk: rng.choice([f"v{i}_{kk}", f"v{i}_{kk}", None, 0]) for kk in rng.sample(["x", "y", "z"], rng.randrange(1, 3))}
            if rng.random() < 0.3:
                d[k]["inner"] = {"w": f"v{i}_w"}
        elif k == "lst":
            d[k] = [i, f"v{i}"]
        else:
            d[k] = rng.choice([f"v{i}_{k}", i, float(i) + 0.5, i % 2 == 0, None, None, 0, "", []])   # falsy values win like any other
    d[f"only{i}"] = i
    if rng.random() < 0.15:
        d["pat"] = "logs/*.txt"      # no comment closer follows in such a file (see render): the opener is data
    return d


def render(f, selfref_key=None) -> str:
    dictIO = native.dictio()
    c = copy.deepcopy(f["content"])
    if f["json"]:
        out = {}
        for j, inc in enumerate(f["includes"]):
            out["#include" + (str(j) if j else "")] = inc
        out.update(c)
        return json.dumps(out, indent=1)
    body = dictIO.NativeFormatter().to_string(c)
    def directive(inc):
        # spellings of one directive: single quotes, double quotes, and no quotes where the name is a single word
        q = sum(map(ord, inc + f["rel"])) % 4
        if q == 0 and re.fullmatch(r"[\w./\\-]+", inc):
            return f"#include {inc}"
        return f'#include "{inc}"' if q == 1 else f"#include '{inc}'"

    lines = [directive(inc) for inc in f["includes"]]
    has_pat = "pat" in c
    if "pat" in c:
        # a quoted value that holds a comment opener (a file pattern), on a line ABOVE the include directives
        lines.insert(0, f"pat  '{c.pop('pat')}';")
    # a line comment and a block comment per native file (exercise comments on/off through the include chain)
    tag = f["rel"].replace("/", "_")
    return "\n".join(lines) + ("\n" if lines else "") + f"// comment of {tag}\n" + body + ("" if has_pat else f"/* block of {tag} */\n")


def spec_closure(files, idx_by_path, path, chain):
    f = files[idx_by_path[path]]
    own = native.normalise(f["content"]) if not f["json"] else copy.deepcopy(f["content"])
    acc = {}
    for inc in f["includes"]:
        target = os.path.normpath(os.path.join(os.path.dirname(path), inc))
        if target in chain or target not in idx_by_path:
            continue
        acc = merge_spec(acc, spec_closure(files, idx_by_path, target, chain + [target]), selfref=False)
    return merge_spec(own, acc)


def materialise(case, tmp: Path):
    for f in case["files"]:
        p = tmp / f["rel"]
        p.parent.mkdir(parents=True, exist_ok=True)
        p.write_text(f.get("text") or render(f))
    return tmp / case["files"][0]["rel"]


def eval_refs(t, top):
    """history cases carry entries  ref<i> $only<i>  and  expr<i> "$only<i> + 1"  (only<i> is declared once, in file i)"""
    import re

    if isinstance(t, dict):
        return {k: eval_refs(v, top) for k, v in t.items()}
    if isinstance(t, list):
        return [eval_refs(v, top) for v in t]
    if isinstance(t, str):
        m = re.fullmatch(r"\$(only\d+)( \+ 1)?", t)
        if m and m.group(1) in top:
            return top[m.group(1)] + (1 if m.group(2) else 0)
    return t


def history_oracle(case: dict):
    """one process, one directory of files, a sequence of operations: every read must return the closure of the
    include graph below the file that is read, whatever was read, loaded or reset before"""
    dictIO = native.dictio()
    files = case["files"]
    tmp = native.scratch_dir("c06h_")
    try:
        for d in DIRS:
            (tmp / d).mkdir(parents=True, exist_ok=True)
        materialise(case, tmp)
        idx = {os.path.normpath(f["rel"]): i for i, f in enumerate(files)}
        files = copy.deepcopy(files)
        for step, op in enumerate(case["history"]):
            if op[0] == "reset":
                native.set_counter(-1)
                continue
            if op[0] == "edit":
                # the content of one file changes on disk between two reads (same path, same size class): the next read must
                # see the new content, whatever was read before
                f = files[op[1]]
                f["content"][f"only{op[1]}"] = op[2]
                f["content"]["edited"] = op[2]
                (tmp / f["rel"]).write_text(render(f))
                continue
            f = files[op[1]]
            path = tmp / f["rel"]
            if op[0] == "load":
                try:
                    dictIO.SDict().load(path)      # public API; resets the global placeholder counter
                except Exception as e:  # noqa: BLE001
                    return ("raises", f"step {step} {op}: SDict.load raised {type(e).__name__}: {e}")
                continue
            comments = op[0] == "read"
            exp = spec_closure(files, idx, os.path.normpath(f["rel"]), [])
            exp = eval_refs(exp, exp)
            try:
                r = dictIO.DictReader.read(path, comments=comments)
            except Exception as e:  # noqa: BLE001
                return ("raises", f"step {step} {op}: read raised {type(e).__name__}: {e}")
            got = native.strip_placeholders(gen.plain(dict(r)), kinds=("COMMENT", "INCLUDE"))
            if not c15.assoc_eq(got, exp):
                return ("history", f"step {step} of {case['history']}: read({f['rel']}) gives {got!r}, closure of the include graph {exp!r}")
        return None
    finally:
        shutil.rmtree(tmp, ignore_errors=True)


def oracle(case: dict):
    if "history" in case:
        return history_oracle(case)
    dictIO = native.dictio()
    files = case["files"]
    tmp = native.scratch_dir("c06_")
    try:
        for d in DIRS:
            (tmp / d).mkdir(parents=True, exist_ok=True)
        root = materialise(case, tmp)
        idx = {os.path.normpath(f["rel"]): i for i, f in enumerate(files)}
        exp = spec_closure(files, idx, os.path.normpath(files[0]["rel"]), [])
        if "counter" in case:
            # the wrap-around of the placeholder counter may fall anywhere inside the read: between two include
            # directives of one file, between a file and the files it includes, inside a comment block
            native.set_counter(case["counter"])
        try:
            r = dictIO.DictReader.read(root)
        except RecursionError as e:
            return ("no-termination", f"read raised RecursionError: {e}")
        except Exception as e:  # noqa: BLE001
            return ("raises", f"read raised {type(e).__name__}: {e}")
        got = native.strip_placeholders(gen.plain(dict(r)), kinds=("COMMENT", "INCLUDE"))
        if not c15.assoc_eq(got, exp):
            missing = [k for k in exp if k not in got]
            return ("merge", f"read gives {got!r}, closure of the include graph {exp!r}" + (f" (missing keys {missing})" if missing else ""))
        try:
            r0 = dictIO.DictReader.read(root, includes=False)
        except Exception as e:  # noqa: BLE001
            return ("raises", f"read(includes=False) raised {type(e).__name__}: {e}")
        g0 = gen.plain(dict(r0))
        if any(isinstance(k, str) and "INCLUDE" in k for k in g0):
            return ("includes-off", f"includes=False returned an include entry: {list(g0)}")
        own = native.normalise(files[0]["content"]) if not files[0]["json"] else files[0]["content"]
        if not c15.assoc_eq(native.strip_placeholders(g0), own):
            return ("includes-off", f"includes=False merged something: {g0!r} vs own content {own!r}")
        return None
    finally:
        shutil.rmtree(tmp, ignore_errors=True)


def shrink(case):
    if "history" in case:
        h = case["history"]
        for i in range(len(h)):
            yield {"files": case["files"], "history": h[:i] + h[i + 1:]}
        return
    files = case["files"]
    extra = {k: v for k, v in case.items() if k != "files"}
    for i in range(len(files) - 1, 0, -1):
        c = dict(extra, files=[copy.deepcopy(f) for j, f in enumerate(files) if j != i])
        yield c
    for i, f in enumerate(files):
        for j in range(len(f["includes"])):
            c = dict(extra, files=copy.deepcopy(files))
            del c["files"][i]["includes"][j]
            yield c
    for i, f in enumerate(files):
        for k in list(f["content"]):
            c = dict(extra, files=copy.deepcopy(files))
            del c["files"][i]["content"][k]
            yield c
    if "counter" in case:
        yield {"files": copy.deepcopy(files)}


KNOWN_PREDICATES = {}


def graph_features(files) -> set:
    feats = set()
    idx = {os.path.normpath(f["rel"]): i for i, f in enumerate(files)}
    indeg = {}
    for f in files:
        for inc in f["includes"]:
            t = os.path.normpath(os.path.join(os.path.dirname(f["rel"]), inc))
            if t not in idx:
                feats.add("dangling")
            else:
                indeg[t] = indeg.get(t, 0) + 1
    if any(v > 1 for v in indeg.values()):
        feats.add("shared")
    names = [os.path.basename(f["rel"]) for f in files]
    if len(set(names)) < len(names):
        feats.add("equal-names")
    # cycle detection
    color = {}

    def dfs(p):
        color[p] = 1
        f = files[idx[p]]
        for inc in f["includes"]:
            t = os.path.normpath(os.path.join(os.path.dirname(p), inc))
            if t in idx:
                if color.get(t) == 1:
                    feats.add("cycle")
                elif t not in color:
                    dfs(t)
        color[p] = 2
    dfs(os.path.normpath(files[0]["rel"]))
    if any(f["json"] for f in files) and any(not f["json"] for f in files):
        feats.add("mixed-syntax")
    return feats


def model_line(case, tmp: Path, includes=True, comments=True) -> str:
    parts = []
    for f in case["files"]:
        p = str(tmp / f["rel"])
        if f["json"]:
            t = json.loads(f.get("text") or render(f))
            parts.append(f"{wire.enc_str(p)} json {wire.enc_tree(t)}")
        else:
            parts.append(f"{wire.enc_str(p)} native {wire.enc_str(f.get('text') or render(f))}")
    fs = f"l{len(parts)} " + " ".join(parts)
    root = str(tmp / case["files"][0]["rel"])
    return f"read_plain {fs} {wire.enc_str(root)} {wire.enc_bool(includes)} {wire.enc_bool(comments)} i-1"


def impl_line(case, tmp: Path, includes=True, comments=True) -> str:
    dictIO = native.dictio()
    native.set_counter(-1)
    try:
        r = dictIO.DictReader.read(tmp / case["files"][0]["rel"], includes=includes, comments=comments)
    except (ValueError, TypeError, IndexError, KeyError, RecursionError) as e:
        return f"raise {native.ERRCODE[type(e).__name__]}"
    except Exception as e:  # noqa: BLE001  (e.g. OSError from an ever-growing include path)
        return f"raise-other {type(e).__name__}"
    return "ok " + c07.enc_sdict_obj(r) + f" i{native.counter_value()}"


def norm_inc_paths(line: str) -> str:
    """normalise include paths in a model output line the way the harness does for the implementation"""
    return line


def run(ctx):
    rng = ctx.rng
    cases = []
    for i in range(ctx.n(350, 9000)):
        files = gen_graph(rng)
        cases.append({"files": files})
        if i % 3 == 0:
            # the same kind of graph read while the counter wraps around (the ids drawn straddle 999999 -> 0)
            cases[-1]["counter"] = 999999 - rng.randrange(0, 14)
    if ctx.tier == "thorough":
        # every graph on <= 4 nodes with out-degree <= 2 (targets chosen among all nodes)
        for n in range(1, 5):
            opts = [()] + [(j,) for j in range(n)] + [(j, k) for j in range(n) for k in range(n) if j < k]
            for combo in itertools.product(opts, repeat=n):
                files = [{"rel": f"n{i}", "json": False, "includes": [f"n{j}" for j in combo[i]],
                          "content": {"k1": f"v{i}", "sub": {"x": f"v{i}_x", f"o{i}": i}, f"only{i}": i}} for i in range(n)]
                cases.append({"files": files})
        ctx.extra["exhaustive_part"] = "every include graph on <= 4 nodes with out-degree <= 2"
    # self-reference placeholder (oracle only)
    selfref = []
    for i in range(ctx.n(40, 400)):
        files = gen_graph(rng, n_files=rng.randrange(2, 4))
        for j, f in enumerate(files):
            f["json"] = False
            f["rel"] = f["rel"].replace(".json", f"_n{j}")      # keep file names distinct
        for f in files:
            f["includes"] = []
        for j in range(len(files) - 1):
            files[j]["includes"].append(os.path.relpath(files[j + 1]["rel"], os.path.dirname(files[j]["rel"]) or "."))
        files[0]["content"] = {"k1": "$k1", "keep": 1}
        files[0]["text"] = "\n".join(f"#include '{inc}'" for inc in files[0]["includes"]) + "\nk1  $k1;\nkeep  1;\n"
        selfref.append({"files": files})
    # histories: several reads / loads / counter resets in one process over files that share includes and carry
    # references, expressions and comments (oracle only: the values of the references are computed by the harness)
    hist = []
    for i in range(ctx.n(60, 1200)):
        files = gen_graph(rng, n_files=rng.randrange(2, 6))
        for j, f in enumerate(files):
            f["content"][f"ref{j}"] = f"$only{j}"
            f["content"][f"expr{j}"] = f"$only{j} + 1"
        h = []
        for _ in range(rng.randrange(2, 7)):
            m = rng.random()
            if m < 0.55:
                h.append(("read", rng.randrange(len(files))))
            elif m < 0.65:
                h.append(("read_nocomments", rng.randrange(len(files))))
            elif m < 0.75:
                h.append(("reset",))
            elif m < 0.85:
                h.append(("edit", rng.randrange(len(files)), rng.randrange(100, 999)))
            else:
                h.append(("load", rng.randrange(len(files))))
        h.append(("read", 0))
        hist.append({"files": files, "history": h})
    tmp = native.scratch_dir("c06m_")
    try:
        for d in DIRS:
            (tmp / d).mkdir(parents=True, exist_ok=True)
        mlines, ilines, ccases = [], [], []
        for c in cases:
            for p in tmp.rglob("*"):
                if p.is_file():
                    p.unlink()
            materialise(c, tmp)
            for inc, com in ((True, True), (False, True), (True, False)):
                mlines.append(model_line(c, tmp, inc, com))
                ilines.append(impl_line(c, tmp, inc, com))
                ccases.append(c)
        mout = wire.run_model_sharded(mlines)

        def normline(ml):
            return ml
        ctx.compare("read(includes)", ccases, [normline(m) for m in mout], ilines)
    finally:
        shutil.rmtree(tmp, ignore_errors=True)
    for c in cases + selfref + hist:
        r = oracle(c)
        if r:
            ctx.oracle_fail(c, r[0], r[1])
        feats = graph_features(c["files"]) | ({"history"} if "history" in c else set())
        ctx.count(("g", repr(c)), bool(feats - {"mixed-syntax"}), "+".join(sorted(feats)) or "plain-tree",
                  sample={"files": [{k: f[k] for k in ("rel", "includes", "content")} for f in c["files"]]} if feats and len(ctx.samples) < 3 else None)
    for need in ("cycle", "shared", "dangling", "equal-names"):
        if not any(need in k for k in ctx.classes):
            raise RuntimeError(f"generator starved: no graph with feature {need}")
