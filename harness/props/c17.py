"""C17  The dictParser command line does exactly what the API does."""
from __future__ import annotations

import itertools
import os
import shutil
import subprocess
import sys
from concurrent.futures import ThreadPoolExecutor
from pathlib import Path

from harness import core, gen, native, wire

RULE = (
    "the complete flag matrix -I x --order x -C x --mode{absent,a} x -o{absent,cpp,foam,xml,json}... (1920 flag sets: "
    "2 x 2 x 2 x 2 x 4 x 5 scope spellings x 3 verbosity x 2 log) run in-process through cli.main() with DictParser.parse "
    "replaced by a recorder (kwargs compared with the Coq model and with the documented meaning of each flag), plus "
    "end-to-end pairs: `python -m dictIO.cli.dict_parser` in one scratch copy vs DictParser.parse in another, file names "
    "and bytes compared, on generated sources with includes, comments, expressions and nested scopes; failure cases "
    "(missing file, bad -o, bad --mode, unknown scope); non-trivial = flag set differs from the defaults in >= 2 flags; "
    "distinct = distinct (flag set, source)"
)
ASSUMPTIONS = ["argparse, process start-up, exit codes and logging are runtime behaviour: observed end to end, not modelled",
               "the log file requested with --log is an extra output by design and is not part of the comparison"]
TRUSTED_BASE = ["argparse (stdlib)"]

SCOPES = [None, "scopeA", "[scopeA]", "['scopeA', 'sub']", "[scopeA, sub]"]
OUTS = [None, "foam", "xml", "json"]
VERB = [None, "-q", "-v"]


def flag_matrix():
    for I, order, C, append, out, scope, verb, log in itertools.product(
            (False, True), (False, True), (False, True), (False, True), OUTS, SCOPES, VERB, (False, True)):
        yield {"I": I, "order": order, "C": C, "append": append, "out": out, "scope": scope, "verb": verb, "log": log}


def argv_of(f: dict, src: str, logfile: str | None) -> list[str]:
    a = [src]
    if f["I"]:
        a.append("-I")
    if f["order"]:
        a.append("--order")
    if f["C"]:
        a.append("--ignore-comments")
    if f["append"]:
        a += ["--mode", "a"]
    if f["out"]:
        a += ["-o", f["out"]]
    if f["scope"] is not None:
        a += ["--scope", f["scope"]]
    if f["verb"]:
        a.append(f["verb"])
    if f["log"] and logfile:
        a += ["--log", logfile]
    return a


def expected_kwargs(f: dict) -> dict:
    """documented meaning of the flags (independent of the code)"""
    sc = f["scope"]
    if sc is None:
        scope = None
    elif sc.strip().startswith("["):
        from harness.props.c04 import spec_classify

        scope = []
        for part in sc.strip(" []").split(","):
            part = part.strip()
            if len(part) >= 2 and part[0] == part[-1] and part[0] in "'\"":
                scope.append(part[1:-1])          # a quoted item is that string, whatever it spells
            else:
                scope.append(spec_classify(part))
    else:
        scope = [sc]
    return {"includes": not f["I"], "mode": "a" if f["append"] else "w", "order": f["order"], "comments": not f["C"],
            "scope": scope, "output": f["out"] or "cpp"}


def model_line(f: dict) -> str:
    out = "none" if f["out"] is None else "some " + f["out"]
    sc = "none" if f["scope"] is None else "some " + wire.enc_str(f["scope"])
    b = wire.enc_bool
    return f"cli_kwargs {b(f['I'])} {b(f['order'])} {b(f['C'])} {b(f['append'])} {out} {sc} {b(f['verb'] == '-q')} {b(f['verb'] == '-v')} {b(f['log'])}"


def kwargs_line(k: dict) -> str:
    b = wire.enc_bool
    sc = "none" if k["scope"] is None else "some ok " + wire.enc_list(list(k["scope"]), wire.enc_scalar)
    return f"{b(k['includes'])} {b(k['mode'] == 'a')} {b(k['order'])} {b(k['comments'])} {sc} {k['output']}"


def record_main(argv: list[str]):
    """run cli.main() with DictParser.parse replaced by a recorder"""
    import dictIO.cli.dict_parser as cli

    rec = {}

    class Rec:
        @staticmethod
        def parse(**kw):
            rec.update(kw)
            return {"x": 1}
    old_dp, old_argv, old_conf = cli.DictParser, sys.argv, cli.configure_logging
    cli.DictParser = Rec
    cli.configure_logging = lambda *a, **k: None
    sys.argv = ["dictParser"] + argv
    try:
        cli.main()
    finally:
        cli.DictParser, sys.argv, cli.configure_logging = old_dp, old_argv, old_conf
    return rec


SOURCE_TMPL = """/* header of {n} */
#include 'inc_{n}'
// ------------------------------
// a line comment
alpha  {a};
// ------------------------------
beta  "$alpha + 1";
zeta  'two words';
// ------------------------------
scopeA
{{
    inner  $alpha;
    // nested comment
    sub
    {{
        leaf  {b};
        list  (1 2 3);
    }}
    aaa  1;
}}
Bkey  3;
reserve
{{
}}
"""


def make_sources(rng, base: Path, n: int):
    for i in range(n):
        (base / f"src{i}").write_text(SOURCE_TMPL.format(n=i, a=rng.randrange(1, 99), b=rng.choice(["'x y'", "2.5", "true"])))
        (base / f"inc_{i}").write_text(f"// comment of the include file\nfromInclude  {i}; // trailing comment in the include\n"
                                       f"scopeA {{ incInScope {i}; sub {{ incLeaf {i}; }} }}\n/* block comment of the include */\n")
        (base / f"parsed.src{i}").write_text("preExisting  1;\nscopeA { old 2; }\n")   # matters for --mode a
    # sources whose names carry the prefix already (the derived target is the source itself: parsed onto itself, as the API does)
    (base / "parsed.again").write_text("#include 'inc_0'\nk  2;\nm  \"$k + 1\"; // trailing\nscopeA { own 1; }\n")
    (base / "parsed.j.json").write_text('{"k": 2, "m": "$k + 1", "scopeA": {"own": 1}}')
    (base / "umbrella").write_text("#include 'inc_0'\n")        # nothing of its own: with -I the parsed result is empty
    (base / "parsed.umbrella").write_text("preExisting  1;\n")


JSON_SRC = '{"2": {"a": 1, "b": {"c": 2}}, "cases": {"20": {"x": 1.5}, "name": {"y": true}}, "top": 0}'
SCOPE_SPELLINGS = ["2", "['2']", '["2"]', "[2]", "['cases', '20']", "[cases, '20']", "[cases, 20]", "[cases, name]", "[ 'cases' , \"name\" ]", "cases"]


def snapshot(d: Path) -> dict:
    return {str(p.relative_to(d)): (p.read_bytes() if p.is_file() else b"<dir>") for p in sorted(d.rglob("*"))}


def run_cli(cwd: Path, argv: list[str]):
    env = dict(os.environ, PYTHONPATH=str(core.REPO / "src"), PYTHONHASHSEED="0", PYTHONDONTWRITEBYTECODE="1")
    p = subprocess.run(["/venv/bin/python", "-B", "-m", "dictIO.cli.dict_parser"] + argv, cwd=cwd, env=env,
                       capture_output=True, text=True, timeout=120, check=False)
    return p.returncode, p.stdout, p.stderr


def run_api(cwd: Path, f: dict, src: str):
    """DictParser.parse with the corresponding arguments, in a subprocess as well (same process-global state)"""
    k = expected_kwargs(f)
    code = (
        "import logging,sys; logging.disable(logging.CRITICAL)\n"
        "from dictIO import DictParser\n"
        f"DictParser.parse({src!r}, includes={k['includes']!r}, mode={k['mode']!r}, order={k['order']!r}, "
        f"comments={k['comments']!r}, scope={k['scope']!r}, output={k['output']!r})\n"
    )
    env = dict(os.environ, PYTHONPATH=str(core.REPO / "src"), PYTHONHASHSEED="0", PYTHONDONTWRITEBYTECODE="1")
    p = subprocess.run(["/venv/bin/python", "-B", "-c", code], cwd=cwd, env=env, capture_output=True, text=True, timeout=120, check=False)
    return p.returncode, p.stdout, p.stderr


def e2e_case(args):
    f, srcname, seed = args
    import random

    rng = random.Random(seed)
    tmp = native.scratch_dir("c17_")
    try:
        a, b, logs = tmp / "cli", tmp / "api", tmp / "logs"
        for d in (a, b, logs):
            d.mkdir()
        make_sources(rng, a, 2)
        (a / "num.json").write_text(JSON_SRC)
        for p in a.iterdir():
            shutil.copy(p, b / p.name)
        before = snapshot(a)
        rc1, out1, err1 = run_cli(a, argv_of(f, srcname, str(logs / "log.txt")))
        rc2, out2, err2 = run_api(b, f, srcname)
        sa, sb = snapshot(a), snapshot(b)
        if "Traceback" in err1:
            return ("traceback", f"the command printed a traceback: {err1[-300:]}")
        if sa != sb:
            diff = sorted(set(sa) ^ set(sb)) or [k for k in sa if sa[k] != sb.get(k)]
            return ("e2e-differs", f"files differ between CLI and API run: {diff[:4]} (cli rc={rc1}, api rc={rc2}) cli stderr {err1[-200:]!r} api stderr {err2[-200:]!r}")
        new = [k for k in sa if k not in before or sa[k] != before[k]]
        if len(new) > 1:
            return ("extra-files", f"more than one file written: {new}")
        return None
    finally:
        shutil.rmtree(tmp, ignore_errors=True)


def session_case(args):
    """a Python session calling DictParser.parse several times (one process) against the command run once per call
    (a new process each time): after every call the files written must agree, whatever was parsed before"""
    flist, srcname, seed = args
    import random

    rng = random.Random(seed)
    tmp = native.scratch_dir("c17s_")
    try:
        a, b = tmp / "cli", tmp / "api"
        for d in (a, b):
            d.mkdir()
        make_sources(rng, a, 2)
        for p in a.iterdir():
            shutil.copy(p, b / p.name)
        # API: one process, all calls; after each call the changed files are copied aside
        steps = []
        for i, f in enumerate(flist):
            k = expected_kwargs(f)
            steps.append(f"DictParser.parse({srcname!r}, includes={k['includes']!r}, mode={k['mode']!r}, order={k['order']!r}, "
                         f"comments={k['comments']!r}, scope={k['scope']!r}, output={k['output']!r})\nkeep({i})\n")
        code = ("import logging,sys,os,shutil,hashlib; logging.disable(logging.CRITICAL)\nfrom dictIO import DictParser\n"
                "def snap():\n    return {n: open(n,'rb').read() for n in sorted(os.listdir('.')) if os.path.isfile(n)}\n"
                "state = {'s': snap()}\n"
                "def keep(i):\n    now = snap()\n    os.makedirs(f'_steps/{i}', exist_ok=True)\n"
                "    for n, bts in now.items():\n        if state['s'].get(n) != bts:\n            open(f'_steps/{i}/{n}','wb').write(bts)\n"
                "    state['s'] = now\n" + "".join(steps))
        env = dict(os.environ, PYTHONPATH=str(core.REPO / "src"), PYTHONHASHSEED="0", PYTHONDONTWRITEBYTECODE="1")
        p = subprocess.run(["/venv/bin/python", "-B", "-c", code], cwd=b, env=env, capture_output=True, text=True, timeout=300, check=False)
        if p.returncode != 0:
            return ("session-raises", f"the API session failed: {p.stderr[-300:]}")
        # CLI: one process per call
        prev = {n: (a / n).read_bytes() for n in sorted(os.listdir(a)) if (a / n).is_file()}
        for i, f in enumerate(flist):
            rc, out, err = run_cli(a, argv_of(f, srcname, None))
            now = {n: (a / n).read_bytes() for n in sorted(os.listdir(a)) if (a / n).is_file()}
            (a / "_steps" / str(i)).mkdir(parents=True, exist_ok=True)
            for n, bts in now.items():
                if prev.get(n) != bts:
                    (a / "_steps" / str(i) / n).write_bytes(bts)
            prev = now
        sa, sb = snapshot(a / "_steps"), snapshot(b / "_steps")
        if sa != sb:
            diff = sorted(set(sa) ^ set(sb)) or [k for k in sa if sa[k] != sb.get(k)]
            i = int(diff[0].split("/")[0])
            return ("session-differs", f"call {i} of the session {[argv_of(f, srcname, None)[1:] for f in flist]} wrote {diff[:3]} differently from the command "
                                       f"(command: {sa.get(diff[0], b'<absent>')[:200]!r}; session: {sb.get(diff[0], b'<absent>')[:200]!r})")
        return None
    finally:
        shutil.rmtree(tmp, ignore_errors=True)


def parse_model_correspondence(ctx, rng, flagsets):
    dictIO = native.dictio()
    tmp = native.scratch_dir("c17m_")
    try:
        make_sources(rng, tmp, 2)
        originals = snapshot(tmp)
        mlines, ilines, kept = [], [], []
        for f in flagsets:
            for src in ("src0", "src1"):
                # restore the directory (a previous call may have written parsed.* files)
                for pth in list(tmp.iterdir()):
                    if pth.is_file():
                        pth.unlink()
                for name, bts in originals.items():
                    (tmp / name).write_bytes(bts)
                k = expected_kwargs(f)
                fsparts = [f"{wire.enc_str(str(tmp / name))} native {wire.enc_str(bts.decode())}" for name, bts in sorted(originals.items())]
                scope = k["scope"] or []
                mlines.append(f"parse_model l{len(fsparts)} " + " ".join(fsparts) + f" {wire.enc_str(str(tmp / src))} {wire.enc_bool(k['includes'])} "
                              f"{wire.enc_bool(k['mode'] == 'a')} {wire.enc_bool(k['order'])} {wire.enc_bool(k['comments'])} "
                              f"{wire.enc_list(scope, wire.enc_scalar)} {wire.enc_opt(f['out'], wire.enc_str)} i-1")
                native.set_counter(-1)
                before = snapshot(tmp)
                try:
                    dictIO.DictParser.parse(tmp / src, includes=k["includes"], mode=k["mode"], order=k["order"], comments=k["comments"],
                                            scope=k["scope"], output=k["output"])
                    after = snapshot(tmp)
                    changed = [n for n in after if before.get(n) != after[n]]
                    if len(changed) != 1:
                        ilines.append(f"changed {changed}")
                    else:
                        ilines.append(f"ok {wire.enc_str(str(tmp / changed[0]))} {wire.enc_str(after[changed[0]].decode())} i{native.counter_value()}")
                except SystemExit:
                    ilines.append("raise 10")
                except (ValueError, TypeError, IndexError, KeyError, RecursionError) as e:
                    ilines.append(f"raise {native.ERRCODE[type(e).__name__]}")
                except Exception as e:  # noqa: BLE001
                    ilines.append("raise-other " + type(e).__name__)
                kept.append({"kind": "wiring", "flags": f, "src": src})
        mout = wire.run_model_sharded(mlines)
        inside = 0
        for c, ml, il in zip(kept, mout, ilines):
            if ml == "outside":
                continue
            inside += 1
            ctx.corr_compared += 1
            if wire.canon_floats(ml) != wire.canon_floats(il) and len(ctx.disagreements) < 20:
                ctx.disagree("parse_model (DictParser.parse: read options, target name, write)", c, ml[:2500], il[:2500])
        ctx.classes["parse_model:compared"] += inside
        ctx.classes["parse_model:outside the model"] += len(kept) - inside
    finally:
        shutil.rmtree(tmp, ignore_errors=True)


def failure_case(kind: str):
    tmp = native.scratch_dir("c17f_")
    try:
        import random

        make_sources(random.Random(1), tmp, 1)
        # files that share the missing input's stem (another ending, a sub-folder): they are not the input
        (tmp / "ghost.json").write_text('{"a": 1}')
        (tmp / "ghost.foam").write_text("a 1;\n")
        (tmp / "ghost.cpp").write_text("a 1;\n")
        (tmp / "ghost.xml").write_text("<r><a>1</a></r>")
        (tmp / "sub").mkdir()
        (tmp / "sub" / "ghost.dict").write_text("a 1;\n")
        before = snapshot(tmp)
        kind, _, deco = kind.partition("+")
        argv = {"missing": ["nosuchfile"], "missing-stem": ["ghost"], "missing-substem": ["sub/ghost"], "bad-o": ["src0", "-o", "yaml"], "bad-mode": ["src0", "--mode", "x"],
                "bad-log-level": ["src0", "--log-level", "LOUD"], "no-input": [],
                "unknown-scope": ["src0", "--scope", "nosuchscope"], "unknown-scope-list": ["src0", "--scope", "[scopeA, nope]"]}[kind]
        # the failing element combined with other, valid options, in front of it and behind it
        extra = {"": [], "log": ["--log", "run.log"], "logdeep": ["--log", "logs/deep/run.log"], "opts": ["--order", "-I", "-q"]}[deco.rstrip("<>")]
        argv = (argv[:1] + extra + argv[1:]) if deco.endswith("<") else (argv + extra)
        rc, out, err = run_cli(tmp, argv)
        after = snapshot(tmp)
        if "Traceback" in err or "Traceback" in out:
            return ("traceback", f"{kind}: traceback printed: {err[-300:]}")
        changed = sorted(set(after.items()) ^ set(before.items()))
        names = sorted({k for k, _ in changed})
        if kind in ("missing", "missing-stem", "missing-substem", "unknown-scope", "unknown-scope-list"):
            # the command line itself is valid: the log file asked for with --log is an extra output by design
            names = [n for n in names if not str(n).endswith("run.log") and str(n) not in ("logs", "logs/deep")]
        if names:
            return ("writes-on-failure", f"{kind} ({' '.join(argv)}): files changed: {names}")
        return None
    finally:
        shutil.rmtree(tmp, ignore_errors=True)


def oracle(case: dict):
    if case["kind"] == "wiring":
        f = case["flags"]
        tmp = native.scratch_dir("c17w_")
        try:
            (tmp / "src").write_text("a 1;\n")
            rec = record_main(argv_of(f, str(tmp / "src"), None))
        except SystemExit as e:
            return ("exits", f"main() exited with {e.code} for {argv_of(f, 'src', None)}")
        finally:
            shutil.rmtree(tmp, ignore_errors=True)
        exp = expected_kwargs(f)
        got = {k: rec.get(k) for k in exp}
        if got != exp:
            return ("wiring", f"flags {argv_of(f, 'src', None)[1:]} reach parse() as {got}, documented meaning {exp}")
        return None
    if case["kind"] == "e2e":
        return e2e_case((case["flags"], case["src"], case["seed"]))
    if case["kind"] == "session":
        return session_case((case["flist"], case["src"], case["seed"]))
    if case["kind"] == "failure":
        return failure_case(case["what"])
    raise ValueError(case["kind"])


KNOWN_PREDICATES = {}


def nondefault(f) -> int:
    return sum([f["I"], f["order"], f["C"], f["append"], f["out"] is not None, f["scope"] is not None, f["verb"] is not None, f["log"]])


def run(ctx):
    rng = ctx.rng
    matrix = list(flag_matrix())
    assert len(matrix) == 1920
    # 1. wiring: complete matrix, in process, recorder vs model vs documented meaning
    mout = wire.run_model_sharded([model_line(f) for f in matrix])
    tmp = native.scratch_dir("c17w_")
    try:
        (tmp / "src").write_text("a 1;\n")
        for f, ml in zip(matrix, mout):
            c = {"kind": "wiring", "flags": f}
            try:
                rec = record_main(argv_of(f, str(tmp / "src"), None))
                il = kwargs_line({k: rec.get(k) for k in ("includes", "mode", "order", "comments", "scope", "output")})
            except SystemExit as e:
                il = f"exit {e.code}"
            ctx.corr_compared += 1
            if ml != il:
                if len(ctx.disagreements) < 20:
                    ctx.disagree("cli_kwargs", c, ml, il)
            exp = expected_kwargs(f)
            if il.startswith("exit") or {k: rec.get(k) for k in exp} != exp:
                r = oracle(c)
                if r:
                    ctx.oracle_fail(c, r[0], r[1])
            ctx.count(("w", repr(f)), nondefault(f) >= 2, "wiring")
    finally:
        shutil.rmtree(tmp, ignore_errors=True)
    ctx.exhaustive = True
    ctx.extra["wiring_matrix"] = "all 1920 flag sets"
    # 2. end to end
    if ctx.tier == "quick":
        sample = rng.sample(matrix, ctx.n(160, 160))
        # make sure every single flag appears alone as well
        base = {"I": False, "order": False, "C": False, "append": False, "out": None, "scope": None, "verb": None, "log": False}
        singles = [dict(base, I=True), dict(base, order=True), dict(base, C=True), dict(base, append=True)] + \
                  [dict(base, out=o) for o in OUTS[1:]] + [dict(base, scope=s) for s in SCOPES[1:]] + [dict(base, log=True), dict(base, verb="-q")]
        jobs = [(f, f"src{i % 2}", ctx.seed + i) for i, f in enumerate(singles + sample)]
    else:
        jobs = [(f, f"src{(i + s) % 2}", ctx.seed + 7 * i + s) for i, f in enumerate(matrix) for s in range(3)]
    with ThreadPoolExecutor(max_workers=16) as ex:
        results = list(ex.map(e2e_case, jobs))
    # scope spellings incl. quoted numeric names against a JSON source whose members are named by numeric strings
    base0 = {"I": False, "order": False, "C": False, "append": False, "out": None, "scope": None, "verb": None, "log": False}
    sjobs = [(dict(base0, scope=sp, out=o), "num.json", ctx.seed + 1000 + i) for i, sp in enumerate(SCOPE_SPELLINGS) for o in (None, "json")]
    with ThreadPoolExecutor(max_workers=16) as ex:
        sresults = list(ex.map(e2e_case, sjobs))
    # legitimately EMPTY results: an empty scope, a comments-only scope read with -C, an include-only file read with -I
    ejobs = [(dict(base0, scope="reserve"), "src0", ctx.seed + 2000), (dict(base0, scope="[reserve]", out="foam"), "src1", ctx.seed + 2001),
             (dict(base0, scope="reserve", append=True), "src0", ctx.seed + 2002), (dict(base0, I=True), "umbrella", ctx.seed + 2003),
             (dict(base0, I=True, append=True), "umbrella", ctx.seed + 2004), (dict(base0, I=True, C=True, out="foam"), "umbrella", ctx.seed + 2005)]
    with ThreadPoolExecutor(max_workers=16) as ex:
        eresults = list(ex.map(e2e_case, ejobs))
    # sources that carry the prefix already
    pjobs = [(dict(base0), "parsed.again", ctx.seed + 3000), (dict(base0, C=True, order=True), "parsed.again", ctx.seed + 3001),
             (dict(base0, append=True, verb="-q"), "parsed.again", ctx.seed + 3002), (dict(base0, out="json"), "parsed.j.json", ctx.seed + 3003),
             (dict(base0, out="json"), "parsed.again", ctx.seed + 3004), (dict(base0, scope="scopeA"), "parsed.again", ctx.seed + 3005),
             (dict(base0, out="cpp", I=True), "parsed.again", ctx.seed + 3006)]
    with ThreadPoolExecutor(max_workers=16) as ex:
        presults = list(ex.map(e2e_case, pjobs))
    jobs = jobs + sjobs + ejobs + pjobs
    results = results + sresults + eresults + presults
    # validate_scope: model vs implementation on scope strings
    from dictIO.cli.dict_parser import _validate_scope

    texts = SCOPE_SPELLINGS + ["[a]", "[a,b]", "[ a , b ]", "['a b', c]", "[1.5, true, NULL]", "['1.5', 'true']", "[]", "[ ]", "a b", "[a", "a]", " [x]"]
    mo = wire.run_model(["validate_scope " + wire.enc_str(t) for t in texts])
    for t, ml in zip(texts, mo):
        try:
            il = "ok " + wire.enc_list(_validate_scope(t), wire.enc_scalar)
        except Exception as e:  # noqa: BLE001
            il = "raise " + type(e).__name__
        ctx.corr_compared += 1
        if wire.canon_floats(ml) != wire.canon_floats(il):
            ctx.disagree("validate_scope", {"kind": "wiring", "flags": dict(base0, scope=t)}, ml, il)
    for (f, src, seed), r in zip(jobs, results):
        c = {"kind": "e2e", "flags": f, "src": src, "seed": seed}
        if r:
            ctx.oracle_fail(c, r[0], r[1])
        ctx.count(("e", repr(f), src, seed), nondefault(f) >= 2, "e2e", sample={"argv": argv_of(f, src, "log.txt")} if len(ctx.samples) < 5 else None)
    # 2b. sessions: several parse calls in one process against one command per call (JSON output is left out: it
    #     spells placeholder ids, which differ between a fresh process and a running one: known finding of C08)
    nojson = [f for f in matrix if f["out"] != "json" and not f["log"]]
    ssjobs = [([rng.choice(nojson) for _ in range(rng.randrange(2, 5))], f"src{i % 2}", ctx.seed + 5000 + i) for i in range(ctx.n(24, 300))]
    with ThreadPoolExecutor(max_workers=16) as ex:
        ssresults = list(ex.map(session_case, ssjobs))
    for (flist, src, seed), r in zip(ssjobs, ssresults):
        c = {"kind": "session", "flist": flist, "src": src, "seed": seed}
        if r:
            ctx.oracle_fail(c, r[0], r[1])
        ctx.count(("s", repr(flist), src, seed), True, "session")
    # 2c. the whole workflow in the model: DictParser.parse (read with all options, target name, write incl. append
    #     onto the pre-existing parsed.<name>) for native and Foam output, model vs implementation: name and bytes
    parse_model_correspondence(ctx, rng, [f for f in matrix if f["out"] not in ("json", "xml") and not f["log"] and f["verb"] is None])
    # 3. failure cases
    whats = [k + d for k in ("missing", "missing-stem", "missing-substem", "bad-o", "bad-mode", "bad-log-level", "no-input", "unknown-scope", "unknown-scope-list")
             for d in ("", "+log<", "+log>", "+logdeep<", "+opts<", "+opts>")]
    for what in whats:
        c = {"kind": "failure", "what": what}
        r = oracle(c)
        if r:
            ctx.oracle_fail(c, r[0], r[1])
        ctx.count(("f", what), True, "failure")
