"""C13  Reads write nothing, writes touch only their target, failures destroy nothing."""
from __future__ import annotations

import copy
import hashlib
import itertools
import os
import shutil
from pathlib import Path

from harness import gen, native, wire

RULE = (
    "seeded directory trees (<= 8 dict files in 3 directory levels: native, Foam, JSON, XML, with include directives) x every "
    "operation (DictReader.read with option combinations, SDict.load, DictWriter.write in both modes to existing / new / "
    "nested-new targets, SDict.dump, DictParser.parse with the 2^4 x 5 x 3 option combinations) with a recursive snapshot "
    "(path, size, sha256, mtime_ns) before and after; the four serialisers with values that make them raise while the target "
    "exists; to_string on deep-copied arguments; create_target_file_name vs the Coq model; non-trivial = operation writes, "
    "fails, or reads a file with includes; distinct = distinct (tree, operation, options)"
)
ASSUMPTIONS = ["OS behaviour (mkdir, open, atomicity of a single write call, encodings) is not modelled: observed by the snapshot only",
               "the log file of the CLI is not part of this property"]
TRUSTED_BASE = ["hashlib / os.stat for the snapshot"]


_SHA: dict = {}


def snap(root: Path) -> dict:
    out = {}
    for p in sorted(root.rglob("*")):
        st = p.lstat()
        if p.is_file():
            # the digest is computed once per (path, inode, size, mtime_ns, ctime_ns): a file whose status is untouched is unchanged
            key = (str(p), st.st_ino, st.st_size, st.st_mtime_ns, st.st_ctime_ns)
            if key not in _SHA:
                if len(_SHA) > 20000:
                    _SHA.clear()
                _SHA[key] = hashlib.sha256(p.read_bytes()).hexdigest()
            out[str(p.relative_to(root))] = ("f", st.st_size, _SHA[key], st.st_mtime_ns)
        else:
            out[str(p.relative_to(root))] = ("d",)
    return out


def diff(a: dict, b: dict):
    created = sorted(k for k in b if k not in a)
    deleted = sorted(k for k in a if k not in b)
    changed = sorted(k for k in a if k in b and a[k] != b[k])
    return created, deleted, changed


def content_dict(rng, strkeys=False):
    return gen.dom_tree(rng, max_nodes=8, max_depth=2, int_keys=0.0 if strkeys else 0.1,
                        leaf=lambda r: _leaf(r))


def _leaf(rng):
    while True:
        v = gen.dom_scalar(rng)
        if isinstance(v, str) and ('"' in v or "'" in v):
            continue
        return v


def build_tree(rng, root: Path):
    dictIO = native.dictio()
    files = []
    dirs = [root, root / "d1", root / "d1" / "d2"]
    for d in dirs:
        d.mkdir(parents=True, exist_ok=True)
    n = rng.randrange(3, 8)
    for i in range(n):
        d = rng.choice(dirs)
        kind = rng.choice(["native", "native", "foam", "json", "xml"])
        ext = {"native": "", "foam": ".foam", "json": ".json", "xml": ".xml"}[kind]
        p = d / f"file{i}{ext}"
        c = content_dict(rng, strkeys=kind in ("json", "xml", "foam"))
        if kind == "xml":
            p.write_text("<root><a>1</a><b x='y'>text</b><c><d>2.5</d></c></root>")
        else:
            dictIO.DictWriter.write(c, p, mode="w")
        files.append((p, kind))
    # include directives between native files
    natives = [p for p, k in files if k == "native"]
    for p in natives:
        if rng.random() < 0.5 and len(natives) > 1:
            q = rng.choice([x for x in natives if x != p])
            rel = os.path.relpath(q, p.parent)
            p.write_text(f"#include '{rel}'\n" + p.read_text())
    # bystanders with the names a careless writer might use for scratch / backup copies of any target in this tree
    # (other endings of the same stem, the prefixed name): unrelated files of the user, they must survive every operation
    for d in (dirs + [root / "x1" / "x2"]) if rng.random() < 0.35 else []:      # in about a third of the trees
        d.mkdir(parents=True, exist_ok=True)
        for stem in [q.stem for q, _ in files if q.parent == d] + ["parsed", "brandnew", "deepnew", "new", "keepme", "casefile", "parsed.casefile"]:
            for ending in (".tmp", "~"):
                b = d / (stem + ending)
                if not b.exists():
                    b.write_text(f"bystander {stem}{ending}\n")
    return files


def to_string_cases(rng):
    dictIO = native.dictio()
    out = []
    for fm_name in ("NativeFormatter", "FoamFormatter", "JsonFormatter", "XmlFormatter"):
        d = content_dict(rng, strkeys=True)
        d = {k: v for k, v in d.items() if isinstance(k, str)}
        d["_private"] = 1
        d["nested"] = {"_p": 2, "q": [1, {"_r": 3}]}
        out.append((fm_name, d))
        # options given only in part (the documented way to override some defaults): they belong to the caller
        d2 = dict(copy.deepcopy(d), _xmlOpts=rng.choice([{"_rootTag": "Model"}, {"_nameSpaces": {"xs": "http://example.org/x"}}, {}, {"_rootAttributes": {"version": "1"}, "_rootTag": "r"}]))
        out.append((fm_name, d2))
    return out


class Boom:
    def __str__(self):
        raise RuntimeError("boom")

    def __deepcopy__(self, memo):
        return self


def failing_value(fmt: str):
    if fmt == "json":
        return {"a": {1, 2}}
    if fmt == "xml":
        return {"a b c": 1}
    if fmt == "xml-ns":
        return {"_xmlOpts": {"_nameSpaces": {}}, "a": 1}
    return {"a": Boom()}


def name_oracle(case: dict):
    """create_target_file_name against the documented derivation: same directory, scope suffix, prefix once, extension"""
    dictIO = native.dictio()
    name, prefix, scope, output = case["name"], case["prefix"], case["scope"], case["output"]
    try:
        r = dictIO.create_target_file_name(Path("/some/dir") / name, prefix=prefix, scope=scope or None, output=output)
    except Exception as e:  # noqa: BLE001
        return ("name-raises", f"create_target_file_name({name!r}, prefix={prefix!r}, scope={scope!r}, output={output!r}) raised {type(e).__name__}: {e}")
    if r.parent != Path("/some/dir"):
        return ("name-dir", f"create_target_file_name({name!r}, scope={scope!r}) left the source directory: {r}")
    exp_name = spec_target_name(name, prefix, scope, output)
    if r.name != exp_name:
        return ("name-wrong", f"create_target_file_name({name!r}, prefix={prefix!r}, scope={scope!r}, output={output!r}) = {r.name!r}, expected {exp_name!r}")
    r2 = dictIO.create_target_file_name(r, prefix=prefix, scope=None, output=None)
    if prefix == "parsed" and not scope and r2 != r and not output:
        return ("name-prefix-twice", f"prefix applied twice: {r.name} -> {r2.name}")
    return None


def oracle(case: dict):
    if case.get("op") == "name":
        return name_oracle(case)
    dictIO = native.dictio()
    rng_seed = case["seed"]
    import random

    rng = random.Random(rng_seed)
    tmp = native.scratch_dir("c13_")
    try:
        root = tmp / "t"
        root.mkdir()
        files = build_tree(rng, root)
        op = case["op"]
        idx = case["file"] % len(files)
        target, kind = files[idx]
        before = snap(root)
        cwd = os.getcwd()
        if op == "read":
            try:
                dictIO.DictReader.read(target, **case["opts"])
            except SystemExit:
                pass
            except Exception as e:  # noqa: BLE001
                if kind == "xml" or isinstance(e, (KeyError, IndexError, ValueError, TypeError)):
                    pass
                else:
                    return ("raises", f"read raised {type(e).__name__}: {e}")
            after = snap(root)
            if after != before:
                return ("read-writes", f"reading {target.relative_to(root)} changed the tree: {diff(before, after)}")
            return None
        if op == "parse-link":
            # the source handed to parse() is a symbolic link to a dict file (in another folder, or next to versioned files):
            # the target is derived from the name and the folder of the source AS GIVEN, and only it is touched
            natives = [q for q, k in files if k == "native"]
            if not natives:
                return None
            dest = natives[case["file"] % len(natives)]
            link = root / case["linkdir"] / case["linkname"]
            link.parent.mkdir(parents=True, exist_ok=True)
            if link.exists() or link.is_symlink():
                return None
            os.symlink(os.path.relpath(dest, link.parent), link)
            before = snap(root)
            try:
                dictIO.DictParser.parse(link, mode=case["mode"], output=case["output"])
            except Exception as e:  # noqa: BLE001
                after = snap(root)
                return None if after == before else ("clobber", f"parse of a link raised {type(e).__name__} and changed {diff(before, after)}")
            after = snap(root)
            created, deleted, changed = diff(before, after)
            exp = link.parent / spec_target_name(link.name, "parsed", [], case["output"])
            rel = str(exp.relative_to(root))
            touched = sorted(set(created) | set(changed))
            if deleted or touched != [rel]:
                return ("parse-touches-others", f"parse({link.relative_to(root)} -> {dest.relative_to(root)}, output={case['output']!r}) touched {touched}, deleted {deleted}; expected exactly {rel}")
            return None
        if op == "dump-rel":
            # a dict that lives elsewhere (loaded from a file in another folder, or built before a change of directory) is
            # dumped to a RELATIVE target: the requested target is <working directory>/<name>, and nothing else is touched
            natives = [q for q, k in files if k == "native"]
            src = natives[case["file"] % len(natives)] if natives else None
            wd = root / case["cwd"]
            wd.mkdir(parents=True, exist_ok=True)
            name = case["name"]
            try:
                if src is not None and case["how"] == "loaded":
                    sd = dictIO.SDict().load(src)
                else:
                    os.chdir(root / "d1")
                    sd = dictIO.SDict({"a": 1, "b": {"c": 2}})
                before = snap(root)
                os.chdir(wd)
                sd.dump(Path(name))
            except Exception as e:  # noqa: BLE001
                os.chdir(cwd)
                return ("raises", f"dump to the relative target {name} raised {type(e).__name__}: {e}")
            os.chdir(cwd)
            after = snap(root)
            created, deleted, changed = diff(before, after)
            rel = os.path.normpath(os.path.join(case["cwd"], name))
            touched = sorted(x for x in set(created) | set(changed) if after[x][0] == "f")
            if deleted or touched != [rel]:
                return ("write-touches-others", f"dump({name!r}) from working directory {case['cwd']!r} of a dict that lives in "
                                                f"{src.parent.relative_to(root) if src is not None and case['how'] == 'loaded' else 'd1 (built there)'}: touched {touched}, deleted {deleted}; expected exactly {rel}")
            return None
        if op == "load":
            try:
                dictIO.SDict().load(target)
            except Exception:  # noqa: BLE001
                pass
            after = snap(root)
            if after != before:
                return ("read-writes", f"load({target.relative_to(root)}) changed the tree: {diff(before, after)}")
            return None
        if op in ("write", "dump"):
            where = case["where"]
            fmt = case["fmt"]
            ext = {"native": "", "foam": ".foam", "json": ".json", "xml": ".xml"}[fmt]
            if where == "existing":
                cand = [p for p, k in files if k == fmt]
                tgt = cand[0] if cand else root / f"new{ext}"
            elif where == "new":
                tgt = root / "d1" / f"brandnew{ext}"
            else:
                tgt = root / "x1" / "x2" / f"deepnew{ext}"
            d = content_dict(rng, strkeys=fmt in ("json", "xml", "foam"))
            d = {k: v for k, v in d.items() if isinstance(k, str)} if fmt in ("json", "xml") else d
            try:
                if op == "write":
                    dictIO.DictWriter.write(copy.deepcopy(d), tgt, mode=case["mode"])
                else:
                    dictIO.SDict(copy.deepcopy(d)).dump(tgt)
            except Exception as e:  # noqa: BLE001
                return ("raises", f"{op} to {tgt.relative_to(root)} raised {type(e).__name__}: {e}")
            after = snap(root)
            created, deleted, changed = diff(before, after)
            rel = str(tgt.relative_to(root))
            new_files = [c for c in created if after[c][0] == "f"]
            new_dirs = [c for c in created if after[c][0] == "d"]
            allowed_dirs = {str(p.relative_to(root)) for p in tgt.parents if p != root and root in p.parents}
            if deleted or [c for c in changed if c != rel] or [c for c in new_files if c != rel] or any(dn not in allowed_dirs for dn in new_dirs):
                return ("write-touches-others", f"{op} to {rel}: created {created}, deleted {deleted}, changed {changed}")
            if rel not in after:
                return ("write-missing", f"{op} to {rel} did not create the target")
            return None
        if op == "write-again":
            # histories in one process: (a) a write into a folder that does not exist yet, the folder is removed, the same write
            # again; (b) the same RELATIVE target from two working directories.  Every write creates its missing parents.
            fmt = case["fmt"]
            ext = {"native": "", "foam": ".foam", "json": ".json", "xml": ".xml"}[fmt]
            d = {k: v for k, v in content_dict(rng, strkeys=True).items() if isinstance(k, str)}

            def put(tgt):
                if case.get("dump"):
                    dictIO.SDict(copy.deepcopy(d)).dump(tgt)
                else:
                    dictIO.DictWriter.write(copy.deepcopy(d), tgt, mode=case["mode"])
            try:
                if case["how"] == "removed":
                    tgt = root / "out_new" / "run" / f"result{ext}"
                    for rnd in (1, 2, 3):
                        put(tgt)
                        if not tgt.is_file():
                            return ("write-missing", f"write no. {rnd} into the (re)moved folder {tgt.parent.relative_to(root)} did not create the target")
                        shutil.rmtree(root / "out_new")
                else:
                    for cw in ("case_1", "case_2", "case_1/sub"):
                        (root / cw).mkdir(parents=True, exist_ok=True)
                        os.chdir(root / cw)
                        put(Path("results") / f"summary{ext}")
                        if not (root / cw / "results" / f"summary{ext}").is_file():
                            return ("write-missing", f"relative target results/summary{ext} written from cwd {cw} was not created there")
            except Exception as e:  # noqa: BLE001
                return ("raises", f"{case['how']}: write raised {type(e).__name__}: {e}")
            finally:
                os.chdir(cwd)
            return None
        if op == "parse":
            o = case["opts"]
            natives = [p for p, k in files if k == "native"]
            src = natives[idx % len(natives)] if natives else None
            if src is None:
                return None
            (src.parent / ("parsed." + src.name)).write_text("old  1;\n") if case.get("preexisting") else None
            o = dict(o)
            if o.get("scope") == ["<existing>"]:
                # a scope that exists in this source: the first top-level key that holds a dict
                try:
                    top = dictIO.DictReader.read(src)
                    dk = [k for k, v in top.items() if isinstance(v, dict) and not (isinstance(k, str) and ("COMMENT" in k or "INCLUDE" in k))]
                except Exception:  # noqa: BLE001
                    dk = []
                o["scope"] = [dk[0]] if dk else None
            scope_before = copy.deepcopy(o.get("scope"))
            exp_name = spec_target_name(src.name, "parsed", scope_before or [], o.get("output"))
            before = snap(root)
            try:
                dictIO.DictParser.parse(src, **o)
            except SystemExit:
                after = snap(root)
                return None if after == before else ("parse-writes-on-exit", f"parse exited but changed {diff(before, after)}")
            except Exception as e:  # noqa: BLE001
                # a dict that the requested output format cannot express (e.g. keys that are no XML names):
                # a failing serialisation must leave everything as it was
                after = snap(root)
                if after != before:
                    return ("clobber", f"parse({src.relative_to(root)}, {o}) raised {type(e).__name__} and changed {diff(before, after)}")
                return None
            after = snap(root)
            created, deleted, changed = diff(before, after)
            exp = src.parent / exp_name          # independent of the implementation's own name helper
            rel = str(exp.relative_to(root))
            if o.get("scope") != scope_before:
                return ("parse-modifies-argument", f"parse({src.relative_to(root)}, scope={scope_before}) changed the caller's scope list to {o.get('scope')}")
            touched = sorted(set(created) | set(changed))
            if deleted or touched != [rel]:
                return ("parse-touches-others", f"parse({src.relative_to(root)}, {o}) touched {touched}, deleted {deleted}; expected exactly {rel}")
            if exp.parent != src.parent:
                return ("parse-name", f"target {rel} is not in the source's directory")
            return None
        if op == "fail-parse":
            # the parse route: a source whose content the XML serialiser cannot express (a key that is no XML name), the
            # derived target exists already (the result of an earlier run): the failure must leave everything as it was
            src = root / ("casefile.json" if case["json"] else "casefile")
            src.write_text('{"my key": 1, "ok": {"b c": 2, "fine": 3}}' if case["json"] else "7 seven;\nok { 8 eight; fine 3; }\n")
            scope = ["ok"] if case["scoped"] else None
            tgt = root / spec_target_name(src.name, "parsed", scope or [], "xml")
            tgt.write_text("<r><precious>1</precious></r>")
            (root / ("parsed." + src.name)).write_text("precious  1;\n")
            before = snap(root)
            raised = False
            try:
                dictIO.DictParser.parse(src, output="xml", mode=case["mode"], scope=scope)
            except Exception:  # noqa: BLE001
                raised = True
            after = snap(root)
            if not raised:
                return None
            if after != before:
                return ("clobber", f"parse({src.name}, output='xml', mode={case['mode']!r}, scope={scope}) failed but the tree changed: {diff(before, after)}")
            return None
        if op == "fail":
            fmt = case["fmt"]
            ext = {"native": "", "foam": ".foam", "json": ".json", "xml": ".xml", "xml-ns": ".xml"}[fmt]
            tgt = root / f"keepme{ext}"
            tgt.write_text("precious  1;\n" if fmt in ("native", "foam") else ('{"precious": 1}' if fmt == "json" else "<r><precious>1</precious></r>"))
            before = snap(root)
            raised = False
            try:
                dictIO.DictWriter.write(failing_value(fmt), tgt, mode="w")
            except Exception:  # noqa: BLE001
                raised = True
            after = snap(root)
            if not raised:
                return None        # the value did not make the serialiser fail: nothing to check
            if after != before:
                return ("clobber", f"serialisation to {tgt.name} failed but the tree changed: {diff(before, after)}")
            return None
        if op == "tostring":
            for name, d in to_string_cases(rng):
                fm = getattr(dictIO, name)()
                for arg in (copy.deepcopy(d), dictIO.SDict(copy.deepcopy(d))):
                    ref = gen.plain(dict(arg))
                    try:
                        fm.to_string(arg)
                    except Exception as e:  # noqa: BLE001
                        return ("raises", f"{name}.to_string raised {type(e).__name__}: {e}")
                    if not gen.typed_eq(gen.plain(dict(arg)), ref):
                        return ("input-modified", f"{name}.to_string modified its argument ({type(arg).__name__})")
            # values as a read with NumPy expressions leaves them (arrays, NumPy scalars), tuples: compared with their TYPES
            # (a serialiser that cannot express one may raise; it may not convert it in the caller's dict)
            import numpy as np

            def fp(x):
                if isinstance(x, dict):
                    return ("dict", type(x).__name__, [(k, fp(v)) for k, v in x.items()])
                if isinstance(x, (list, tuple)):
                    return (type(x).__name__, [fp(v) for v in x])
                if isinstance(x, np.ndarray):
                    return ("ndarray", str(x.dtype), x.shape, x.tolist())
                return (type(x).__name__, repr(x))

            objs = [{"vector": np.array([2, 2, 2]), "n": 1}, {"sub": {"m": np.eye(2), "s": "x"}, "l": [np.ones(2), 1]},
                    {"scalar": np.float64(2.5), "i": np.int64(3)}, {"t": (1, 2), "deep": {"a": {"arr": np.arange(3)}}}]
            for name in ("NativeFormatter", "FoamFormatter", "JsonFormatter", "XmlFormatter"):
                for d in objs:
                    for arg in (copy.deepcopy(d), dictIO.SDict(copy.deepcopy(d))):
                        before = fp(arg)
                        try:
                            getattr(dictIO, name)().to_string(arg)
                        except Exception:  # noqa: BLE001
                            pass
                        if fp(arg) != before:
                            return ("input-modified", f"{name}.to_string modified its argument {before!r} -> {fp(arg)!r}")
            return None
        raise ValueError(op)
    finally:
        os.chdir(cwd) if "cwd" in dir() else None
        shutil.rmtree(tmp, ignore_errors=True)


KNOWN_PREDICATES = {}


def spec_target_name(name, prefix, scope, output) -> str:
    """documented derivation: same name, scope suffix, prefix applied once, extension chosen by the output format"""
    from pathlib import PurePosixPath

    pp = PurePosixPath(name)
    stem, suffix = pp.stem, pp.suffix
    if stem in ("parsed", prefix):
        base, ending = stem + suffix, ""
    else:
        base, ending = stem, suffix
    if scope:
        # the suffix names the keys; a path separator inside a key cannot be part of a file NAME (it is spelled '_')
        base += "_" + "_".join(str(k).replace("/", "_").replace("\\", "_") for k in scope)
    if prefix:
        pre = prefix[:-1] if prefix.endswith(".") else prefix
        if base.startswith(pre + "."):
            base = base[len(pre) + 1:]
        base = pre + "." + base
    if output:
        o = output if output in ("cpp", "foam", "json", "xml") else "cpp"
        ending = "" if o == "cpp" else "." + o
    return base + ending


def name_cases(rng, n):
    out = []
    stems = ["foo", "parsed", "parsed.foo", "a.b", ".hidden", "x.", "my dict", "parsed.parsed.x", "foo.json", "p", "parsedX", "parsed_foo.cpp"]
    for _ in range(n):
        name = rng.choice(stems) + rng.choice(["", "", ".foam", ".json", ".xml", ".dict"])
        prefix = rng.choice([None, "parsed", "parsed.", "", "out", "foo"])
        scope = rng.choice([[], ["a"], ["a", "b"], [1, "x"], ["a b"], ["a/b"], ["a/b", "c"], ["x\\y", 2], ["../up"]])
        output = rng.choice([None, "", "cpp", "foam", "json", "xml", "yaml"])
        out.append((name, prefix, scope, output))
    return out


def world_correspondence(ctx, rng, n):
    """the model's file-tree step (Reader.writer_run: serialise, then set the target; append reads the target only) against
    the directory the implementation leaves behind: every file, byte for byte (float literals re-spelled on both sides)"""
    import shutil

    from harness.props import c16
    dictIO = native.dictio()
    for i in range(n):
        fmt = "foam" if i % 3 == 2 else "native"
        tmp = native.scratch_dir("c13w_")
        try:
            target = tmp / ("target" + c16.EXT[fmt])
            by = {}
            for j in range(rng.randrange(0, 3)):
                nm = f"bystander{j}" + rng.choice(["", ".foam", ".txt"])
                by[str(tmp / nm)] = rng.choice(["k 1;\n", "", "free text, not a dict {\n", "a  'x';\n// c\n"])
            for pth, txt in by.items():
                Path(pth).write_text(txt)
            ops = []
            for _ in range(rng.randrange(1, 5)):
                ops.append((rng.choice([True, True, False]), c16.small_tree(rng, fmt=fmt)))
            ok = True
            for ap, d in ops:
                try:
                    dictIO.DictWriter.write(copy.deepcopy(d), target, mode="a" if ap else "w")
                except Exception:  # noqa: BLE001
                    ok = False
                    break
            if not ok:
                continue
            impl = {str(q): q.read_text() for q in sorted(tmp.iterdir()) if q.is_file()}
            line = (f"writer_run {wire.enc_bool(fmt == 'foam')} {wire.enc_str(str(target))} "
                    + wire.enc_list(sorted(by.items()), lambda kv: wire.enc_str(kv[0]) + " " + wire.enc_str(kv[1])) + " "
                    + wire.enc_list(ops, lambda o: wire.enc_bool(o[0]) + " " + wire.enc_tree(native.normalise(o[1]))))
            ml = wire.run_model([line])[0]
            ctx.corr_compared += 1
            try:
                r = wire.Reader(ml)
                model = dict(r.list(lambda: (r.str(), r.str())))
            except Exception:  # noqa: BLE001
                model = {"<unparsed>": ml[:300]}
            canon = lambda w: {k: c16._canon_float_text(v) for k, v in w.items()}  # noqa: E731
            if canon(model) != canon(impl):
                bad = sorted(k for k in set(model) | set(impl) if canon(model).get(k) != canon(impl).get(k))
                ctx.disagree("writer_run (file tree after a write sequence)", {"op": "world", "fmt": fmt, "ops": ops, "bystanders": sorted(by.values())},
                             {k: model.get(k, "<absent>")[:400] for k in bad[:2]}, {k: impl.get(k, "<absent>")[:400] for k in bad[:2]})
            ctx.classes["world"] += 1
        finally:
            shutil.rmtree(tmp, ignore_errors=True)


def run(ctx):
    rng = ctx.rng
    dictIO = native.dictio()
    cases = []
    n = ctx.n(40, 900)
    for i in range(n):
        seed = rng.randrange(10**9)
        for opts in ({}, {"includes": False}, {"order": True, "comments": False}, {"scope": ["nope"]}):
            cases.append({"op": "read", "seed": seed, "file": rng.randrange(8), "opts": opts})
        cases.append({"op": "load", "seed": seed, "file": rng.randrange(8)})
        cases.append({"op": "parse-link", "seed": seed, "file": rng.randrange(8), "linkdir": rng.choice(["links", "d1", "."]), "linkname": rng.choice(["cfg", "setup_current", "l.dict"]),
                      "mode": rng.choice(["w", "a"]), "output": rng.choice([None, None, "json", "foam"])})
        cases.append({"op": "dump-rel", "seed": seed, "file": rng.randrange(8), "how": rng.choice(["loaded", "built"]), "cwd": rng.choice([".", "d1/d2", "x1"]),
                      "name": rng.choice(["relout", "out/copy.json", "k.dict", "file0"])})
        for fmt, where, mode in itertools.product(["native", "foam", "json", "xml"], ["existing", "new", "deep"], ["a", "w"]):
            if rng.random() < 0.25:
                cases.append({"op": "write", "seed": seed, "file": 0, "fmt": fmt, "where": where, "mode": mode})
        cases.append({"op": "dump", "seed": seed, "file": 0, "fmt": rng.choice(["native", "foam", "json", "xml"]), "where": rng.choice(["existing", "new", "deep"]), "mode": "a"})
        cases.append({"op": "write-again", "seed": seed, "file": 0, "fmt": rng.choice(["native", "foam", "json", "xml"]), "mode": rng.choice(["a", "w"]),
                      "how": rng.choice(["removed", "cwd"]), "dump": rng.random() < 0.25})
        for fmt in ("native", "foam", "json", "xml", "xml-ns"):
            cases.append({"op": "fail", "seed": seed, "file": 0, "fmt": fmt})
        cases.append({"op": "fail-parse", "seed": seed, "file": 0, "json": rng.random() < 0.5, "mode": rng.choice(["a", "w"]), "scoped": rng.random() < 0.5})
        cases.append({"op": "tostring", "seed": seed, "file": 0})
        combos = list(itertools.product((True, False), ("a", "w"), (True, False), (True, False), (None, "cpp", "foam", "xml", "json"), (None, ["nope"], [], ["<existing>"], ["<existing>"])))
        for inc, mode, order, com, out, scope in rng.sample(combos, 6 if ctx.tier == "quick" else 40):
            cases.append({"op": "parse", "seed": seed, "file": rng.randrange(8), "preexisting": rng.random() < 0.5,
                          "opts": {"includes": inc, "mode": mode, "order": order, "comments": com, "output": out, "scope": scope}})
    for c in cases:
        r = oracle(c)
        if r:
            ctx.oracle_fail(c, r[0], r[1])
        ctx.count(("c", repr(c)), c["op"] != "read" or not c["opts"], c["op"],
                  sample=c if len(ctx.samples) < 6 and c["op"] in ("parse", "fail", "write") else None)
    # create_target_file_name: implementation vs model
    ncs = name_cases(rng, ctx.n(600, 6000))
    mlines = []
    for name, prefix, scope, output in ncs:
        mlines.append(f"target_file_name {wire.enc_str(name)} {wire.enc_opt(prefix, wire.enc_str)} {wire.enc_list(scope, wire.enc_scalar)} {wire.enc_opt(output, wire.enc_str)}")
    mout = wire.run_model_sharded(mlines)
    for (name, prefix, scope, output), ml in zip(ncs, mout):
        c = {"op": "name", "name": name, "prefix": prefix, "scope": scope, "output": output}
        try:
            r = dictIO.create_target_file_name(Path("/some/dir") / name, prefix=prefix, scope=scope or None, output=output)
            il = wire.enc_str(str(r.relative_to("/some/dir")))
            v = name_oracle(c)
            if v:
                ctx.oracle_fail(c, v[0], v[1])
        except Exception as e:  # noqa: BLE001
            il = "raise " + type(e).__name__
        ctx.corr_compared += 1
        if ml != il:
            if len(ctx.disagreements) < 20:
                ctx.disagree("create_target_file_name", c, wire.Reader(ml).str() if ml.startswith("s") else ml, wire.uncps(il[1:]) if il.startswith("s") else il)
        ctx.count(("n", repr(c)), True, "name")
    world_correspondence(ctx, rng, ctx.n(60, 1200))
    for k in ("read", "write", "parse", "fail", "tostring", "name"):
        if ctx.classes[k] == 0:
            raise RuntimeError(f"generator starved: {k}")
