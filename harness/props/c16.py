"""C16  Append mode never loses what is already in the file; overwrite mode replaces it."""
from __future__ import annotations

import copy
import shutil

from harness import gen, native, wire
from harness.props import c07, c10, c15

RULE = (
    "seeded write sequences (<= 6 writes) to one target with modes drawn from a, w, x, '', A and overlapping nested dicts "
    "(shared key pool, one dict object placed under several keys, dict-vs-leaf conflicts, lists, int keys, strings that need quotes / get re-typed), in native, Foam and "
    "JSON format; after every write DictReader.read(target) is compared with the fold of first-wins merge / replacement kept "
    "by the harness, and (native, Foam) the file bytes with the Coq model's write step; non-trivial = sequence contains an "
    "append onto an existing file with overlapping keys; distinct = distinct (format, sequence)"
)
ASSUMPTIONS = ["value domain as in C01 / C10 (Foam: no double quotes, underscore keys dropped); JSON: string keys",
               "key order is not compared (association at every level)"]
TRUSTED_BASE = ["json.dumps / json.loads for the JSON route (stdlib)"]

KEYPOOL = ["a", "b", "c", "sub", "lst", "deep", 1, 2]


def small_tree(rng, depth=0, fmt="native"):
    d = {}
    for _ in range(rng.randrange(1, 5)):
        k = rng.choice(KEYPOOL)
        if fmt == "json" and not isinstance(k, str):
            k = f"n{k}"
        r = rng.random()
        if r < 0.3 and depth < 3:
            d[k] = small_tree(rng, depth + 1, fmt)
        elif r < 0.42:
            d[k] = [leaf(rng, fmt) for _ in range(rng.randrange(0, 4))]
        else:
            d[k] = leaf(rng, fmt)
    return d


def leaf(rng, fmt):
    while True:
        v = gen.dom_scalar(rng)
        if fmt == "foam" and isinstance(v, str) and '"' in v:
            continue
        if fmt == "json" and isinstance(v, float) and v != v:
            continue
        return v


def merge_spec(a, b):
    out = copy.deepcopy(a)
    for k, v in b.items():
        if k in out and isinstance(out[k], dict) and isinstance(v, dict):
            out[k] = merge_spec(out[k], v)
        elif k not in out:
            out[k] = copy.deepcopy(v)
    return out


def source_dict(case, i):
    """the dict handed to write i: case["alias"][i] = [(k1, k2), ...] makes d[k2] the very same object as d[k1]
    (sections sharing one settings dict: ordinary Python, invisible in the repr of the dict)"""
    d = copy.deepcopy(case["seq"][i][0])
    for k1, k2 in (case.get("alias") or {}).get(i, []):
        if k1 in d:
            d[k2] = d[k1]
    return d


def spec_fold(case, fmt):
    # a JSON target may exist before the first write, written by hand / another tool: its strings are data as they are
    state = copy.deepcopy(case["initial"]) if case.get("initial") is not None else None
    states = []
    for i, (_, mode) in enumerate(case["seq"]):
        if i in (case.get("reread") or {}) and state is not None:
            # the source is what was read from the target, minus some keys: appending it changes nothing
            states.append(copy.deepcopy(state))
            continue
        dn = native.normalise(copy.deepcopy(source_dict(case, i)))
        if fmt == "foam":
            dn = c10.strip_us_spec(dn)
        if mode == "a" and state is not None:
            state = merge_spec(state, dn)
        else:
            state = dn
        states.append(copy.deepcopy(state))
    return states


EXT = {"native": "", "foam": ".foam", "json": ".json"}
KEYS_JSON = ["id", "code", "ver", "tag"]


def include_seq_oracle(case: dict):
    """a target that carries an #include (written from an SDict on which include() was called): appends keep what the file
    has through its include as well, and the directive itself"""
    dictIO = native.dictio()
    fmt = case["fmt"]
    tmp = native.scratch_dir("c16i_")
    try:
        param = tmp / ("param" + EXT[fmt])
        dictIO.DictWriter.write(copy.deepcopy(case["param"]), param, mode="w")
        target = tmp / ("target" + EXT[fmt])
        try:
            a = dictIO.SDict(target)
            a.update(copy.deepcopy(case["first"]))
            a.include(dictIO.DictReader.read(param))
            dictIO.DictWriter.write(a, target, mode="w")
            state = merge_spec(native.normalise(copy.deepcopy(case["first"])), native.normalise(copy.deepcopy(case["param"])))
            for i, d in enumerate(case["appends"]):
                dictIO.DictWriter.write(copy.deepcopy(d), target, mode="a")
                state = merge_spec(state, native.normalise(copy.deepcopy(d)))
                got = native.strip_placeholders(gen.plain(dict(dictIO.DictReader.read(target))), kinds=("BLOCKCOMMENT", "LINECOMMENT", "INCLUDE"))
                got.pop("FoamFile", None) if fmt == "foam" else None
                if not c15.assoc_eq(got, state):
                    return ("content", f"target with an include, after append {i}: the file reads {got!r}, expected {state!r}")
                if "include" not in target.read_text():
                    return ("content", f"target with an include, after append {i}: the include directive is gone from the file")
        except Exception as e:  # noqa: BLE001
            return ("raises", f"include sequence raised {type(e).__name__}: {e}")
        return None
    finally:
        shutil.rmtree(tmp, ignore_errors=True)


def oracle(case: dict):
    if case.get("kind") == "include-seq":
        return include_seq_oracle(case)
    dictIO = native.dictio()
    fmt, seq = case["fmt"], case["seq"]
    exp = spec_fold(case, fmt)
    tmp = native.scratch_dir("c16_")
    try:
        target = tmp / ("target" + EXT[fmt])
        if case.get("initial") is not None:
            import json as _json

            target.write_text(_json.dumps(case["initial"], indent=2))
        for i, (d, mode) in enumerate(seq):
            try:
                if i in (case.get("reread") or {}) and target.exists():
                    # read-modify-append: the SDict read from the target (bound to it) loses keys and is appended back
                    src = dictIO.DictReader.read(target)
                    for k in case["reread"][i]:
                        src.pop(k, None)
                    dictIO.DictWriter.write(src, target, mode="a")
                else:
                    dictIO.DictWriter.write(source_dict(case, i), target, mode=mode)
                got = gen.plain(dict(dictIO.DictReader.read(target)))
            except Exception as e:  # noqa: BLE001
                return ("raises", f"write {i} (mode {mode!r}) / read raised {type(e).__name__}: {e}")
            got = native.strip_placeholders(got)
            got.pop("FoamFile", None) if fmt == "foam" else None
            if not c15.assoc_eq(got, exp[i]):
                return ("content", f"after write {i} (mode {mode!r}) the file reads {got!r}, expected {exp[i]!r}")
        return None
    finally:
        shutil.rmtree(tmp, ignore_errors=True)


def shrink(case):
    if case.get("kind") == "include-seq":
        return
    seq = case["seq"]
    al = case.get("alias") or {}
    for i in range(len(seq)):
        if not any(j >= i for j in al):
            if not case.get("reread"):
                yield {"fmt": case["fmt"], "seq": seq[:i] + seq[i + 1:], "alias": al, "initial": case.get("initial")}
    for i, (d, m) in enumerate(seq):
        for d2 in gen.shrink_tree(d):
            yield {"fmt": case["fmt"], "seq": seq[:i] + [(d2, m)] + seq[i + 1:], "alias": al, "reread": case.get("reread") or {}, "initial": case.get("initial")}


KNOWN_PREDICATES = {}


def model_bytes(ctx, cases):
    """native / Foam: the bytes of the file after every write, model vs implementation.
    The source dict is handed to the model with its strings already typed by CPython (a float read from a string is
    re-spelled by repr(), which the literal-carrying model cannot know; parse_value itself is C04's business)."""
    dictIO = native.dictio()
    for c in cases:
        fmt = c["fmt"]
        if fmt == "json" or c.get("reread"):
            continue
        tmp = native.scratch_dir("c16m_")
        try:
            target = tmp / ("target" + EXT[fmt])
            mtext = None
            for i, (_, mode) in enumerate(c["seq"]):
                d = source_dict(c, i)
                try:
                    dictIO.DictWriter.write(source_dict(c, i), target, mode=mode)
                    itext = target.read_text()
                except Exception as e:  # noqa: BLE001
                    itext = None
                line = (f"write_text {wire.enc_bool(fmt == 'foam')} {wire.enc_str(str(target))} "
                        f"{wire.enc_opt(mtext, wire.enc_str)} {wire.enc_bool(mode == 'a')} {wire.enc_tree(native.normalise(d))}")
                ml = wire.run_model([line])[0]
                ctx.corr_compared += 1
                if ml.startswith("ok "):
                    mtext_new = wire.Reader(ml[3:]).str()
                else:
                    mtext_new = None
                if itext is None or mtext_new is None:
                    if (itext is None) != (mtext_new is None):
                        ctx.disagree("write step", {"fmt": fmt, "seq": c["seq"][: i + 1], "alias": c.get("alias")}, ml[:300], "raise" if itext is None else itext[:300])
                    break
                if _canon_float_text(mtext_new) != _canon_float_text(itext):
                    ctx.disagree("write step bytes", {"fmt": fmt, "seq": c["seq"][: i + 1], "alias": c.get("alias")}, mtext_new[:1500], itext[:1500])
                    break
                mtext = itext
        finally:
            shutil.rmtree(tmp, ignore_errors=True)


def _canon_float_text(t: str) -> str:
    """the model carries float literals as read; CPython re-spells them with repr: compare token-wise through float()"""
    import re

    def fix(m):
        try:
            return repr(float(m.group(0)))
        except ValueError:
            return m.group(0)
    return re.sub(r"(?<![\w.'\"])[+-]?(\d+\.\d*|\.\d+|\d+)([eE][+-]?\d+)?(?![\w.'\"])", lambda m: fix(m) if ("." in m.group(0) or "e" in m.group(0).lower()) else m.group(0), t)


def run(ctx):
    rng = ctx.rng
    cases = []
    for i in range(ctx.n(300, 9000)):
        fmt = ["native", "foam", "json"][i % 3]
        seq = []
        for j in range(rng.randrange(1, 7)):
            mode = rng.choice(["a", "a", "a", "w", "w", "x", "", "A"])
            d = small_tree(rng, fmt=fmt)
            if rng.random() < 0.1:
                d = {} if fmt != "foam" or rng.random() < 0.5 else {"_meta": {"a": 1}, "_tag": 7}     # nothing (public) to write
            seq.append((d, mode))
        alias = {}
        for j, (d, mode) in enumerate(seq):
            subs = [k for k, v in d.items() if isinstance(v, dict)]
            if subs and rng.random() < 0.35:
                k1 = rng.choice(subs)
                others = [k for k in KEYPOOL if k != k1 and (fmt != "json" or isinstance(k, str))]
                alias[j] = [(k1, k2) for k2 in rng.sample(others, rng.randrange(1, 3))]
        reread = {}
        if len(seq) >= 2 and rng.random() < 0.3:
            j = rng.randrange(1, len(seq))
            seq[j] = (seq[j][0], "a")
            reread[j] = rng.sample([k for k in KEYPOOL if fmt != "json" or isinstance(k, str)], rng.randrange(1, 4))
        cases.append({"fmt": fmt, "seq": seq, "alias": alias, "reread": reread})
        if fmt == "json" and i % 2 == 0:
            # an existing JSON file holding strings that spell numbers / booleans / null, or carry quote characters: appending
            # must leave them exactly as they are
            pool = ["007", "2.10", "false", "null", "0150", "1e5", "'q'", "00123", " 12 ", "True"]
            initial = {rng.choice(KEYS_JSON): rng.choice(pool), "serial": rng.choice(pool), "deep": {"zip": rng.choice(pool), "l": [rng.choice(pool), "x"]}}
            cases[-1] = dict(cases[-1], initial=initial, reread={})
    # skeleton first, content later: the file holds EMPTY dicts (at the top, nested, arriving in an append) that later appends fill
    for i in range(ctx.n(12, 120)):
        fmt = ["native", "foam", "json"][i % 3]
        k1, k2 = rng.sample(["settings", "parts", "mesh", "solver"], 2)
        skeleton = {k1: {}, k2: {"hull": {}, "n": 1}}
        fill1 = {k1: {"steps": 100 + i, "sub": {}}, k2: {"hull": {"length": 120}}}
        fill2 = {k1: {"sub": {"tol": 0.5}}, "late": {}}
        fill3 = {"late": {"x": 1}}
        seq = [(skeleton, "w"), (fill1, "a"), (fill2, "a"), (fill3, "a")][: rng.randrange(2, 5)]
        cases.append({"fmt": fmt, "seq": seq, "alias": {}, "reread": {}})
    # a list is a leaf for the merge: lists that hold dicts (or lists of dicts) on both sides keep the file's list as it is
    for i in range(ctx.n(12, 120)):
        fmt = ["native", "foam", "json"][i % 3]
        first = {"patches": [{"id": 1, "kind": "wall"}, {"id": 2}], "grid": {"rows": [[{"a": 1}], [{"b": 2}]], "n": 2}}
        second = {"patches": [{"id": 9, "u": 1.5}, {"kind": "outlet"}, {"extra": True}], "grid": {"rows": [[{"a": 5, "z": 0}], [{"c": 3}]], "m": 1}, "late": i}
        cases.append({"fmt": fmt, "seq": [(first, "w"), (second, "a")] + ([({"patches": [], "late": 0}, "a")] if i % 2 else []), "alias": {}, "reread": {}})
    for c in cases:
        r = oracle(c)
        if r:
            ctx.oracle_fail(c, r[0], r[1])
        modes = [m for _, m in c["seq"]]
        nt = any(m == "a" and i > 0 for i, m in enumerate(modes))
        ctx.count(("s", repr(c)), nt, c["fmt"], sample={"fmt": c["fmt"], "modes": modes, "first": c["seq"][0][0]} if nt and len(ctx.samples) < 4 else None)
        for m in modes:
            ctx.classes["mode:" + repr(m)] += 1
        if c["alias"]:
            ctx.classes["shared sub-dict object"] += 1
    # targets that carry an include
    for i in range(ctx.n(30, 600)):
        fmt = ["native", "foam", "json"][i % 3]
        c = {"kind": "include-seq", "fmt": fmt, "param": {"paramA": 11, "shared": {"fromParam": 12}, "pz": "two words"},
             "first": {"own": 1, "shared": {"mine": 2}}, "appends": [{"late": i, "shared": {"x": 3}}, {"paramA": 97, "more": {"y": 1}}][: rng.randrange(1, 3)]}
        r = oracle(c)
        if r:
            ctx.oracle_fail(c, r[0], r[1])
        ctx.count(("is", fmt, len(c["appends"]), i), True, "include-seq:" + fmt)
    model_bytes(ctx, cases[: ctx.n(120, 1500)])
    for f in ("native", "foam", "json"):
        if ctx.classes[f] == 0:
            raise RuntimeError("generator starved")
