"""C16  Append mode never loses what is already in the file; overwrite mode replaces it."""
from __future__ import annotations

import copy
import shutil

from harness import gen, native, wire
from harness.props import c07, c10, c15

RULE = (
    "seeded write sequences (<= 6 writes) to one target with modes drawn from a, w, x, '', A and overlapping nested dicts "
    "(shared key pool, dict-vs-leaf conflicts, lists, int keys, strings that need quotes / get re-typed), in native, Foam and "
    "JSON format; after every write DictReader.read(target) is compared with the fold of first-wins merge / replacement kept "
    "by the harness, and (native, Foam) the file bytes with the Coq model's write step; non-trivial = sequence contains an "
    "append onto an existing file with overlapping keys; distinct = distinct (format, sequence)"
)
ASSUMPTIONS = ["value domain as in C01 / C10 (Foam: no double quotes, underscore keys dropped); JSON: string keys",
               "key order is not compared (association at every level)"]
TRUSTED_BASE = ["json.dumps / json.loads for the JSON route (stdlib)"]

KEYPOOL = ["a", "b", "c", "sub", "lst", "deep", 1, 2]


def small_tree(rng, depth=0, fmt="native"):
    d = {}
    for _ in range(rng.randrange(1, 5)):
        k = rng.choice(KEYPOOL)
        if fmt == "json" and not isinstance(k, str):
            k = f"n{k}"
        r = rng.random()
        if r < 0.3 and depth < 3:
            d[k] = small_tree(rng, depth + 1, fmt)
        elif r < 0.42:
            d[k] = [leaf(rng, fmt) for _ in range(rng.randrange(0, 4))]
        else:
            d[k] = leaf(rng, fmt)
    return d


def leaf(rng, fmt):
    while True:
        v = gen.dom_scalar(rng)
        if fmt == "foam" and isinstance(v, str) and '"' in v:
            continue
        if fmt == "json" and isinstance(v, float) and v != v:
            continue
        return v


def merge_spec(a, b):
    out = copy.deepcopy(a)
    for k, v in b.items():
        if k in out and isinstance(out[k], dict) and isinstance(v, dict):
            out[k] = merge_spec(out[k], v)
        elif k not in out:
            out[k] = copy.deepcopy(v)
    return out


def spec_fold(seq, fmt):
    state = None
    states = []
    for d, mode in seq:
        dn = native.normalise(d)
        if fmt == "foam":
            dn = c10.strip_us_spec(dn)
        if mode == "a" and state is not None:
            state = merge_spec(state, dn)
        else:
            state = dn
        states.append(copy.deepcopy(state))
    return states


EXT = {"native": "", "foam": ".foam", "json": ".json"}


def oracle(case: dict):
    dictIO = native.dictio()
    fmt, seq = case["fmt"], case["seq"]
    exp = spec_fold(seq, fmt)
    tmp = native.scratch_dir("c16_")
    try:
        target = tmp / ("target" + EXT[fmt])
        for i, (d, mode) in enumerate(seq):
            try:
                dictIO.DictWriter.write(copy.deepcopy(d), target, mode=mode)
                got = gen.plain(dict(dictIO.DictReader.read(target)))
            except Exception as e:  # noqa: BLE001
                return ("raises", f"write {i} (mode {mode!r}) / read raised {type(e).__name__}: {e}")
            got = native.strip_placeholders(got)
            got.pop("FoamFile", None) if fmt == "foam" else None
            if not c15.assoc_eq(got, exp[i]):
                return ("content", f"after write {i} (mode {mode!r}) the file reads {got!r}, expected {exp[i]!r}")
        return None
    finally:
        shutil.rmtree(tmp, ignore_errors=True)


def shrink(case):
    seq = case["seq"]
    for i in range(len(seq)):
        yield {"fmt": case["fmt"], "seq": seq[:i] + seq[i + 1:]}
    for i, (d, m) in enumerate(seq):
        for d2 in gen.shrink_tree(d):
            yield {"fmt": case["fmt"], "seq": seq[:i] + [(d2, m)] + seq[i + 1:]}


KNOWN_PREDICATES = {"C01-literal-overlap": lambda case, f: any(__import__("harness.props.c01", fromlist=["x"]).literal_overlap(d) for d, _ in case["seq"])}


def model_bytes(ctx, cases):
    """native / Foam: the bytes of the file after every write, model vs implementation.
    The source dict is handed to the model with its strings already typed by CPython (a float read from a string is
    re-spelled by repr(), which the literal-carrying model cannot know; parse_value itself is C04's business)."""
    dictIO = native.dictio()
    for c in cases:
        fmt = c["fmt"]
        if fmt == "json":
            continue
        tmp = native.scratch_dir("c16m_")
        try:
            target = tmp / ("target" + EXT[fmt])
            mtext = None
            for i, (d, mode) in enumerate(c["seq"]):
                try:
                    dictIO.DictWriter.write(copy.deepcopy(d), target, mode=mode)
                    itext = target.read_text()
                except Exception as e:  # noqa: BLE001
                    itext = None
                line = (f"write_text {wire.enc_bool(fmt == 'foam')} {wire.enc_str(str(target))} "
                        f"{wire.enc_opt(mtext, wire.enc_str)} {wire.enc_bool(mode == 'a')} {wire.enc_tree(native.normalise(d))}")
                ml = wire.run_model([line])[0]
                ctx.corr_compared += 1
                if ml.startswith("ok "):
                    mtext_new = wire.Reader(ml[3:]).str()
                else:
                    mtext_new = None
                if itext is None or mtext_new is None:
                    if (itext is None) != (mtext_new is None):
                        ctx.disagree("write step", {"fmt": fmt, "seq": c["seq"][: i + 1]}, ml[:300], "raise" if itext is None else itext[:300])
                    break
                if _canon_float_text(mtext_new) != _canon_float_text(itext):
                    ctx.disagree("write step bytes", {"fmt": fmt, "seq": c["seq"][: i + 1]}, mtext_new[:1500], itext[:1500])
                    break
                mtext = itext
        finally:
            shutil.rmtree(tmp, ignore_errors=True)


def _canon_float_text(t: str) -> str:
    """the model carries float literals as read; CPython re-spells them with repr: compare token-wise through float()"""
    import re

    def fix(m):
        try:
            return repr(float(m.group(0)))
        except ValueError:
            return m.group(0)
    return re.sub(r"(?<![\w.'\"])[+-]?(\d+\.\d*|\.\d+|\d+)([eE][+-]?\d+)?(?![\w.'\"])", lambda m: fix(m) if ("." in m.group(0) or "e" in m.group(0).lower()) else m.group(0), t)


def run(ctx):
    rng = ctx.rng
    cases = []
    for i in range(ctx.n(300, 9000)):
        fmt = ["native", "foam", "json"][i % 3]
        seq = []
        for j in range(rng.randrange(1, 7)):
            mode = rng.choice(["a", "a", "a", "w", "w", "x", "", "A"])
            seq.append((small_tree(rng, fmt=fmt), mode))
        cases.append({"fmt": fmt, "seq": seq})
    for c in cases:
        r = oracle(c)
        if r:
            ctx.oracle_fail(c, r[0], r[1])
        modes = [m for _, m in c["seq"]]
        nt = any(m == "a" and i > 0 for i, m in enumerate(modes))
        ctx.count(("s", repr(c)), nt, c["fmt"], sample={"fmt": c["fmt"], "modes": modes, "first": c["seq"][0][0]} if nt and len(ctx.samples) < 4 else None)
        for m in modes:
            ctx.classes["mode:" + repr(m)] += 1
    model_bytes(ctx, cases[: ctx.n(120, 1500)])
    for f in ("native", "foam", "json"):
        if ctx.classes[f] == 0:
            raise RuntimeError("generator starved")
