"""C08  Results do not depend on working directory, path spelling or earlier operations."""
from __future__ import annotations

import copy
import itertools
import os
import shutil
from pathlib import Path

from harness import gen, native, wire
from harness.props import c07

RULE = (
    "a pool of 4 dict files (native with comments / include / expressions, included native file, JSON, Foam) in a 3-level "
    "directory tree; every interleaving of read / write / parse / load / dump / reset of length <= 2 (quick) or <= 3 "
    "(thorough) plus seeded random interleavings up to length 12 as prefix, followed by an observed operation (read, "
    "read(order=True), write, parse, parse(order=True), dump+load) executed from every directory of the tree with relative "
    "and absolute path spelling and with the global counter preset to -1, 5, 999990 .. 999999; canonical (placeholder-id "
    "independent) data and written bytes are compared with a reference run from a fresh state; non-trivial = non-empty "
    "prefix, foreign cwd or a counter value that wraps inside the operation; distinct = distinct (prefix, cwd, spelling, "
    "counter, observed operation)"
)
ASSUMPTIONS = ["placeholder ids are compared up to renaming by first occurrence (they are an internal numbering)",
               "process-global state other than BorgCounter / DejaVue (logging configuration) is ignored"]
TRUSTED_BASE = ["os.chdir / pathlib for the working-directory dimension"]

F1 = """/* header of f1 */
#include 'sub/inc'
#include 'sub/inc2'
// first comment
// ----
alpha  3;
// ----
beta  "$alpha + $gamma";
strv  'two words'; // trailing comment
nested
{
    // nested comment
    // ----
    z  1;
    // ----
    a  $alpha;
    lst (1 2 'x y');
}
// last comment
Zkey  true;
bkey  'b';
"""
INC = "// first comment\ngamma  4;\n// comment in include\nnested { fromInc 5; }\nshared  1;\n"      # shares its first comment with f1
INC2 = "// comment in include two\ngamma  40;\nshared  2;\nonlyTwo  22;\nexprTwo  \"$onlyTwo + 1\"; // trailing in two\n"
F2 = '{"#include": "sub/inc", "j1": 1, "j2": "$gamma", "j3": {"b": "text", "a": [1, 2.5]}}'
F3 = "fk 1;\n// foam comment\nfsub { v (1 2 3); }\n"
# a block comment (own lines) whose text contains the line-comment marker, a quoted value, a trailing line comment
F4 = "k4  1;\n/* see a // b\n   end */\nm4  'two words'; // c4\n"
WDICT = {"w1": 1, "w2": "two words", "w3": {"b": [1, 2], "a": None}, 5: "int key"}


def setup_tree(root: Path):
    (root / "sub" / "deep").mkdir(parents=True)
    (root / "other").mkdir()
    (root / "f1").write_text(F1)
    (root / "sub" / "inc").write_text(INC)
    (root / "sub" / "inc2").write_text(INC2)
    (root / "f2.json").write_text(F2)
    (root / "f3.foam").write_text(F3)
    (root / "f4").write_text(F4)
    # an ABSOLUTE include name next to a relative one that the absolutely included file includes, too
    (root / "f5").write_text(f"#include 'x5'\n#include '{root}/other5'\nm5  1;\n")
    (root / "other5").write_text("#include 'x5'\no5  2;\n")
    (root / "x5").write_text("x5  3;\n")
    # a diamond of relative includes: f6 includes x6 and y6, x6 includes y6 as well (one directive text, one folder)
    (root / "f6").write_text("#include 'x6'\n#include 'y6'\nm6  1;\n")
    (root / "x6").write_text("#include 'y6'\nx6  2;\n")
    (root / "y6").write_text("y6  3; // comment in y6\n")
    # a JSON dict with a numbered include key (as the library writes them) included from a native dict
    (root / "f10").write_text("// c10\n#include 'j10.json'\nm10  1;\n")
    (root / "j10.json").write_text('{"#include000003": "x5", "#include000001": "y6", "k10": 1}')
    # a dangling include name (no such file next to f9) that exists under another working directory
    (root / "f9").write_text("#include 'ghost9'\n#include 'sub/ghost9'\nm9  1;\n")
    (root / "other" / "ghost9").write_text("p9  42; // belongs to another case\n")
    (root / "other" / "sub").mkdir()
    (root / "other" / "sub" / "ghost9").write_text("q9  43;\n")
    # two XML documents that bind ONE namespace URI to different prefixes (default namespace / prefix cfg)
    (root / "f7.xml").write_text('<?xml version="1.0"?>\n<Config xmlns="http://example.org/ns"><name>plain</name><n>1</n></Config>\n')
    (root / "f8.xml").write_text('<?xml version="1.0"?>\n<cfg:Config xmlns:cfg="http://example.org/ns"><cfg:name>pre</cfg:name><cfg:n>2</cfg:n></cfg:Config>\n')


def canon(d):
    return native.canon_ids(gen.plain(dict(d)))


def do_op(root: Path, op: str, spelling: str, out_tag: str):
    """executes one operation; returns its observable (canonical data / bytes) or None"""
    dictIO = native.dictio()

    def P(rel):
        p = root / rel
        if spelling == "abs":
            return p
        if spelling == "dotdot":
            return root / "sub" / ".." / rel          # the same file, spelled through a sibling folder
        return Path(os.path.relpath(p, os.getcwd()))
    if op == "read1":
        return ("data", canon(dictIO.DictReader.read(P("f1"))))
    if op == "read1o":
        return ("data", canon(dictIO.DictReader.read(P("f1"), order=True)))
    if op == "read1n":
        return ("data", canon(dictIO.DictReader.read(P("f1"), includes=False, comments=False)))
    if op == "read2":
        return ("data", canon(dictIO.DictReader.read(P("f2.json"))))
    if op == "read3":
        return ("data", canon(dictIO.DictReader.read(P("f3.foam"))))
    if op == "write":
        t = P(f"out_{out_tag}")
        dictIO.DictWriter.write(copy.deepcopy(WDICT), t, mode="w")
        return ("bytes", (root / f"out_{out_tag}").read_bytes())
    if op == "writeo":
        t = P(f"outo_{out_tag}")
        dictIO.DictWriter.write(copy.deepcopy(WDICT), t, mode="w", order=True)
        return ("bytes", (root / f"outo_{out_tag}").read_bytes())
    if op == "parse":
        dictIO.DictParser.parse(P("f1"))
        return ("bytes", (root / "parsed.f1").read_bytes())
    if op == "read6":
        return ("data", canon(dictIO.DictReader.read(P("f6"))))
    if op == "parse6":
        dictIO.DictParser.parse(P("f6"))
        return ("bytes", (root / "parsed.f6").read_bytes())
    if op in ("parsex7", "parsex8"):
        n = op[-1]
        dictIO.DictParser.parse(P(f"f{n}.xml"), output="xml")
        return ("bytes", (root / f"parsed.f{n}.xml").read_bytes())
    if op == "read10":
        return ("data", canon(dictIO.DictReader.read(P("f10"))))
    if op == "parse10":
        dictIO.DictParser.parse(P("f10"))
        return ("bytes", (root / "parsed.f10").read_bytes())
    if op == "read9":
        return ("data", canon(dictIO.DictReader.read(P("f9"))))
    if op == "parse9":
        dictIO.DictParser.parse(P("f9"))
        return ("bytes", (root / "parsed.f9").read_bytes())
    if op == "read5":
        return ("data", canon(dictIO.DictReader.read(P("f5"))))
    if op == "read4":
        return ("data", canon(dictIO.DictReader.read(P("f4"))))
    if op == "parse4":
        dictIO.DictParser.parse(P("f4"))
        return ("bytes", (root / "parsed.f4").read_bytes())
    if op == "parseo":
        dictIO.DictParser.parse(P("f1"), order=True, output="cpp")
        return ("bytes", (root / "parsed.f1").read_bytes())
    if op == "parsej":
        dictIO.DictParser.parse(P("f2.json"), output="json")
        return ("bytes", (root / "parsed.f2.json").read_bytes())
    if op == "dumpload":
        t = P(f"dump_{out_tag}")
        s = dictIO.SDict(copy.deepcopy(WDICT))
        s.dump(t)
        r = dictIO.SDict().load(t)
        return ("data+bytes", (canon(r), (root / f"dump_{out_tag}").read_bytes()))
    if op == "writeback":
        # read a file with reduced content (comments and includes off, a scope), then write the dict back to the file it
        # came from (append is the default mode: the file keeps what the dict no longer has)
        wb = root / f"wb_{out_tag}"
        wb.write_text("keep  1;\n// a comment\nscope\n{\n    inner  2;\n}\ngone  3;\n")
        d = dictIO.DictReader.read(P(f"wb_{out_tag}"), comments=False, scope=["scope"])
        d["added"] = 4
        dictIO.DictWriter.write(d, P(f"wb_{out_tag}"))
        return ("bytes", wb.read_bytes())
    if op == "loaddump":
        ld = root / f"ld_{out_tag}"
        ld.write_text("keep  1;\ngone  3;\n")
        sd = dictIO.SDict()
        sd.load(P(f"ld_{out_tag}"))
        del sd["gone"]
        sd["added"] = 4
        sd.dump(P(f"ld_{out_tag}"))
        return ("data", canon(dictIO.DictReader.read(ld)))
    if op == "wfw":
        # one dict object (nested underscore keys, as XML-derived dicts have them) written natively, as Foam, natively again:
        # the second native file has the bytes of the first (what was written in between is no input of a write)
        d = {"solver": {"_tolerance": 1e-6, "iter": 50, "settings": {"_note": "private", "x": 1}}, "schemes": [{"_order": 2, "name": "upwind"}], "_top": 0}
        dictIO.DictWriter.write(d, P(f"wfw1_{out_tag}"), mode="w")
        dictIO.DictWriter.write(d, P(f"wfw_{out_tag}.foam"), mode="w")
        dictIO.DictWriter.write(d, P(f"wfw2_{out_tag}"), mode="w")
        b1, b2 = (root / f"wfw1_{out_tag}").read_bytes(), (root / f"wfw2_{out_tag}").read_bytes()
        return ("data", "same" if b1 == b2 else f"the native write after the Foam write differs from the one before it: {b2[-300:]!r} vs {b1[-300:]!r}")
    if op == "rwr":
        # read a file, rewrite it through the library under its plain absolute name, read it again under the first spelling:
        # the second read returns what the file holds now
        x = root / f"rw_{out_tag}"
        x.write_text("x  1;\nname  first;\n")
        dictIO.DictReader.read(P(f"rw_{out_tag}"))
        dictIO.DictWriter.write({"x": 5, "name": "second"}, x, mode="w")
        return ("data", canon(dictIO.DictReader.read(P(f"rw_{out_tag}"))))
    if op == "reset":
        dictIO.SDict().reset()
        return None
    raise ValueError(op)


PREFIX_OPS = ["read1", "read2", "read3", "write", "parse", "dumpload", "reset", "read1o", "parsex7", "parsex8"]
OBSERVED = ["read10", "parse10", "wfw", "read9", "parse9", "rwr", "parsex7", "parsex8", "read1", "read1o", "read1n", "read2", "read3", "read4", "read5", "read6", "parse6", "write", "writeo", "parse", "parseo", "parsej", "parse4", "dumpload", "writeback", "loaddump"]
CWDS = [".", "sub", "sub/deep", "other"]
# every offset of the wrap inside one read of f1 (about 14 placeholders): each placeholder gets id 0 under one of them
COUNTERS = [-1, 5] + list(range(999984, 1000000)) + [0, 1, 2, 3]


def run_scenario(case: dict):
    """returns the observable of the observed op under the scenario"""
    tmp = native.scratch_dir("c08_")
    cwd0 = os.getcwd()
    try:
        root = tmp / "t"
        root.mkdir()
        setup_tree(root)
        os.chdir(root / case["cwd"])
        native.set_counter(case["counter"])
        for i, op in enumerate(case["prefix"]):
            try:
                do_op(root, op, case["spelling"], f"p{i}")
            except Exception:  # noqa: BLE001
                pass
        if case.get("counter_after_prefix") is not None:
            native.set_counter(case["counter_after_prefix"])
        return do_op(root, case["observed"], case["spelling"], "obs")
    finally:
        os.chdir(cwd0)
        shutil.rmtree(tmp, ignore_errors=True)


_REF: dict = {}


def reference(observed: str):
    if observed not in _REF:
        _REF[observed] = run_scenario({"cwd": ".", "counter": -1, "prefix": [], "spelling": "rel", "observed": observed})
    return _REF[observed]


def oracle(case: dict):
    try:
        ref = reference(case["observed"])
    except Exception as e:  # noqa: BLE001
        return ("reference-raises", f"reference run of {case['observed']} raised {type(e).__name__}: {e}")
    try:
        got = run_scenario(case)
    except Exception as e:  # noqa: BLE001
        return ("raises", f"{case['observed']} raised {type(e).__name__}: {e} in scenario {case}")
    if case["observed"] == "wfw" and got[1] != "same":
        return ("differs", f"wfw: {got[1]}")
    if got != ref and got[0] == "bytes" and case["observed"] == "parsej":
        import re

        ren = lambda b: native.canon_ids(re.sub(r"#include(\d{6})", r"INCLUDE\1", b.decode()))  # noqa: E731
        if ren(got[1]) == ren(ref[1]):
            return ("json-bytes-carry-placeholder-ids", f"JSON output differs from the reference run only in placeholder ids: {got[1][:160]!r}")
    if got != ref and case["observed"] == "read5" and got[0] == "data":
        def no_inc(t):
            import ast

            d = ast.literal_eval(t) if isinstance(t, str) else t
            return {k: v for k, v in d.items() if not (isinstance(k, str) and k.startswith("INCLUDE"))}
        try:
            same = no_inc(got[1]) == no_inc(ref[1])
        except Exception:  # noqa: BLE001
            same = False
        if same:
            return ("include-placeholder-depends-on-spelling", f"read of a file with an absolute include name: the data differ from the reference run only in "
                                                               f"include placeholder entries: {str(got[1])[:300]!r} vs {str(ref[1])[:300]!r}")
    if got != ref and got[0] == "bytes" and case["observed"] == "parse4":
        if native.canon_ids(got[1].decode()) == native.canon_ids(ref[1].decode()) and b"LINECOMMENT" in got[1]:
            return ("written-text-carries-placeholder-id", f"the written text differs from the reference run only in a placeholder id it spells out: {got[1][:200]!r}")
    if got != ref:
        what = "bytes" if "bytes" in got[0] and got[0] == "bytes" else got[0]
        return ("differs", f"{case['observed']} ({what}) differs from the reference run: got {str(got[1])[:400]!r} vs {str(ref[1])[:400]!r}")
    return None


def shrink(case):
    for i in range(len(case["prefix"])):
        c = dict(case)
        c["prefix"] = case["prefix"][:i] + case["prefix"][i + 1:]
        yield c
    if case["cwd"] != ".":
        yield dict(case, cwd=".")
    if case["spelling"] != "rel":
        yield dict(case, spelling="rel")
    if case["counter"] != -1:
        yield dict(case, counter=-1)


def order_wrap(case, f):
    """order=True while the counter wraps inside the observed operation"""
    c = case.get("counter_after_prefix") if case.get("counter_after_prefix") is not None else case["counter"]
    if case["prefix"] and case.get("counter_after_prefix") is None:
        return False
    return case["observed"] in ("read1o", "parseo") and c is not None and 999980 <= c <= 999999


KNOWN_PREDICATES = {"C08-order-across-counter-wrap": order_wrap,
                    "C08-absolute-include-path-spelling": lambda case, f: case["observed"] == "read5" and f["symptom"] == "include-placeholder-depends-on-spelling",
                    "C08-line-comment-inside-block-comment": lambda case, f: case["observed"] == "parse4" and f["symptom"] == "written-text-carries-placeholder-id",
                    "C08-json-output-carries-placeholder-ids": lambda case, f: f["symptom"] == "json-bytes-carry-placeholder-ids"}


def model_ids(ctx):
    """the model reproduces the exact placeholder ids (incl. the wrap) of a read at preset counter values"""
    dictIO = native.dictio()
    text = F1.replace("#include 'sub/inc'\n", "").replace("#include 'sub/inc2'\n", "")
    for cval in [-1, 0, 5, 123456, 999990, 999995, 999998, 999999]:
        native.set_counter(cval)
        il = native.impl_parse_line(text)
        ml = wire.run_model([native.model_parse_line(text, count=cval)])[0]
        ctx.corr_compared += 1
        if ml != il:
            ctx.disagree("parse_string at preset counter", {"counter": cval, "prefix": [], "observed": "read1", "cwd": ".", "spelling": "rel"}, ml[:600], il[:600])


def run(ctx):
    rng = ctx.rng
    cases = []
    maxlen = 2 if ctx.tier == "quick" else 3
    prefixes = [()]
    for n in range(1, maxlen + 1):
        prefixes += list(itertools.product(PREFIX_OPS, repeat=n))
    if ctx.tier == "quick":
        prefixes = [p for p in prefixes if len(p) < 2] + rng.sample([p for p in prefixes if len(p) == 2], 24)
    for pre in prefixes:
        for obs in (OBSERVED if len(pre) <= 1 else rng.sample(OBSERVED, 3)):
            cases.append({"cwd": rng.choice(CWDS), "counter": rng.choice(COUNTERS[:2]), "prefix": list(pre),
                          "spelling": rng.choice(["rel", "abs", "dotdot"]), "observed": obs})
    # the same operation replayed after itself and one other operation (o, p, o): per-process caches that an operation
    # fills and another one invalidates
    replay = [(o, q) for o in OBSERVED for q in PREFIX_OPS if q != o]
    if ctx.tier == "quick":
        replay = [x for x in replay if x[0].startswith("parsex") and x[1].startswith("parsex")] + rng.sample(replay, 40)
    for o, q in replay:
        cases.append({"cwd": rng.choice(CWDS), "counter": rng.choice(COUNTERS[:2]), "prefix": [o, q], "spelling": rng.choice(["rel", "abs", "dotdot"]), "observed": o})
    # every cwd x spelling x counter for every observed op (no prefix)
    for obs, cwd, sp, cnt in itertools.product(OBSERVED, CWDS, ["rel", "abs", "dotdot"], COUNTERS):
        if ctx.tier == "quick" and rng.random() < 0.6:
            continue
        cases.append({"cwd": cwd, "counter": cnt, "prefix": [], "spelling": sp, "observed": obs})
    # random long interleavings, counter wraps forced in the middle
    for _ in range(ctx.n(40, 1500)):
        pre = [rng.choice(PREFIX_OPS) for _ in range(rng.randrange(3, 13))]
        cases.append({"cwd": rng.choice(CWDS), "counter": rng.choice(COUNTERS), "prefix": pre, "spelling": rng.choice(["rel", "abs", "dotdot"]),
                      "observed": rng.choice(OBSERVED), "counter_after_prefix": rng.choice([None, None, 999996, 999999])})
    for c in cases:
        r = oracle(c)
        if r:
            ctx.oracle_fail(c, r[0], r[1])
        nt = bool(c["prefix"]) or c["cwd"] != "." or c["counter"] >= 999990
        ctx.count(("s", repr(c)), nt, "obs:" + c["observed"], sample=c if nt and len(ctx.samples) < 5 else None)
    model_ids(ctx)
    if any(ctx.classes["obs:" + o] == 0 for o in OBSERVED):
        raise RuntimeError("generator starved")
