"""C02  Native reader is layout-tolerant and agrees with the documented grammar."""
from __future__ import annotations

import re
import shutil

from harness import gen, native, wire

RULE = (
    "seeded value trees of the supported domain (plus URL-like strings containing '://'), each rendered several times by an "
    "independent grammar-based renderer that varies: white space between lexemes (blank/tab/LF/CRLF runs, or nothing next "
    "to a delimiter), quote flavour, boolean/none spelling and letter case, optional '+', exponent letter case, and line / "
    "block comments at statement boundaries; results of NativeParser.parse_string, DictReader.read (file) and the Coq "
    "model are compared with the generating tree; thorough adds every pair of separator choices for 2-entry documents; "
    "non-trivial = rendering differs from the writer's canonical layout in at least two dimensions; distinct = distinct texts"
)
ASSUMPTIONS = [
    "documented grammar: key value; | key { ... } | key ( ... ); with typed scalars; comments only between statements of a "
    "dict body (a comment inside a list is a list element for the reader and is not a statement boundary)",
    "comment text is free of comment markers ('//', '/*', '*/') and line breaks; string values as in C01 plus '://'",
    "a comment counts as a word for separation: it has white space or one of { } ( ) ; on each side",
]
TRUSTED_BASE = ["the renderer and the reference parser in this module (cross-checked against each other on every text)"]

DELIMS = "{}();"
TRUE_SP = ["true", "True", "TRUE", "on", "ON", "On", "tRuE"]
FALSE_SP = ["false", "False", "FALSE", "off", "OFF", "Off"]
NONE_SP = ["none", "None", "NONE", "null", "NULL", "Null"]
_BARE = re.compile(r"[^\s;,{}()<>\[\]'\"$]+\Z")


class Layout:
    def __init__(self, rng, canonical=False, crlf=False, comments=True):
        self.rng = rng
        self.canonical = canonical
        self.nl = "\r\n" if crlf else "\n"
        self.comments = comments
        self.dims: set[str] = set()
        self.comment_texts: list[str] = []

    def ws(self) -> str:
        r = self.rng
        if self.canonical:
            return " "
        m = r.randrange(6)
        if m == 0:
            return " "
        self.dims.add("ws")
        if m == 1:
            return "  " * r.randrange(1, 4)
        if m == 2:
            return "\t"
        if m == 3:
            return self.nl + " " * r.randrange(0, 9)
        if m == 4:
            return " " + self.nl + self.nl + "\t"
        return r.choice([" \t ", self.nl, self.nl * 2])

    def sep(self, a: str, b: str) -> str:
        """separator between two adjacent lexemes a and b"""
        glue_ok = (a[-1:] in DELIMS) or (b[:1] in DELIMS)
        if glue_ok and not self.canonical and self.rng.random() < 0.4:
            self.dims.add("glue")
            return ""
        return self.ws()


def bare_ok(s: str) -> bool:
    return bool(s) and bool(_BARE.match(s)) and not gen.spells_typed(s) and s not in ("-", "_", ".") and "//" not in s \
        and "/*" not in s and not any(w in s for w in gen.RESERVED_WORDS) and not s.startswith("#")


def render_scalar(v, L: Layout) -> str:
    r = L.rng
    if isinstance(v, bool):
        sp = TRUE_SP if v else FALSE_SP
        if L.canonical:
            return sp[0]
        c = r.choice(sp)
        if c != sp[0]:
            L.dims.add("spelling")
        return c
    if v is None:
        if L.canonical:
            return "NULL"
        L.dims.add("spelling")
        return r.choice(NONE_SP)
    if isinstance(v, int):
        s = str(v)
        if not L.canonical and v >= 0 and r.random() < 0.25:
            L.dims.add("spelling")
            s = "+" + s
        return s
    if isinstance(v, float):
        s = repr(v)
        if not L.canonical:
            m = r.randrange(4)
            if m == 0 and "e" in s:
                s = s.replace("e", "E")
                L.dims.add("spelling")
            elif m == 1 and v >= 0 and not s.startswith("-"):
                s = "+" + s
                L.dims.add("spelling")
        return s
    assert isinstance(v, str)
    opts = []
    if bare_ok(v):
        opts.append(v)
    if "'" not in v:
        opts.append("'" + v + "'")
    if '"' not in v and "$" not in v:
        opts.append('"' + v + '"')
    if L.canonical:
        return native.dictio().NativeFormatter().format_value(v)
    c = r.choice(opts)
    if c != native.dictio().NativeFormatter().format_value(v):
        L.dims.add("quote")
    return c


def comment(L: Layout) -> list[str]:
    """zero or more comment lexemes at a statement boundary (each is one lexeme incl. its terminator)"""
    if not L.comments or L.canonical or L.rng.random() < 0.7:
        return []
    r = L.rng
    out = []
    for _ in range(r.randrange(1, 3)):
        body = "".join(r.choice("abc xyz 123 ;{}()'\"$\\:,.-=") for _ in range(r.randrange(0, 14)))
        body = body.replace("//", "/ /").replace("/*", "/ *").replace("*/", "* /")
        if r.random() < 0.5:
            txt = "// " + body
            txt = re.sub(r"(?<=:)//", "/ /", txt) if False else txt
            out.append(txt + L.nl)          # a line comment ends with the line
        else:
            # plain, or boxed / banner style: runs of stars of either parity next to the opener and the closer, star-only
            # comments, a star inside
            m = r.randrange(8)
            bc = ("/* " + body + " */" if m < 4 else "/** " + body + " **/" if m == 4 else "/*" + "*" * r.randrange(1, 10) + "/" if m == 5
                  else "/*** " + body.replace("*", "") + " * x ***/" if m == 6 else "/* " + body + " " + "*" * r.randrange(1, 6) + "/")
            out.append(bc)
        L.comment_texts.append(out[-1])
        L.dims.add("comment")
    return out


def render_dict_body(d: dict, L: Layout) -> list[str]:
    lex: list[str] = []
    lex += comment(L)
    for k, v in d.items():
        ks = str(k)
        if isinstance(v, dict):
            lex += [ks, "{"] + render_dict_body(v, L) + ["}"]
        elif isinstance(v, list):
            lex += [ks] + render_list(v, L) + [";"]
        else:
            lex += [ks, render_scalar(v, L), ";"]
        lex += comment(L)
    return lex


def render_list(l: list, L: Layout) -> list[str]:
    lex = ["("]
    for v in l:
        if isinstance(v, dict):
            lex += ["{"] + render_dict_body_nocomment(v, L) + ["}"]
        elif isinstance(v, list):
            lex += render_list(v, L)
        else:
            lex.append(render_scalar(v, L))
    return lex + [")"]


def render_dict_body_nocomment(d, L):
    saved = L.comments
    L.comments = False          # dicts inside lists: the enclosing construct is a list, no statement boundary comments
    try:
        return render_dict_body(d, L)
    finally:
        L.comments = saved


def join_lexemes(lex: list[str], L: Layout) -> str:
    out = []
    if not L.canonical and L.rng.random() < 0.3:
        out.append(L.ws())
    for i, x in enumerate(lex):
        out.append(x)
        if i + 1 < len(lex):
            if x.endswith(("\n", "\r\n")) and x.startswith("//"):
                # a line comment ends with its line break: nothing more is needed
                out.append(L.rng.choice(["", " ", "\t"]) if not L.canonical else "")
            else:
                # comments count as words: glue only next to a delimiter
                out.append(L.sep(x, lex[i + 1]))
    if not L.canonical and L.rng.random() < 0.5:
        out.append(L.ws())
    return "".join(out)


def render(t: dict, L: Layout) -> str:
    return join_lexemes(render_dict_body(t, L), L)


# ---- reference parser for the documented grammar (validates the renderer) --------------------------
def ref_parse(text: str):
    from harness.props.c04 import spec_classify

    pos = 0
    n = len(text)

    def skip():
        nonlocal pos
        while pos < n:
            if text[pos].isspace():
                pos += 1
            elif text.startswith("//", pos) and (pos == 0 or text[pos - 1] != ":"):
                while pos < n and text[pos] != "\n":
                    pos += 1
            elif text.startswith("/*", pos):
                pos = text.index("*/", pos) + 2
            else:
                return

    def lexeme():
        nonlocal pos
        skip()
        if pos >= n:
            return None
        c = text[pos]
        if c in DELIMS:
            pos += 1
            return ("d", c)
        if c in "'\"":
            e = text.index(c, pos + 1)
            s = text[pos + 1: e]
            pos = e + 1
            return ("q", s)
        st = pos
        while pos < n and not text[pos].isspace() and text[pos] not in DELIMS:
            pos += 1
        return ("w", text[st:pos])

    def scalar(lx):
        return spec_classify(lx[1])

    def body(end):
        d = {}
        while True:
            k = lexeme()
            if k is None:
                assert end is None
                return d
            if k == ("d", "}"):
                assert end == "}"
                return d
            assert k[0] == "w", k
            key = spec_classify(k[1])
            v = lexeme()
            if v == ("d", "{"):
                d[key] = body("}")
            elif v == ("d", "("):
                d[key] = lst()
                assert lexeme() == ("d", ";")
            else:
                d[key] = scalar(v)
                assert lexeme() == ("d", ";")

    def lst():
        out = []
        while True:
            v = lexeme()
            if v == ("d", ")"):
                return out
            if v == ("d", "("):
                out.append(lst())
            elif v == ("d", "{"):
                out.append(body("}"))
            else:
                out.append(scalar(v))

    return body(None)


# ---- oracle ---------------------------------------------------------------------------------------------
def oracle(case: dict):
    dictIO = native.dictio()
    text, exp = case["text"], native.normalise(case["t"])
    try:
        r1 = gen.plain(dict(dictIO.NativeParser().parse_string(text, dictIO.SDict())))
    except Exception as e:  # noqa: BLE001
        return ("raises", f"parse_string raised {type(e).__name__}: {e} on {text!r}")
    r1 = native.strip_placeholders(r1)
    if not gen.typed_eq(r1, exp):
        return ("differs", f"parse_string gives {r1!r}, grammar says {exp!r} for {text!r}")
    if case.get("file"):
        tmp = native.scratch_dir("c02_")
        try:
            f = tmp / "src"
            f.write_bytes(text.encode("utf-8"))
            try:
                r2 = gen.plain(dict(dictIO.DictReader.read(f)))
            except Exception as e:  # noqa: BLE001
                return ("raises", f"DictReader.read raised {type(e).__name__}: {e} on {text!r}")
            r2 = native.strip_placeholders(r2)
            if not gen.typed_eq(r2, exp):
                return ("differs", f"DictReader.read gives {r2!r}, grammar says {exp!r} for {text!r}")
        finally:
            shutil.rmtree(tmp, ignore_errors=True)
    return None


def shrink(case):
    # canonicalise the layout first, then shrink the tree (re-rendered canonically)
    import random

    t = case["t"]
    L = Layout(random.Random(0), canonical=True)
    canon = render(t, L)
    if canon != case["text"]:
        yield {"t": t, "text": canon, "file": case.get("file")}
    text = case["text"]
    for i in range(len(text)):
        if text[i] in " \t\r\n" and i + 1 < len(text) and text[i + 1] in " \t\r\n":
            yield {"t": t, "text": text[:i] + text[i + 1:], "file": case.get("file")}
    # drop comments one by one
    for m in re.finditer(r"/\*.*?\*/|(?<!:)//[^\n]*", text):
        yield {"t": t, "text": text[: m.start()] + " " + text[m.end():], "file": case.get("file")}
    for t2 in gen.shrink_tree(t):
        if not tree_in_domain(t2):
            continue
        L2 = Layout(random.Random(1), canonical=False, comments=True)
        try:
            yield {"t": t2, "text": render(t2, L2), "file": case.get("file")}
        except Exception:  # noqa: BLE001
            continue


KNOWN_PREDICATES = {}


def str_in_domain(s: str) -> bool:
    return gen.in_str_domain(s) or (re.fullmatch(r"(https?|ftp)://(\w[\w.:-]*(/[\w.:-]+)*/?)?", s) is not None)


def tree_in_domain(t) -> bool:
    if isinstance(t, dict):
        return all(tree_in_domain(v) for v in t.values())
    if isinstance(t, list):
        return all(tree_in_domain(v) for v in t)
    return not isinstance(t, str) or str_in_domain(t)


def c02_string(rng):
    if rng.random() < 0.12:
        return rng.choice(["http://", "https://", "ftp://"]) + gen.word(rng, 1, 6) + rng.choice(["", ".org/x", "/a/b", ":80/"])
    return gen.dom_string(rng)


def c02_leaf(rng):
    m = rng.randrange(10)
    if m < 5:
        return c02_string(rng)
    return gen.dom_scalar(rng)


def run(ctx):
    rng = ctx.rng
    cases = []
    n_trees = ctx.n(500, 12000)
    per = 3 if ctx.tier == "quick" else 5
    for i in range(n_trees):
        t = gen.dom_tree(rng, max_nodes=rng.choice([4, 10, 25]), max_depth=rng.choice([1, 3, 5]), int_keys=0.1, leaf=c02_leaf)
        for j in range(per):
            L = Layout(rng, canonical=(j == 0 and i % 5 == 0), crlf=(j == 2), comments=True)
            text = render(t, L)
            cases.append(({"t": t, "text": text, "file": (i + j) % 4 == 0}, len(L.dims)))
    # deep documents: quoted strings (re-inserted through find_global_key / set_global_key) at key paths of 9 and of
    # exactly 10 entries - the documented limit -, reached through dicts only, through a matrix, through a list of dicts
    for i in range(ctx.n(18, 120)):
        target = 9 + i % 2
        shape = (i // 2) % 3
        names = [gen.word(rng, 1, 5) + str(j) for j in range(10)]
        if shape == 0:
            t = {"s": rng.choice(["two words", "a;b", "x{y}"]), "n": i}
            nlev = target - 1
        elif shape == 1:
            t = {"m": [["x axis", "u"], ["v", rng.choice(["w z", "q(1)"])]], "n": 2}
            nlev = target - 3
        else:
            t = {"items": [{"spec": {"name": "left wheel", "size": 4}}, {"spec": {"name": rng.choice(["r w", "it's"]), "size": 5}}]}
            nlev = target - 4
        for k in reversed(names[:nlev]):
            t = {k: t}
        for j in range(2):
            L = Layout(rng, canonical=(j == 0), crlf=False, comments=(j == 1))
            cases.append(({"t": t, "text": render(t, L), "file": (i + j) % 2 == 0}, 3))
    if ctx.tier == "thorough":
        # every pair of separator choices for two-entry documents
        seps = ["", " ", "\t", "\n", "\r\n", "  \n ", "\n\n"]
        for s1 in seps:
            for s2 in seps:
                for s3 in seps:
                    text = f"a{s1 or ' '}1{s2};{s3}b{s1 or ' '}'x y'{s3};{s2}c{s2}{{{s1}d{s3 or ' '}(1 2){s1};{s2}}}{s3}"
                    cases.append(({"t": {"a": 1, "b": "x y", "c": {"d": [1, 2]}}, "text": text, "file": False}, 2))
        ctx.extra["exhaustive_part"] = "343 separator triples on a 3-entry document"
    # renderer self-check against the reference parser (a harness error, never a verdict)
    for c, _ in cases:
        try:
            rp = ref_parse(c["text"])
        except Exception as e:  # noqa: BLE001
            raise RuntimeError(f"renderer/reference parser self-check failed ({type(e).__name__}: {e}) on {c['text']!r}") from e
        if not gen.typed_eq(rp, native.normalise(c["t"])):
            raise RuntimeError(f"renderer/reference parser self-check mismatch on {c['text']!r}: {rp!r}")
    # correspondence: model vs implementation on every text
    plines, ilines = [], []
    for c, _ in cases:
        native.set_counter(-1)
        plines.append(native.model_parse_line(c["text"], count=-1))
        ilines.append(native.impl_parse_line(c["text"]))
    mout = wire.run_model_sharded(plines)
    ctx.compare("parse_string(rendering)", [c for c, _ in cases], mout, ilines)
    for c, ndims in cases:
        r = oracle(c)
        if r:
            ctx.oracle_fail(c, r[0], r[1])
        ctx.count(("x", c["text"]), ndims >= 2, f"dims{min(ndims, 4)}",
                  sample={"text": c["text"], "tree": c["t"]} if ndims >= 3 and len(ctx.samples) < 4 else None)
    if ctx.classes["dims3"] + ctx.classes["dims4"] == 0:
        raise RuntimeError("generator starved")
