"""C03  Parsed output is a fixed point: re-reading a written file changes nothing."""
from __future__ import annotations

import re

import shutil

from harness import gen, native, wire
from harness.props import c12

RULE = (
    "seeded well-formed native sources (comments, own or default header, flat and nested include graphs over existing files, "
    "resolvable and unresolvable references / expressions) driven through n = 1..4 read-write cycles with DictReader / "
    "DictWriter and through DictParser.parse + re-read; data of cycle k compared with cycle 1, bytes of cycle k+1 with cycle k "
    "(sources without includes); the string-level cycle parse_string -> to_string is also compared with the Coq model; "
    "non-trivial = source has a nested comment, an include or an expression; distinct = distinct sources"
)
ASSUMPTIONS = c12.ASSUMPTIONS + [
    "data comparison ignores comment placeholder entries (the writer adds the default header) and the position of include "
    "entries (the writer moves include directives to the top), and renames placeholder ids by first occurrence",
    "expressions are arithmetic over declared scalar variables or references; variable names share no prefixes (C05 covers those)",
]
TRUSTED_BASE = c12.TRUSTED_BASE


def canon_data(d):
    x = native.strip_placeholders(gen.plain(dict(d)))
    inc = sorted(k for k in x if isinstance(k, str) and "INCLUDE" in k)
    x = {k: v for k, v in x.items() if not (isinstance(k, str) and "INCLUDE" in k)}
    return native.canon_ids(x), len(inc)


def gen_source(rng):
    """returns (files: {relative name: text}, root name, has_includes, nontrivial)"""
    s = c12.gen_source(rng, hazardous=rng.random() < 0.6)
    lines = [l for l in s.lines if not l.startswith("#include")]
    files = {}
    has_inc = False
    nontrivial = s.nontrivial or bool(s.line_comments)
    # variables + expressions
    vs = {}
    extra = []
    names = rng.sample(["alpha", "beta", "gamma", "delta", "omega"], rng.randrange(0, 4))
    for nm in names:
        v = rng.choice([1, 2, 3.5, 10, -4])
        vs[nm] = v
        extra.append(f"{nm}  {v};")
    if rng.random() < 0.4:
        extra.append("vec  (1 2 3);")
        vs["vec"] = [1, 2, 3]
    if rng.random() < 0.5:
        # floats that the writer spells in exponent notation with a one-digit mantissa (1e-05, 1e+20, 5e-07): spelled
        # differently in the source, computed by an expression, or as a list item
        extra.append(rng.choice(["tol  0.00001;", "big  100000000000000000000.0;", "sm  1.0e-6;", "eps  0.0000005;", "tols  (0.00001 1.0E+22 2.5e-7);",
                                 'scaled  "1 / 100000";'] + ([f'scaled  "${n} / 1000000"' + ";" for n in vs if n != "vec"][:1])))
        nontrivial = True
    if rng.random() < 0.3:
        # quoted values that hold a character `str.splitlines` takes for a line boundary (form feed, RS, NEL, LS ...): data
        ch = rng.choice("\x0b\x0c\x1c\x1d\x1e\x85\u2028\u2029")
        extra.append(rng.choice([f"pg  'page one{ch}page two';", f"pl  (1 'x{ch} y');", f"pn {{ m 'a {ch}b'; }}"]))
        nontrivial = True
    if rng.random() < 0.3:
        # lists that mix single values and nested lists (a time table, a mesh block definition): item order is data
        extra.append(rng.choice(["tbl  ( (0 (1 0 0)) (0.5 (2 0 0)) (1 (4 0.5 0)) );", "blocks  ( hex (0 1 2 3 4 5 6 7) (10 10 1) simpleGrading (1 1 1) );",
                                 "mix  ( 1 2 (3 4) 5 (6) 7 8 9 10 11 12 13 (14) );", "rows  ( a (1) b (2 (3 c)) );"]))
        nontrivial = True
    if rng.random() < 0.3:
        # quoted values made of word characters and signs no delimiter list knows (= + @ % ~ ^ ! ? & | *): written bare
        extra.append(rng.choice(["mode  'mode=fast';", "flags  ( '-DNDEBUG=1' '-O2' '--jobs=4' );", "thr  '=5';", "tok  'dGVzdA==';", "mail  'a@b.c';",
                                 "pct  '50%';", "home  '~user';", "pw  'a^b!c?d';", "amp  'x&y|z';", "star  'a*b+c';"]))
        nontrivial = True
    if rng.random() < 0.3:
        # quoted values that begin or end with a quote character of the other flavour (what the first read makes of them is
        # the business of C02 / C04; whatever it is, it must be a fixed point of the cycle)
        extra.append(rng.choice(["remark  'he said \"go\"';", "label  '\"Beta\" release';", "hint  \"call it 'final'\";",
                                 "unit  ( 'unit \"m\"' 2 );", "qn { w '\"x\"'; }"]))
        nontrivial = True
    for i in range(rng.randrange(0, 4)):
        kind = rng.randrange(6)
        k = f"e{i}_{gen.plain_key(rng)}"
        pool = [n for n in vs if n != "vec"]
        if kind == 0 and pool:
            extra.append(f"{k}  ${rng.choice(pool)};")
        elif kind == 1 and pool:
            extra.append(f'{k}  "${rng.choice(pool)} + {rng.randrange(1, 9)}";')
        elif kind == 2 and len(pool) >= 2:
            a, b = rng.sample(pool, 2)
            extra.append(f'{k}  "${a} * ${b}";')
        elif kind == 3 and "vec" in vs:
            # an indexed reference, or an expression whose value is a NumPy scalar (mean / std / an element of an array)
            extra.append(rng.choice([f"{k}  $vec[{rng.randrange(0, 3)}];", f'{k}  "mean($vec)";', f'{k}  "std($vec) + 1";',
                                     f'{k}  "ones(3)[0] * 2";', f'{k}  "sum(array($vec))";']))
        elif kind == 4:
            extra.append(f"{k}  $undefined{i};")
        else:
            extra.append(f'{k}  "$undefined{i} + 1";')
        nontrivial = True
    if rng.random() < 0.3:
        # a chain of expressions through the items of one list (each link needs one more evaluation pass);
        # the number of passes can exceed the number of named variables
        n = rng.randrange(3, 10)
        step = rng.choice([0.5, 1, 2])
        items = ["1.0"] + [f'"$chain[{i}] + {step}"' for i in range(n - 1)]
        extra.append("chain  (" + " ".join(items) + ");")
        extra.append(f"chainLast  $chain[{n - 1}];")
        if rng.random() < 0.5:
            extra.append('chainLen  "$chainLast - 1";')
        nontrivial = True
    rng.shuffle(extra)
    pos = rng.randrange(0, len(lines) + 1) if lines else 0
    # keep statements at top level: insert only at depth 0 boundaries
    depth = 0
    tops = [0] if not (lines and lines[0].lstrip().startswith("{")) else []
    for i, l in enumerate(lines):
        code = re.sub(r"/\*.*?\*/", "", l).split("//")[0]          # braces inside comments do not count
        depth += code.count("{") - code.count("}") if not l.lstrip().startswith(("//", "/*")) and "'" not in code and '"' not in code else 0
        if depth == 0 and not (i + 1 < len(lines) and lines[i + 1].lstrip().startswith("{")):
            tops.append(i + 1)          # never between a key and the brace that opens its dict on the next line
    pos = rng.choice(tops or [len(lines)])
    if lines and lines[0].startswith("/*-"):
        pos = max(pos, 1)
    lines[pos:pos] = extra
    # include graph
    if rng.random() < 0.5:
        has_inc = True
        nontrivial = True
        inc_lines = []
        shape = rng.randrange(3)
        if shape == 0:    # flat
            for j in range(rng.randrange(1, 3)):
                nm = f"inc{j}"
                # line comments in the middle of the included file's levels (their place among the entries must survive the
                # re-read of the written file, which merges the include a second time)
                files[nm] = (f"// about p{j}\np{j}  {j};\nshared\n{{\n    // inside shared, from {j}\n    from{j}  {j};\n}}\n"
                             f"// before the last entry of inc{j}\nlast{j}  {j};\n") if rng.random() < 0.6 else f"p{j}  {j};\nshared  {{ from{j}  {j}; }}\n"
                inc_lines.append(f"#include '{nm}'")
        elif shape == 1:  # nested chain
            files["incA"] = "#include 'sub/incB'\npa  1;\n"
            files["sub/incB"] = "pb  2;\nnestedv\n{\n    q  3;\n}\n"
            inc_lines.append("#include 'incA'")
        else:             # sub directory
            files["sub/incC"] = "pc  'a b';\n// comment in include\n"
            inc_lines.append('#include "sub/incC"')
        at = 1 if (lines and lines[0].startswith("/*-")) else 0
        lines[at:at] = inc_lines
    files["root"] = "\n".join(lines) + "\n"
    return files, "root", has_inc, nontrivial


def write_files(tmp, files):
    for name, content in files.items():
        p = tmp / name
        p.parent.mkdir(parents=True, exist_ok=True)
        p.write_text(content)


def seq_view(d, blocks=True):
    """the document as a reader of the file sees it: per dict level the SEQUENCE of keys and comment texts (a comment
    placeholder is replaced by its text from the tables); include placeholders and values are left out"""
    import re as _re

    lc, bc = dict(getattr(d, "line_comments", {})), dict(getattr(d, "block_comments", {}))

    def go(x):
        out = []
        for k, v in x.items():
            if isinstance(k, str) and "INCLUDE" in k:
                continue
            m = _re.fullmatch(r"(LINECOMMENT|BLOCKCOMMENT)(\d{6})", k) if isinstance(k, str) else None
            if m:
                if m.group(1) == "BLOCKCOMMENT" and not blocks:
                    continue
                tab = lc if m.group(1) == "LINECOMMENT" else bc
                out.append(("comment", tab.get(int(m.group(2)), k)))
            elif isinstance(v, dict):
                out.append((k, go(v)))
            else:
                out.append((k, None))
        return out
    return go(dict(d))


def oracle(case: dict):
    dictIO = native.dictio()
    files, n = case["files"], case.get("n", 3)
    tmp = native.scratch_dir("c03_")
    try:
        write_files(tmp, files)
        src = tmp / "root"
        try:
            d1 = dictIO.DictReader.read(src)
        except Exception as e:  # noqa: BLE001
            return ("first-read-raises", f"reading the source raised {type(e).__name__}: {e}")
        ref = canon_data(d1)
        prev_bytes = None
        cur = d1
        for k in range(1, n + 1):
            y = tmp / f"cycle{k}"
            try:
                dictIO.DictWriter.write(cur, y, mode="w")
                cur = dictIO.DictReader.read(y)
            except Exception as e:  # noqa: BLE001
                return ("cycle-raises", f"cycle {k} raised {type(e).__name__}: {e}")
            got = canon_data(cur)
            if not gen.typed_eq(got[0], ref[0]) or got[1] != ref[1]:
                return ("data-drift", f"data after cycle {k} {got!r} differs from the first read {ref!r}")
            # from the first written file on, also the PLACE of every comment among the entries of its level is stable
            # (the first cycle may add the default header and move block comments to the top: documented)
            # line comments keep their place among the keys of their level from the first read on (the writer moves block
            # comments and include directives to the top, nothing else)
            if seq_view(cur, blocks=False) != seq_view(d1, blocks=False):
                return ("comment-drift", f"keys and line comments after cycle {k} {seq_view(cur, blocks=False)!r} differ in sequence from the first read {seq_view(d1, blocks=False)!r}")
            if k == 1:
                view1 = seq_view(cur)
            elif seq_view(cur) != view1:
                return ("comment-drift", f"sequence of keys and comments after cycle {k} {seq_view(cur)!r} differs from cycle 1 {view1!r}")
            b = y.read_bytes()
            if not case["has_includes"] and prev_bytes is not None and b != prev_bytes:
                return ("bytes-drift", f"bytes of cycle {k} differ from cycle {k - 1}: {b!r} vs {prev_bytes!r}")
            prev_bytes = b
        # DictParser.parse then re-read parsed.<name>
        try:
            pd = dictIO.DictParser.parse(src)
            rd = dictIO.DictReader.read(tmp / "parsed.root")
        except Exception as e:  # noqa: BLE001
            return ("parse-raises", f"DictParser.parse / re-read raised {type(e).__name__}: {e}")
        a, b2 = canon_data(pd), canon_data(rd)
        if not gen.typed_eq(a[0], b2[0]) or a[1] != b2[1]:
            return ("parsed-reread", f"parsed.root reads as {b2!r}, parse returned {a!r}")
        return None
    finally:
        shutil.rmtree(tmp, ignore_errors=True)


def shrink(case):
    files = case["files"]
    lines = files["root"].split("\n")
    for i in range(len(lines)):
        if lines[i].strip() in ("{", "}") or not lines[i].strip():
            continue
        # drop single-line statements / comments only (keeps braces balanced)
        if lines[i].rstrip().endswith(";") or lines[i].lstrip().startswith(("//", "/*", "#include")):
            nf = dict(files)
            nf["root"] = "\n".join(lines[:i] + lines[i + 1:])
            yield {"files": nf, "has_includes": any(l.startswith("#include") for l in nf["root"].split("\n")), "n": case.get("n", 3)}


def partly_unresolved_list(case, f):
    """an expression keeps an unresolvable reference after a list variable holding a quoted string was substituted"""
    import re

    txt = "\n".join(case["files"].values())
    quoted_lists = set(re.findall(r"^\s*(\w+)\s*\([^)]*['\"][^)]*\)\s*;", txt, re.M))
    declared = set(re.findall(r"^\s*([A-Za-z_]\w*)\s", txt, re.M))
    for e in re.findall(r'"([^"]*\$[^"]*)"', txt):
        refs = set(re.findall(r"\$(\w+)", e))
        if refs & quoted_lists and any(r not in declared for r in refs):
            return True
    return False


KNOWN_PREDICATES = {}      # the former finding C03-unresolved-after-list-substitution is repaired (3c2b422); its witness stays in the run


def run(ctx):
    rng = ctx.rng
    dictIO = native.dictio()
    cases = []
    for i in range(ctx.n(300, 6000)):
        files, root, has_inc, nt = gen_source(rng)
        cases.append(({"files": files, "has_includes": has_inc, "n": 3 if ctx.tier == "quick" else 4}, nt))
    # the witness of the repaired finding C03-unresolved-after-list-substitution (3c2b422) stays in every run
    cases.append(({"files": {"root": "y2  ('x y' 2.5);\nk  \"$a1 * $y2\";\n"}, "has_includes": False, "n": 3}, True))
    # correspondence: string-level cycles on include-free sources (model vs implementation)
    nf = [c for c, _ in cases if not c["has_includes"]]
    plines = []
    for c in nf:
        plines.append(native.model_parse_line(c["files"]["root"], count=-1))
    mout = wire.run_model_sharded(plines)
    w1 = []
    keep = []
    for c, ml in zip(nf, mout):
        if ml.startswith("ok "):
            w1.append("to_string_sd " + wire.canon_floats(ml[3:].rsplit(" ", 1)[0]))
            keep.append(c)
    t1 = wire.run_model_sharded(w1)
    for c, ml in zip(keep, t1):
        ctx.corr_compared += 1
        native.set_counter(-1)
        try:
            sd = dictIO.NativeParser().parse_string(c["files"]["root"], dictIO.SDict())
            it = dictIO.NativeFormatter().to_string(sd)
        except Exception as e:  # noqa: BLE001
            it = "raise " + type(e).__name__
        mt = wire.Reader(ml).str()
        if mt != it:
            ctx.disagree("to_string(parse_string(src)) cycle 1", c, mt[:1500], it[:1500])
    # the known finding is re-established explicitly
    probe = {"files": {"root": "y2  ('x y' 2.5);\nk  \"$a1 * $y2\";\n"}, "has_includes": False, "n": 3}
    cases.append((probe, True))
    for c, nt in cases:
        r = oracle(c)
        if r:
            ctx.oracle_fail(c, r[0], r[1])
        ctx.count(("s", repr(sorted(c["files"].items()))), nt, "includes" if c["has_includes"] else "no-includes",
                  sample={"root": c["files"]["root"], "others": {k: v for k, v in c["files"].items() if k != "root"}} if nt and len(ctx.samples) < 4 else None)
    if ctx.classes["includes"] == 0 or ctx.classes["no-includes"] == 0:
        raise RuntimeError("generator starved")
