"""C10  OpenFOAM output keeps content, drops private keys, carries the Foam header."""
from __future__ import annotations

import copy
import shutil

from harness import gen, native, wire
from harness.props import c01, c07

RULE = (
    "seeded dicts of the Foam value domain (the native domain restricted to strings without double quotes) with "
    "underscore-prefixed keys sprinkled at every depth, incl. dicts inside lists and int keys next to them; routes "
    "FoamFormatter+FoamParser on strings (plain dict and SDict input) and DictWriter+DictReader on .foam files; "
    "non-trivial = contains an underscore key below the top level, a quoted string or a list of dicts; "
    "distinct = distinct dicts"
)
ASSUMPTIONS = c01.ASSUMPTIONS + ["strings of the Foam domain contain no double quote character"]
TRUSTED_BASE = c01.TRUSTED_BASE
BANNER = "/*--------------------------------*- C++ -*----------------------------------*\\\n"


def strip_us_spec(t):
    """independent specification: underscore keys are omitted at every level of dict nesting"""
    if isinstance(t, dict):
        return {k: strip_us_spec(v) for k, v in t.items() if not (isinstance(k, str) and k.startswith("_"))}
    if isinstance(t, list):
        return [strip_us_spec(v) for v in t]
    return t


def has_us_key(t) -> bool:
    if isinstance(t, dict):
        return any((isinstance(k, str) and k.startswith("_")) or has_us_key(v) for k, v in t.items())
    if isinstance(t, list):
        return any(has_us_key(v) for v in t)
    return False


def outside_dq(text: str) -> str:
    out, inq = [], False
    for c in text:
        if c == '"':
            inq = not inq
        elif not inq:
            out.append(c)
    return "".join(out)


def oracle(case: dict):
    dictIO = native.dictio()
    d = case["t"]
    exp = native.normalise(strip_us_spec(d))
    before = copy.deepcopy(d)
    work = copy.deepcopy(d)
    try:
        txt = dictIO.FoamFormatter().to_string(work)
    except Exception as e:  # noqa: BLE001
        return ("raises", f"FoamFormatter.to_string raised {type(e).__name__}: {e}")
    if not gen.typed_eq(work, before):
        return ("input-modified", "FoamFormatter.to_string modified its argument")
    if "'" in outside_dq(txt):
        return ("single-quote", f"output contains a single-quoted string: {txt!r}")
    try:
        r1 = gen.plain(dict(dictIO.FoamParser().parse_string(txt, dictIO.SDict())))
    except Exception as e:  # noqa: BLE001
        return ("raises", f"FoamParser.parse_string raised {type(e).__name__}: {e}")
    r1 = native.strip_placeholders(r1)
    if has_us_key(r1):
        return ("underscore", f"an underscore key survived: {r1!r}")
    if not gen.typed_eq(r1, exp):
        return ("differs", f"route formatter+parser: read back {r1!r}, expected {exp!r}")
    # SDict input: banner + FoamFile block
    s = dictIO.SDict(copy.deepcopy(d))
    txt2 = dictIO.FoamFormatter().to_string(s)
    if not txt2.startswith(BANNER) or "\nFoamFile\n{\n" not in txt2:
        return ("banner", f"SDict output does not start with the OpenFOAM banner and FoamFile block: {txt2[:120]!r}")
    # ... also when the SDict carries a FoamFile entry of its own (what a read .foam file returns), wherever it sits
    own = dictIO.SDict({**copy.deepcopy(d), "FoamFile": {"version": 2.0, "format": "ascii", "class": "dictionary", "object": "foamDict"}})
    if case.get("own_first"):
        own = dictIO.SDict({"FoamFile": own["FoamFile"], **copy.deepcopy(d)})
    txt3 = dictIO.FoamFormatter().to_string(own)
    after_banner = txt3.split("*/\n", 1)[1] if "*/\n" in txt3 else txt3
    if not txt3.startswith(BANNER) or not after_banner.startswith("FoamFile\n{\n"):
        return ("banner", f"an SDict with a FoamFile entry of its own is not written with banner + FoamFile block first: after the banner comes {after_banner[:80]!r}")
    if not gen.typed_eq(gen.plain(dict(s)), before):
        return ("input-modified", "FoamFormatter.to_string modified the SDict passed in")
    # ONE formatter instance used again after other formatters were created and used in the process (str() of an SDict,
    # SDict == SDict, a native write all create a NativeFormatter): the text must be what a fresh instance writes
    ff = dictIO.FoamFormatter()
    first = ff.to_string(copy.deepcopy(d))
    _ = str(dictIO.SDict({"k": "two words"}))
    _ = dictIO.SDict({"a": ""}) == dictIO.SDict({"a": ""})
    _ = dictIO.NativeFormatter().to_string({"x": "a b"})
    again = ff.to_string(copy.deepcopy(d))
    if again != txt or first != txt:
        bad = "'" in outside_dq(again)
        return ("single-quote" if bad else "formatter-reuse",
                f"a FoamFormatter used a second time (after a NativeFormatter was created) writes {again!r}, a fresh one {txt!r}")
    tmp = native.scratch_dir("c10_")
    try:
        f = tmp / "x.foam"
        try:
            dictIO.DictWriter.write(dictIO.SDict(copy.deepcopy(d)), f, mode="w", formatter=ff)      # the used instance
            r2 = gen.plain(dict(dictIO.DictReader.read(f)))
        except Exception as e:  # noqa: BLE001
            return ("raises", f".foam file round trip raised {type(e).__name__}: {e}")
        ftxt = f.read_text()
        if not ftxt.startswith(BANNER):
            return ("banner", "the .foam file does not start with the OpenFOAM banner")
        if "'" in outside_dq(ftxt.split("*/\n", 1)[-1]):
            return ("single-quote", f"the .foam file contains a single-quoted string: {ftxt!r}")
        r2 = native.strip_placeholders(r2)
        r2.pop("FoamFile", None)
        if has_us_key(r2):
            return ("underscore", f"an underscore key survived in the file: {r2!r}")
        if not gen.typed_eq(r2, exp):
            return ("differs", f"route .foam file: read back {r2!r}, expected {exp!r}")
    finally:
        shutil.rmtree(tmp, ignore_errors=True)
    return None


def shrink(case):
    for t2 in gen.shrink_tree(case["t"]):
        yield {"t": t2}


KNOWN_PREDICATES = {}


def foam_leaf(rng):
    if rng.random() < 0.04:
        # a character str.splitlines takes for a line boundary, inside a string (data; the writer quotes it)
        ch = rng.choice("\x0b\x0c\x1c\x1d\x1e\x85\u2028\u2029")
        return rng.choice([f"page one{ch}page two", f"a {ch}b", f"x{ch}"])
    while True:
        v = gen.dom_scalar(rng)
        if not (isinstance(v, str) and '"' in v):
            return v


def us_key(rng):
    r = rng.random()
    if r < 0.25:
        return "_" + gen.plain_key(rng)
    return gen.plain_key(rng)


def run(ctx):
    rng = ctx.rng
    dictIO = native.dictio()
    trees = []
    for i in range(ctx.n(700, 25000)):
        t = gen.dom_tree(rng, max_nodes=rng.choice([8, 20, 40]), max_depth=rng.choice([2, 4, 6]), int_keys=0.12,
                         list_p=0.3, leaf=foam_leaf, key=us_key)
        if i % 7 == 0:
            t[gen.plain_key(rng)] = [{"_p": 1, "q": [{"_r": 2, "s": foam_leaf(rng)}]}, 3]
        if "FoamFile" in t or gen.tree_depth(t) > 9:
            continue
        trees.append(t)
    fm = dictIO.FoamFormatter()
    mtxt = wire.run_model_sharded(["foam_to_string_plain " + wire.enc_tree(t) for t in trees])
    for t, ml in zip(trees, mtxt):
        ctx.corr_compared += 1
        try:
            itxt = fm.to_string(copy.deepcopy(t))
        except Exception as e:  # noqa: BLE001
            itxt = f"raise {type(e).__name__}"
        if wire.Reader(ml).str() != itxt:
            ctx.disagree("foam to_string", {"t": t}, wire.Reader(ml).str()[:1500], itxt[:1500])
    # SDict route of the model (header insertion)
    sds = trees[: max(50, len(trees) // 10)]
    msd = wire.run_model_sharded(["foam_to_string_sd " + c07.enc_sd(t, {}, {}, {}, {}) for t in sds])
    for t, ml in zip(sds, msd):
        ctx.corr_compared += 1
        itxt = fm.to_string(dictIO.SDict(copy.deepcopy(t)))
        if wire.Reader(ml).str() != itxt:
            ctx.disagree("foam to_string(SDict)", {"t": t}, wire.Reader(ml).str()[:1500], itxt[:1500])
    for t in trees:
        c = {"t": t}
        r = oracle(c)
        if r:
            ctx.oracle_fail(c, r[0], r[1])
        nt = has_us_key({"x": [v for v in t.values()]}) or c01.nontrivial(t)
        ctx.count(("t", wire.enc_tree(t)), nt, "us-nested" if has_us_key({"x": list(t.values())}) else "plain",
                  sample={"dict": t} if nt and len(ctx.samples) < 5 else None)
    if ctx.classes["us-nested"] == 0:
        raise RuntimeError("generator starved")
