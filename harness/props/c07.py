"""C07  SDict behaves as a dict, and merge() never overwrites or loses anything."""
from __future__ import annotations

import copy
import itertools
from pathlib import Path

from harness import gen, wire

RULE = (
    "seeded operation histories (<= 25 ops) over set/del/update/|=/|/reversed |/pop/setdefault/clear/copy/ctor/merge with "
    "nested overlapping arguments (plain dicts and SDicts carrying comment/include/expression tables and placeholder "
    "keys), executed in lock-step on an SDict, a builtin dict and the Coq model; thorough adds every history of "
    "length <= 3 over a 12-op alphabet; non-trivial = history contains an overlapping update/merge or an SDict argument; "
    "distinct = distinct histories"
)
ASSUMPTIONS = [
    "object aliasing between other and self after merge/update is builtin-dict behaviour and outside the value model "
    "(arguments are deep-copied by the harness; 'does not modify other' is checked by deep comparison only)",
    "string leaves of ordinary histories are free of '$' (a leaf that refers to its own key is the documented include placeholder)",
]
TRUSTED_BASE = []


def _impl():
    import dictIO

    return dictIO


# ---- encoding of SDict states -------------------------------------------------------------------
def enc_tab(tab: dict, f) -> str:
    return " ".join([f"T{len(tab)}"] + [f"u{i} {f(v)}" for i, v in tab.items()])


def enc_sd(data: dict, lc: dict, bc: dict, inc: dict, ex: dict) -> str:
    return " ".join([
        "SD", wire.enc_tree(data),
        enc_tab(lc, wire.enc_str), enc_tab(bc, wire.enc_str),
        enc_tab(inc, lambda v: f"{wire.enc_str(v[0])} {wire.enc_str(v[1])} {wire.enc_str(str(v[2]))}"),
        enc_tab(ex, lambda v: f"{wire.enc_str(v['expression'])} {wire.enc_str(v['name'])}"),
    ])


def enc_sdict_obj(s) -> str:
    return enc_sd(gen.plain(dict(s)), s.line_comments, s.block_comments, s.includes, s.expressions)


def nest_as_sdict(d):
    """every nested dict value becomes an SDict INSTANCE with tables of its own (that call every placeholder id a
    duplicate of every other): a value is a value, the tables that count are those of the SDict the operation is called on"""
    dictIO = _impl()
    for k, v in list(d.items()):
        if isinstance(v, dict):
            sv = v if isinstance(v, dictIO.SDict) else dictIO.SDict(v)
            sv.line_comments = {i: "// same" for i in list(range(0, 12)) + list(range(100, 140))}
            sv.block_comments = {i: "/* same */" for i in list(range(0, 12)) + list(range(100, 140))}
            sv.includes = {i: ("#include 'same'", "same", Path("/work/same")) for i in list(range(0, 12)) + list(range(100, 140))}
            nest_as_sdict(sv)
            dict.__setitem__(d, k, sv)
    return d


def mk_sdict(spec: dict):
    dictIO = _impl()
    s = dictIO.SDict(copy.deepcopy(spec["data"]))
    s.line_comments = dict(spec.get("lc", {}))
    s.block_comments = dict(spec.get("bc", {}))
    s.includes = {i: (v[0], v[1], Path(v[2])) for i, v in spec.get("inc", {}).items()}
    s.expressions = {i: {"expression": v[0], "name": v[1]} for i, v in spec.get("ex", {}).items()}
    if spec.get("nested_sdict"):
        nest_as_sdict(s)
    return s


def enc_spec(spec: dict) -> str:
    return enc_sd(spec["data"], spec.get("lc", {}), spec.get("bc", {}),
                  {i: (v[0], v[1], v[2]) for i, v in spec.get("inc", {}).items()},
                  {i: {"expression": v[0], "name": v[1]} for i, v in spec.get("ex", {}).items()})


def enc_arg(arg) -> str:
    """arg = ('plain', dict) | ('sd', spec)"""
    if arg[0] == "plain":
        return wire.enc_tree(arg[1]) + " none"
    return wire.enc_tree(arg[1]["data"]) + " some " + enc_spec(arg[1])


def enc_op(op) -> str:
    n = op[0]
    if n == "set" or n == "setdefault":
        return f"{n} {wire.enc_key(op[1])} {wire.enc_tree(op[2])}"
    if n in ("del", "pop"):
        return f"{n} {wire.enc_key(op[1])}"
    if n in ("update", "ior"):
        return "update " + enc_arg(op[1])
    if n in ("or", "merge"):
        return f"{n} " + enc_arg(op[1])
    if n == "ror":
        return "ror " + wire.enc_tree(op[1][1])
    return n


def alias_equal(d, seen=None):
    """sub-dicts with equal content become ONE object referenced from several keys (dict.fromkeys(keys, defaults),
    o['front'] = o['rear'] = axle): ordinary Python, invisible in the value of the dict"""
    seen = [] if seen is None else seen
    for k, v in list(d.items()):
        if isinstance(v, dict):
            twin = next((x for x in seen if x == v and x is not v), None)
            if twin is not None:
                d[k] = twin
            else:
                seen.append(v)
                alias_equal(v, seen)
    return d


def arg_value(arg):
    if arg[0] == "plain":
        v = copy.deepcopy(arg[1])
        if ALIAS_ARGS[0]:
            v = alias_equal(v)
        return nest_as_sdict(v) if NEST_ARGS[0] else v
    return mk_sdict(dict(arg[1], nested_sdict=True) if NEST_ARGS[0] else arg[1])


NEST_ARGS = [False]       # set per case by the oracle / the trace (cases with "nested_sdict")
ALIAS_ARGS = [False]      # cases with "alias_args": equal sub-dicts of an argument are one shared object


def apply_impl(s, op):
    """returns (new s, result-tag)"""
    n = op[0]
    if n == "set":
        s[op[1]] = copy.deepcopy(op[2])
    elif n == "del":
        del s[op[1]]
    elif n == "update":
        a = arg_value(op[1])
        if op[1][0] == "plain" and op[-1] == "pairs":
            s.update(list(a.items()))
        else:
            s.update(a)
    elif n == "ior":
        s |= arg_value(op[1])
    elif n == "or":
        s = s | arg_value(op[1])
    elif n == "ror":
        s = copy.deepcopy(op[1][1]) | s
    elif n == "pop":
        s.pop(op[1])
    elif n == "setdefault":
        s.setdefault(op[1], copy.deepcopy(op[2]))
    elif n == "clear":
        s.clear()
    elif n == "copy":
        s = s.copy()
    elif n == "ctor":
        s = type(s)(s)
    elif n == "merge":
        s.merge(arg_value(op[1]))
    else:
        raise ValueError(n)
    return s


def merge_spec(a, b):
    out = copy.deepcopy(a)
    for k, v in b.items():
        if k in out and isinstance(out[k], dict) and isinstance(v, dict):
            out[k] = merge_spec(out[k], v)
        elif k not in out:
            out[k] = copy.deepcopy(v)
    return out


def apply_plain(d: dict, op):
    n = op[0]
    if n == "set":
        d[op[1]] = copy.deepcopy(op[2])
    elif n == "del":
        del d[op[1]]
    elif n in ("update", "ior"):
        d.update(copy.deepcopy(op[1][1] if op[1][0] == "plain" else op[1][1]["data"]))
    elif n == "or":
        d = d | copy.deepcopy(op[1][1] if op[1][0] == "plain" else op[1][1]["data"])
    elif n == "ror":
        d = copy.deepcopy(op[1][1]) | d
    elif n == "pop":
        d.pop(op[1])
    elif n == "setdefault":
        d.setdefault(op[1], copy.deepcopy(op[2]))
    elif n == "clear":
        d.clear()
    elif n == "copy":
        d = d.copy()
    elif n == "ctor":
        d = dict(d)
    elif n == "merge":
        d = merge_spec(d, op[1][1] if op[1][0] == "plain" else op[1][1]["data"])
    return d


def ordinary(case) -> bool:
    return case.get("ordinary", False)


def ctor_oracle(case: dict):
    """construction from a mapping / pairs / an iterator of pairs together with keywords, against dict(arg, **kwargs)"""
    dictIO = _impl()
    data, kw = case["data"], case["kw"]
    for how in ("mapping", "pairs", "iterator", "keywords-only", "sdict"):
        if how == "mapping":
            mk = lambda cls: cls(copy.deepcopy(data), **copy.deepcopy(kw))  # noqa: E731
        elif how == "pairs":
            mk = lambda cls: cls(list(copy.deepcopy(data).items()), **copy.deepcopy(kw))  # noqa: E731
        elif how == "iterator":
            mk = lambda cls: cls(iter(list(copy.deepcopy(data).items())), **copy.deepcopy(kw))  # noqa: E731
        elif how == "sdict":
            mk = lambda cls: cls(dictIO.SDict(copy.deepcopy(data)), **copy.deepcopy(kw))  # noqa: E731
        else:
            mk = lambda cls: cls(**copy.deepcopy(kw))  # noqa: E731
        want = mk(dict)
        try:
            got = mk(dictIO.SDict)
        except TypeError as e:
            if how == "keywords-only":
                continue        # SDict(m=1) binds a keyword to update()'s parameter on the unchanged tree: not claimed
            return ("ctor-raises", f"SDict({how}, **{kw!r}) raised TypeError: {e}")
        except Exception as e:  # noqa: BLE001
            return ("ctor-raises", f"SDict({how}, **{kw!r}) raised {type(e).__name__}: {e}")
        if not isinstance(got, dictIO.SDict):
            return ("not-sdict", f"SDict({how}, **kw) returned {type(got).__name__}")
        if list(got) != list(want) or not gen.typed_eq(gen.plain(dict(got)), want):
            return ("ctor-differs", f"SDict({how} of {data!r}, **{kw!r}) holds {gen.plain(dict(got))!r} (keys {list(got)!r}), dict gives {want!r} (keys {list(want)!r})")
    return None


def alias_oracle(case: dict):
    """substitutability includes what a builtin dict shares: update / |= / | / construction / copy store the argument's
    value OBJECTS, so a nested mapping changed afterwards through another reference shows in both - in lock-step on an SDict
    graph and on a separate plain-dict graph"""
    dictIO = _impl()
    mk_sub = (lambda d: dictIO.SDict(copy.deepcopy(d))) if case["nested_sdict"] else (lambda d: copy.deepcopy(d))
    sub_i, sub_m = mk_sub(case["sub"]), copy.deepcopy(case["sub"])
    arg_i, arg_m = {"sub": sub_i, "n": 1}, {"sub": sub_m, "n": 1}
    a_i, a_m = dictIO.SDict({"top": 0}), {"top": 0}
    b_i, b_m = dictIO.SDict({"other": 0}), {"other": 0}
    how = case["how"]
    try:
        if how == "update":
            a_i.update(arg_i); a_m.update(arg_m)
        elif how == "update-pairs":
            a_i.update(list(arg_i.items())); a_m.update(list(arg_m.items()))
        elif how == "ior":
            a_i |= arg_i; a_m |= arg_m
        elif how == "or":
            a_i = a_i | arg_i; a_m = a_m | arg_m
        elif how == "ctor":
            a_i = dictIO.SDict(arg_i); a_m = dict(arg_m)
        elif how == "setitem":
            a_i["sub"] = sub_i; a_m["sub"] = sub_m
        elif how == "setdefault":
            a_i.setdefault("sub", sub_i); a_m.setdefault("sub", sub_m)
        elif how == "copy":
            a_i["sub"] = sub_i; a_m["sub"] = sub_m
            a_i = a_i.copy(); a_m = a_m.copy()
        elif how in ("ror-empty", "or-empty", "copy-then-change"):
            # an operator / copy returns a NEW dict: changing the result does not change the operand (and vice versa)
            a_i["sub"] = sub_i; a_m["sub"] = sub_m
            r_i, r_m = ({} | a_i, {} | a_m) if how == "ror-empty" else ((a_i | {}, a_m | {}) if how == "or-empty" else (a_i.copy(), a_m.copy()))
            r_i["z"] = 9; r_m["z"] = 9
            a_i.pop("top", None); a_m.pop("top", None)
            for name, gi, gm in (("operand", a_i, a_m), ("result", r_i, r_m)):
                if not gen.typed_eq(gen.plain(dict(gi)), gm):
                    return ("alias", f"{how}: after result['z'] = 9 and operand.pop('top') the SDict {name} holds {gen.plain(dict(gi))!r}, the builtin dict {gm!r}")
        if case["second"]:
            b_i.update(arg_i); b_m.update(arg_m)
        for step, (op, k, v) in enumerate(case["later"]):
            for tgt in ((sub_i, sub_m),):
                if op == "set":
                    tgt[0][k] = copy.deepcopy(v); tgt[1][k] = copy.deepcopy(v)
                elif op == "del" and k in tgt[1]:
                    del tgt[0][k]; del tgt[1][k]
                elif op == "update":
                    tgt[0].update({k: copy.deepcopy(v)}); tgt[1].update({k: copy.deepcopy(v)})
            for name, gi, gm in (("a", a_i, a_m), ("b", b_i, b_m)):
                if not gen.typed_eq(gen.plain(dict(gi)), gm):
                    return ("alias", f"{how}, then step {step} {op} {k!r} on the nested mapping through its own reference: the SDict {name} holds "
                                     f"{gen.plain(dict(gi))!r}, the builtin dict {gm!r}")
    except Exception as e:  # noqa: BLE001
        return ("raises", f"{how} with a nested mapping raised {type(e).__name__}: {e}")
    return None


def oracle(case: dict):
    if case.get("kind") == "alias":
        return alias_oracle(case)
    """lock-step with a builtin dict (ordinary histories); merge laws; argument not modified"""
    if case.get("kind") == "ctor":
        return ctor_oracle(case)
    dictIO = _impl()
    NEST_ARGS[0] = bool(case.get("nested_sdict"))
    ALIAS_ARGS[0] = bool(case.get("alias_args"))
    s = mk_sdict(dict(case["init"], nested_sdict=NEST_ARGS[0]))
    d = copy.deepcopy(case["init"]["data"])
    merged_args = []     # every argument ever passed to merge(): none may change, not by a LATER operation on the SDict either
    for step, op in enumerate(case["ops"]):
        arg_before = copy.deepcopy(op[1]) if op[0] in ("update", "ior", "or", "merge", "ror") else None
        argobj = None
        e1 = e2 = None
        before = gen.plain(dict(s))
        tabs_before = (dict(s.line_comments), dict(s.block_comments), dict(s.includes), dict(s.expressions))
        try:
            if op[0] in ("update", "ior", "or", "merge") and True:
                argobj = arg_value(op[1])
                if op[0] == "update":
                    s.update(list(argobj.items()) if (op[1][0] == "plain" and op[-1] == "pairs") else argobj)
                elif op[0] == "ior":
                    s |= argobj
                elif op[0] == "or":
                    left = s
                    s = s | argobj
                    # a builtin dict leaves both operands of | alone: the left operand keeps its items and its tables
                    if not gen.typed_eq(gen.plain(dict(left)), before) or list(left) != list(before):
                        return ("or-modifies-left", f"step {step}: a | b changed a: {gen.plain(dict(left))!r} was {before!r}")
                    if (dict(left.line_comments), dict(left.block_comments), dict(left.includes), dict(left.expressions)) != tabs_before:
                        return ("or-modifies-left", f"step {step}: a | b changed the tables of a: line comments {dict(left.line_comments)!r} / block comments "
                                                    f"{dict(left.block_comments)!r} were {tabs_before[0]!r} / {tabs_before[1]!r}")
                else:
                    s.merge(argobj)
            else:
                s = apply_impl(s, op)
        except KeyError:
            e1 = "KeyError"
        except Exception as e:  # noqa: BLE001
            return ("op-raises", f"step {step} {op[0]} raised {type(e).__name__}: {e}")
        try:
            d = apply_plain(d, op)
        except KeyError:
            e2 = "KeyError"
        if e1 != e2:
            return ("exception-differs", f"step {step} {op[0]}: SDict {e1}, dict {e2}")
        if not isinstance(s, dictIO.SDict):
            return ("not-sdict", f"step {step} {op[0]} returned {type(s).__name__}, not an SDict")
        if argobj is not None and op[0] == "merge":
            merged_args.append((step, argobj, arg_before[1] if arg_before[0] == "plain" else arg_before[1]["data"]))
        for mstep, mobj, exp in merged_args:
            now = gen.plain(dict(mobj))
            if not gen.typed_eq(now, exp):
                return ("other-modified", f"step {step} {op[0]} modified the argument of the merge of step {mstep}: {now!r} was {exp!r}")
        if ordinary(case):
            got = gen.plain(dict(s))
            if not gen.typed_eq(got, d) or len(s) != len(d) or list(s) != list(d):
                return ("dict-differs", f"step {step} {op[0]}: SDict holds {got!r}, builtin dict {d!r}")
            if op[0] == "merge":
                s2 = s.copy()
                s2.merge(arg_value(op[1]))
                if not gen.typed_eq(gen.plain(dict(s2)), got):
                    return ("merge-not-idempotent", f"step {step}: merging the same argument again changed the data")
                # existing key order kept
                if [k for k in got if k in before] != list(before):
                    return ("merge-order", f"step {step}: merge changed the order of existing keys")
        # tables: update-versus-merge rule
        if op[0] in ("update", "ior", "merge") and op[1][0] == "sd" and not case.get("placeholders"):
            o = mk_sdict(op[1][1])
            for name, tb, ot in (("line_comments", tabs_before[0], o.line_comments), ("block_comments", tabs_before[1], o.block_comments),
                                 ("includes", tabs_before[2], o.includes), ("expressions", tabs_before[3], o.expressions)):
                exp = dict(tb)
                if op[0] == "merge":
                    for k, v in ot.items():
                        exp.setdefault(k, v)
                else:
                    exp.update(ot)
                got = getattr(s, name)
                if list(got.items()) != list(exp.items()):
                    return ("tables", f"step {step} {op[0]}: {name} = {got!r}, expected {exp!r}")
        if op[0] in ("update", "ior", "merge") and op[1][0] == "sd" and case.get("placeholders"):
            # with placeholder entries in the data the closing clean-up may DELETE table rows (duplicates); what stays still
            # follows the rule: merge never replaces a row the target had, update takes the argument's row
            o = mk_sdict(op[1][1])
            for name, tb, ot in (("line_comments", tabs_before[0], o.line_comments), ("block_comments", tabs_before[1], o.block_comments),
                                 ("includes", tabs_before[2], o.includes), ("expressions", tabs_before[3], o.expressions)):
                got = getattr(s, name)
                for k, v in got.items():
                    exp = (tb[k] if k in tb else ot.get(k, v)) if op[0] == "merge" else (ot[k] if k in ot else tb.get(k, v))
                    if v != exp:
                        return ("tables", f"step {step} {op[0]}: {name}[{k}] = {v!r}, the rule gives {exp!r} (target had {tb.get(k)!r}, argument has {ot.get(k)!r})")
                    if k not in tb and k not in ot:
                        return ("tables", f"step {step} {op[0]}: {name}[{k}] appeared from nowhere")
    return None


def shrink(case):
    if case.get("kind") in ("ctor", "alias"):
        return
    ops = case["ops"]
    for i in range(len(ops)):
        c = dict(case)
        c["ops"] = ops[:i] + ops[i + 1:]
        yield c
    c = dict(case)
    c["ops"] = ops[: len(ops) // 2]
    yield c


KNOWN_PREDICATES = {}


# ---- generation -----------------------------------------------------------------------------------
KEYPOOL = ["a", "b", "c", "d", "sub", "lst", 1, 2, "x1"]


def pool_key(rng):
    return rng.choice(KEYPOOL)


def leaf_nodollar(rng):
    return gen.dom_scalar(rng)


def small_tree(rng, depth=0):
    d = {}
    for _ in range(rng.randrange(0, 4)):
        k = pool_key(rng)
        r = rng.random()
        if r < 0.3 and depth < 3:
            d[k] = small_tree(rng, depth + 1)
        elif r < 0.45:
            d[k] = [leaf_nodollar(rng) for _ in range(rng.randrange(0, 3))] + ([small_tree(rng, 3)] if rng.random() < 0.3 else [])
        else:
            d[k] = leaf_nodollar(rng)
    return d


COMMENT_TEXTS = ["// one", "// two", "// one", "/* blk */", "/* other */"]


def sd_spec(rng, placeholders: bool, base=0):
    data = small_tree(rng)
    spec = {"data": data, "lc": {}, "bc": {}, "inc": {}, "ex": {}}
    n = rng.randrange(0, 4)
    for j in range(n):
        i = rng.choice([base + j, rng.randrange(0, 8)])
        kind = rng.randrange(4)
        if kind == 0:
            spec["lc"][i] = rng.choice(COMMENT_TEXTS[:3])
            if placeholders:
                _put(rng, data, f"LINECOMMENT{i:06d}")
        elif kind == 1:
            spec["bc"][i] = rng.choice(COMMENT_TEXTS[3:])
            if placeholders:
                _put(rng, data, f"BLOCKCOMMENT{i:06d}")
        elif kind == 2:
            nm = rng.choice(["p1", "p2", "sub/p1"])
            spec["inc"][i] = (f"#include '{nm}'", nm, f"/work/{nm}")
            if placeholders:
                _put(rng, data, f"INCLUDE{i:06d}")
        else:
            spec["ex"][i] = (rng.choice(["$a", "$b + 1", "$sub"]), f"EXPRESSION{i:06d}")
            if placeholders:
                _put(rng, data, None, f"EXPRESSION{i:06d}")
    return spec


def _put(rng, data, key, value=None):
    tgt = data
    subs = [v for v in data.values() if isinstance(v, dict)]
    if subs and rng.random() < 0.4:
        tgt = rng.choice(subs)
    if key is None:
        tgt[rng.choice(["a", "b", "e"])] = value
    else:
        tgt[key] = key


def rand_op(rng, placeholders: bool):
    n = rng.choice(["set", "set", "del", "update", "update", "ior", "or", "ror", "pop", "setdefault", "clear", "copy", "ctor",
                    "merge", "merge", "merge"])
    if n in ("set", "setdefault"):
        return (n, pool_key(rng), rng.choice([leaf_nodollar(rng), small_tree(rng), [1, 2]]))
    if n in ("del", "pop"):
        return (n, pool_key(rng))
    if n in ("update", "ior", "or", "merge"):
        if rng.random() < 0.4:
            return (n, ("sd", sd_spec(rng, placeholders, base=rng.randrange(0, 6))), "")
        return (n, ("plain", small_tree(rng)), rng.choice(["", "pairs"]) if n == "update" else "")
    if n == "ror":
        return (n, ("plain", small_tree(rng)))
    return (n,)


def add_orphans(rng, tree):
    """placeholder-named keys that no lookup table knows (ordinary str keys as far as the dict API goes): several of
    one kind on one level, ids that collide with nothing"""
    tgt = tree
    subs = [v for v in tree.values() if isinstance(v, dict)]
    if subs and rng.random() < 0.4:
        tgt = rng.choice(subs)
    kind = rng.choice(["LINECOMMENT", "BLOCKCOMMENT", "INCLUDE"])
    for _ in range(rng.randrange(2, 4)):
        k = f"{kind}{rng.randrange(100, 140):06d}"
        # (a value equal to its own key is the self-naming placeholder entry, which merge may overwrite: documented
        # exception covered by the placeholder histories and the model; here the values are ordinary)
        tgt[k] = rng.choice([1, "text", "// c", [1, 2]])
    return tree


def orphan_case(rng):
    init = {"data": add_orphans(rng, small_tree(rng)), "lc": {}, "bc": {}, "inc": {}, "ex": {}}
    ops = []
    for _ in range(rng.randrange(1, 9)):
        op = rand_op(rng, False)
        if op[0] in ("update", "ior", "or", "merge", "ror") and rng.random() < 0.6:
            arg = op[1]
            if arg[0] == "plain":
                arg = ("plain", add_orphans(rng, arg[1]))
            else:
                arg[1]["data"] = add_orphans(rng, arg[1]["data"])
            op = (op[0], arg) + tuple(op[2:])
        ops.append(op)
    return {"init": init, "ops": ops, "ordinary": True, "placeholders": False, "orphans": True, "nested_sdict": rng.random() < 0.5}


def run_histories(ctx, cases):
    lines = [f"sd_trace {enc_spec(c['init'])} " + wire.enc_list(c["ops"], enc_op) for c in cases]
    mout = wire.run_model_sharded(lines)
    for c, ml in zip(cases, mout):
        # implementation trace in the model's syntax
        NEST_ARGS[0] = bool(c.get("nested_sdict"))
        ALIAS_ARGS[0] = bool(c.get("alias_args"))
        s = mk_sdict(dict(c["init"], nested_sdict=NEST_ARGS[0]))
        parts = [f"l{len(c['ops'])}"]
        for op in c["ops"]:
            try:
                s = apply_impl(s, op)
                parts.append("ok " + enc_sdict_obj(s))
            except KeyError:
                parts.append("raise 4")
            except Exception as e:  # noqa: BLE001
                parts.append(f"raise-other {type(e).__name__}")
        il = " ".join(parts)
        ctx.corr_compared += 1
        if il != ml:
            if len(ctx.disagreements) < 30:
                ctx.disagree("sd_trace", c, ml[:3000], il[:3000])
        r = oracle(c)
        if r:
            ctx.oracle_fail(c, r[0], r[1])
        nontrivial = any(op[0] in ("update", "ior", "or", "ror", "merge") for op in c["ops"])
        ctx.count(("h", repr(c)), nontrivial, "orphan-placeholders" if c.get("orphans") else "ordinary" if c.get("ordinary") else "placeholders",
                  sample={"init": c["init"]["data"], "ops": [str(op)[:120] for op in c["ops"][:6]]} if nontrivial else None)
        for op in c["ops"]:
            ctx.classes["op:" + op[0]] += 1


def run(ctx):
    rng = ctx.rng
    cases = []
    for i in range(ctx.n(800, 25000)):
        placeholders = i % 3 == 2
        init = sd_spec(rng, placeholders)
        ops = [rand_op(rng, placeholders) for _ in range(rng.randrange(1, 26 if i % 10 == 0 else 9))]
        cases.append({"init": init, "ops": ops, "ordinary": not placeholders, "placeholders": placeholders})
    for i in range(ctx.n(150, 4000)):
        cases.append(orphan_case(rng))
    # merge into an EMPTY target (fresh, or emptied by clear() with its tables left), then operations that reach into the
    # nested levels the merge brought in: the merged-in dict must not change, then or later
    for i in range(ctx.n(200, 5000)):
        placeholders = i % 4 == 3
        init = sd_spec(rng, placeholders)
        first = {"sub": small_tree(rng, 1), "n": {"deep": {"x": 1}}, **small_tree(rng)}
        ops = []
        if i % 2:
            init["data"] = {}
        else:
            ops.append(("clear",))
        ops.append(("merge", ("plain", first) if rng.random() < 0.6 else ("sd", dict(sd_spec(rng, placeholders, base=3), data=first)), ""))
        for _ in range(rng.randrange(1, 5)):
            if rng.random() < 0.6:
                ops.append(("merge", ("plain", {"sub": {pool_key(rng): leaf_nodollar(rng)}, "n": {"deep": {pool_key(rng): 2}, "y": 3}}), ""))
            else:
                ops.append(rand_op(rng, placeholders))
        cases.append({"init": init, "ops": ops, "ordinary": not placeholders, "placeholders": placeholders})
    # arguments that reference ONE sub-dict object from several key paths, merged into a target that has those paths as dicts
    for i in range(ctx.n(120, 2500)):
        blk = {pool_key(rng): leaf_nodollar(rng) for _ in range(rng.randrange(2, 4))}
        blk2 = dict(blk, inner={"x": 0, "y": 5})
        names = rng.sample(["left", "right", "front", "rear", "a1", "b1"], rng.randrange(2, 4))
        init = {"data": {nm: {k: "own" for k in list(blk)[: rng.randrange(0, 2)]} for nm in names}, "lc": {}, "bc": {}, "inc": {}, "ex": {}}
        init["data"]["deep"] = {nm: {"inner": {"x": 1}} for nm in names[:2]}
        other = {nm: copy.deepcopy(blk) for nm in names}
        other["deep"] = {nm: copy.deepcopy(blk2) for nm in names[:2]}
        ops = [(rng.choice(["merge", "merge", "update", "ior"]), ("plain", other), "")]
        if rng.random() < 0.5:
            ops.append(("merge", ("plain", {nm: {"late": 1} for nm in names}), ""))
        cases.append({"init": init, "ops": ops, "ordinary": True, "placeholders": False, "alias_args": True})
    # what a builtin dict shares: nested mappings changed later through another reference
    for i in range(ctx.n(60, 600)):
        c = {"kind": "alias", "how": rng.choice(["update", "update-pairs", "ior", "or", "ctor", "setitem", "setdefault", "copy", "ror-empty", "or-empty", "copy-then-change"]),
             "nested_sdict": rng.random() < 0.5, "second": rng.random() < 0.4, "sub": small_tree(rng, 1),
             "later": [(rng.choice(["set", "set", "del", "update"]), pool_key(rng), rng.choice([1, "x", {"q": 1}])) for _ in range(rng.randrange(1, 4))]}
        r = oracle(c)
        if r:
            ctx.oracle_fail(c, r[0], r[1])
        ctx.count(("al", repr(c)), True, "alias")
    # two SDicts whose tables use the SAME ids for different entries (ids are unique per counter run only): the argument
    # brings a placeholder entry the target lacks on that level, the target uses that id elsewhere or keeps a left-over row
    for i in range(ctx.n(60, 1200)):
        n = rng.randrange(0, 6)
        kind = rng.choice(["lc", "bc", "inc"])
        word = {"lc": "LINECOMMENT", "bc": "BLOCKCOMMENT", "inc": "INCLUDE"}[kind]
        val = {"lc": ("// about x", "// about b"), "bc": ("/* licence */", "/* about y */"),
               "inc": (("#include 'p1'", "p1", "/work/p1"), ("#include 'sub/p1'", "sub/p1", "/work/sub/p1"))}[kind]
        ph = f"{word}{n:06d}"
        init = {"data": {"x": 1, "sub": {"y": 2}}, "lc": {}, "bc": {}, "inc": {}, "ex": {}}
        init[kind][n] = val[0]
        where = rng.randrange(3)
        if where == 0:
            init["data"]["sub"][ph] = ph          # the target uses the id one level down
        elif where == 1:
            init["data"] = {ph: ph, **init["data"]}      # ... or at the top, and the argument brings it one level down
        arg = {"data": {"b": 3, "sub": {"z": 4}}, "lc": {}, "bc": {}, "inc": {}, "ex": {}}
        arg[kind][n] = val[1]
        if where == 1:
            arg["data"]["sub"][ph] = ph
        else:
            arg["data"] = {ph: ph, **arg["data"]}
        ops = [(rng.choice(["merge", "merge", "update", "ior"]), ("sd", arg), "")]
        if rng.random() < 0.4:
            ops.append(rand_op(rng, True))
        cases.append({"init": init, "ops": ops, "ordinary": False, "placeholders": True})
    # the self-reference exception of merge (correspondence only; outside the ordinary domain)
    for i in range(ctx.n(100, 2000)):
        k = rng.choice(["a", "b", "ab"])
        v = rng.choice(["$a", "$ab", "$a[0]", "banana", "$b + $a", "a", "x$a", "$a1"])
        init = {"data": {k: v, "z": {k: v}}, "lc": {}, "bc": {}, "inc": {}, "ex": {}}
        if rng.random() < 0.5:
            init["ex"] = {3: (v, "EXPRESSION000003")}
            init["data"][k] = "EXPRESSION000003"
        ops = [("merge", ("plain", {k: "new", "z": {k: "new"}, "q": 1}), "")]
        cases.append({"init": init, "ops": ops, "ordinary": False, "placeholders": True})
    if ctx.tier == "thorough":
        alphabet = [
            ("set", "a", 1), ("set", "sub", {"a": 1}), ("del", "a"), ("update", ("plain", {"a": {"n": 1}, "b": 2}), ""),
            ("ior", ("plain", {"sub": {"b": 2}})), ("or", ("plain", {"b": 3, 1: 1}), ""), ("ror", ("plain", {"a": 0, "z": 9})),
            ("pop", "b"), ("setdefault", "a", 7), ("clear",), ("copy",), ("merge", ("plain", {"a": 5, "sub": {"a": 2, "c": 3}}), ""),
        ]
        for n in range(1, 4):
            for ops in itertools.product(alphabet, repeat=n):
                cases.append({"init": {"data": {"a": 0, "sub": {"a": 0}}, "lc": {}, "bc": {}, "inc": {}, "ex": {}},
                              "ops": list(ops), "ordinary": True, "placeholders": False})
        ctx.extra["exhaustive_part"] = "every history of length <= 3 over a 12-op alphabet"
    run_histories(ctx, cases)
    # construction with keywords (oracle only: the model's constructor takes one mapping)
    for i in range(ctx.n(120, 3000)):
        data = {k: v for k, v in small_tree(rng).items()}
        kw = {k: rng.choice([leaf_nodollar(rng), small_tree(rng, 2), [1, 2]]) for k in rng.sample(["a", "b", "c", "d", "sub", "x1", "zz", "clean", "order", "key", "default", "other", "copy", "data", "name"], rng.randrange(1, 4))}
        c = {"kind": "ctor", "data": data, "kw": kw}
        r = oracle(c)
        if r:
            ctx.oracle_fail(c, r[0], r[1])
        ctx.count(("k", repr(c)), bool(set(kw) & set(data)), "ctor-keywords")
    if ctx.classes["ordinary"] == 0 or ctx.classes["placeholders"] == 0:
        raise RuntimeError("generator starved")
