"""C01  Native dict files: what is written is what is read back."""
from __future__ import annotations

import copy
import itertools
import shutil

from harness import gen, native, wire

RULE = (
    "seeded dicts of the supported value domain (depth <= 9, int and single-word str keys, empty containers, lists of "
    "dicts, strings drawn per writer quoting class and reader hazard: blanks, path separators, punctuation, structural "
    "characters, leading/trailing backslashes, non-ASCII, one inner quoted segment, strings spelling numbers/bools), "
    "through the three public routes (formatter+parser, DictWriter+DictReader, dump+load); thorough adds every string "
    "of length <= 3 over a 20-character alphabet as a single leaf and as a list item; non-trivial = contains a quoted / "
    "re-typed string, an int key, a nested list of dicts or depth >= 3; distinct = distinct dicts"
)
ASSUMPTIONS = [
    "value domain as in harness/gen.py in_str_domain / dom_tree (printed in DESIGN.md section 3): single-line strings free of "
    "'$', '//', '/*', '*/', placeholder words, '#include' at the start, str.splitlines break characters; at most one inner "
    "quoted segment p q..q s with non-empty quote-free p, s and no backslash directly before a quote; finite floats",
    "file I/O returns the text written (trusted)",
]
TRUSTED_BASE = ["re semantics of the pipeline's patterns (hand-written recognisers in Model/Lexer.v, validated by the correspondence run)"]

ALPHA20 = "ab1 ;,{}()<>[]\\/:.-'"


def routes(d):
    """yield (route name, result dict) or raise"""
    dictIO = native.dictio()
    txt = dictIO.NativeFormatter().to_string(copy.deepcopy(d))
    r1 = dictIO.NativeParser().parse_string(txt, dictIO.SDict())
    yield "formatter+parser", gen.plain(dict(r1))
    tmp = native.scratch_dir("c01_")
    try:
        f = tmp / "rt"
        dictIO.DictWriter.write(copy.deepcopy(d), f, mode="w")
        yield "DictWriter+DictReader", gen.plain(dict(dictIO.DictReader.read(f)))
        g = tmp / "dl"
        dictIO.SDict(copy.deepcopy(d)).dump(g)
        yield "dump+load", gen.plain(dict(dictIO.SDict().load(g)))
    finally:
        shutil.rmtree(tmp, ignore_errors=True)


def session_oracle(case: dict):
    """ONE parser object (and one formatter object) serves a sequence of dicts, through parse_string and through
    DictReader.read(file, parser=...), with counter resets in between: every result is that of a fresh parser"""
    dictIO = native.dictio()
    ps, fm = dictIO.NativeParser(), dictIO.NativeFormatter()
    tmp = native.scratch_dir("c01s_")
    try:
        for i, (d, how) in enumerate(zip(case["trees"], case["how"])):
            exp = native.normalise(d)
            try:
                if how == "reset":
                    dictIO.SDict().reset()
                txt = fm.to_string(copy.deepcopy(d))
                if how == "file":
                    f = tmp / f"s{i}"
                    f.write_text(txt)
                    got = gen.plain(dict(dictIO.DictReader.read(f, parser=ps)))
                else:
                    got = gen.plain(dict(ps.parse_string(txt, dictIO.SDict())))
            except Exception as e:  # noqa: BLE001
                return ("raises", f"step {i} of a session with one parser object raised {type(e).__name__}: {e}")
            got = native.strip_placeholders(got, kinds=("BLOCKCOMMENT",))
            if not gen.typed_eq(got, exp):
                return ("differs", f"step {i} ({how}) of a session with one parser object: read back {got!r}, expected {exp!r}")
        return None
    finally:
        shutil.rmtree(tmp, ignore_errors=True)


def ndarray_oracle(case: dict):
    """numeric NumPy arrays as leaves (what a read with NumPy expressions leaves in a dict): written item by item, they read
    back as the nested list of their items, whatever their size"""
    import numpy as np

    def mk(spec):
        n = 1
        for k in spec["shape"]:
            n *= k
        a = (np.arange(n) * spec["step"]).astype(spec["dtype"]).reshape(spec["shape"])
        return a

    arrs = {k: mk(v) for k, v in case["arrays"].items()}
    d = {"n": 1, "mesh": {k: a for k, a in arrs.items()}, "rows": [list(arrs.values())[0], 2]}
    exp = {"n": 1, "mesh": {k: a.tolist() for k, a in arrs.items()}, "rows": [list(arrs.values())[0].tolist(), 2]}
    it = routes(d)
    while True:
        try:
            name, got = next(it)
        except StopIteration:
            return None
        except Exception as e:  # noqa: BLE001
            return ("raises", f"round trip of a dict with arrays raised {type(e).__name__}: {e}")
        got = native.strip_placeholders(got, kinds=("BLOCKCOMMENT",))
        if not gen.typed_eq(got, native.normalise(exp)):
            sizes = {k: (len(v) if isinstance(v, list) else None) for k, v in got.get("mesh", {}).items()}
            return ("differs", f"route {name}: arrays {case['arrays']} read back with top-level lengths {sizes} (expected the full nested lists)")


def oracle(case: dict):
    if case.get("kind") == "session":
        return session_oracle(case)
    if case.get("kind") == "ndarray":
        return ndarray_oracle(case)
    d = case["t"]
    exp = native.normalise(d)
    it = routes(d)
    while True:
        try:
            name, got = next(it)
        except StopIteration:
            return None
        except Exception as e:  # noqa: BLE001
            return ("raises", f"round trip raised {type(e).__name__}: {e}")
        got = native.strip_placeholders(got, kinds=("BLOCKCOMMENT",))
        if not gen.typed_eq(got, exp):
            return ("differs", f"route {name}: read back {got!r}, expected {exp!r}")


def shrink(case):
    if case.get("kind") == "ndarray":
        return
    if case.get("kind") == "session":
        for i in range(len(case["trees"])):
            if len(case["trees"]) > 1:
                yield dict(case, trees=case["trees"][:i] + case["trees"][i + 1:], how=case["how"][:i] + case["how"][i + 1:])
        return
    for t2 in gen.shrink_tree(case["t"]):
        if gen.tree_depth(t2) <= 9 and _in_domain(t2):
            yield {"t": t2}


def _in_domain(t) -> bool:
    if isinstance(t, dict):
        return all(_in_domain(v) for v in t.values())
    if isinstance(t, list):
        return all(_in_domain(v) for v in t)
    if isinstance(t, str):
        return gen.in_str_domain(t)
    return True


KNOWN_PREDICATES = {}


def nontrivial(t) -> bool:
    dictIO = native.dictio()
    fm = dictIO.NativeFormatter()
    found = [False]

    def go(x, depth):
        if depth >= 3:
            found[0] = True
        if isinstance(x, dict):
            for k, v in x.items():
                if isinstance(k, int):
                    found[0] = True
                go(v, depth + 1)
        elif isinstance(x, list):
            for v in x:
                if isinstance(v, dict):
                    found[0] = True
                go(v, depth + 1)
        elif isinstance(x, str):
            if fm.format_value(x) != x or gen.spells_typed(x):
                found[0] = True
    go(t, 0)
    return found[0]


def gen_case(rng, i):
    shape = i % 10
    if shape == 0:
        depth = rng.randrange(5, 10)
        t = gen.deep_chain(rng, depth - 1, gen.dom_string(rng))
        t = {gen.plain_key(rng): t}
        while gen.tree_depth(t) > 9:
            t = next(iter(t.values()))
            if not isinstance(t, dict):
                t = {"k": 1}
        return t
    if shape == 1:
        return {gen.plain_key(rng): gen.dom_string(rng, cls) for cls in rng.sample(gen.STR_CLASSES, 4)}
    if shape == 2:
        return {gen.plain_key(rng): [gen.dom_string(rng) for _ in range(rng.randrange(0, 13))], gen.int_key(rng): {}}
    return gen.dom_tree(rng, max_nodes=rng.choice([8, 20, 40]), max_depth=rng.choice([2, 4, 6]),
                        int_keys=0.15, leaf=lambda r: gen.dom_scalar(r))


def run_cases(ctx, trees, label):
    dictIO = native.dictio()
    fm = dictIO.NativeFormatter()
    # correspondence (i): written text, byte for byte
    mtxt = wire.run_model_sharded(["to_string_plain " + wire.enc_tree(t) for t in trees])
    itxts = []
    for t, ml in zip(trees, mtxt):
        try:
            itxt = fm.to_string(copy.deepcopy(t))
        except Exception as e:  # noqa: BLE001
            itxt = None
            ctx.disagree("to_string", {"t": t}, ml[:300], f"raise {type(e).__name__}")
        itxts.append(itxt)
        ctx.corr_compared += 1
        if itxt is not None and wire.Reader(ml).str() != itxt:
            ctx.disagree("to_string", {"t": t}, wire.Reader(ml).str()[:2000], itxt[:2000])
    # correspondence (ii): reader on that text (tokens, then parse_string)
    plines, ilines, cases = [], [], []
    for t, itxt in zip(trees, itxts):
        if itxt is None:
            continue
        native.set_counter(-1)
        plines.append(native.model_parse_line(itxt, count=-1))
        ilines.append(native.impl_parse_line(itxt))
        cases.append({"t": t})
    mout = wire.run_model_sharded(plines)
    ctx.compare("parse_string(to_string(d))", cases, mout, ilines)
    # oracle: the three routes on the implementation
    for t in trees:
        c = {"t": t}
        r = oracle(c)
        if r:
            ctx.oracle_fail(c, r[0], r[1])
        nt = nontrivial(t)
        ctx.count(("t", wire.enc_tree(t)), nt, label, sample={"dict": t} if nt and len(ctx.samples) < 5 else None)


def run(ctx):
    rng = ctx.rng
    trees = [gen_case(rng, i) for i in range(ctx.n(1200, 40000))]
    trees = [t for t in trees if gen.tree_depth(t) <= 9]
    run_cases(ctx, trees, "random")
    # deep dicts: strings that need quoting at key paths of 9 and of exactly 10 entries (the documented nesting limit),
    # through dicts only, through lists, through a list of dicts
    deep = []
    for i in range(ctx.n(18, 120)):
        target = 9 + i % 2
        shape = (i // 2) % 3
        names = [gen.word(rng, 1, 5) + str(j) for j in range(10)]
        if shape == 0:
            t, nlev = {"s": rng.choice(["two words", "a;b", ""]), "n": i}, target - 1
        elif shape == 1:
            t, nlev = {"m": [["x axis", "u"], ["v", "w z"]], "n": 2}, target - 3
        else:
            t, nlev = {"items": [{"spec": {"name": "left wheel", "size": 4}}, {"spec": {"name": "r w", "size": 5}}]}, target - 4
        for k in reversed(names[:nlev]):
            t = {k: t}
        deep.append(t)
    run_cases(ctx, deep, "deep")
    # NumPy arrays as leaves, also beyond NumPy's print threshold of 1000 elements
    for i, spec in enumerate([{"a": {"shape": [5], "dtype": "int64", "step": 1}}, {"a": {"shape": [1000], "dtype": "int64", "step": 1}},
                              {"a": {"shape": [1500], "dtype": "int64", "step": 1}}, {"f": {"shape": [40, 30], "dtype": "float64", "step": 0.5}},
                              {"b": {"shape": [3, 3], "dtype": "float64", "step": 0.25}, "c": {"shape": [1024], "dtype": "float64", "step": 0.1}},
                              {"u": {"shape": [2, 3, 4], "dtype": "int32", "step": 2}}]):
        c = {"kind": "ndarray", "arrays": spec}
        r = oracle(c)
        if r:
            ctx.oracle_fail(c, r[0], r[1])
        ctx.count(("nd", i), True, "ndarray")
    # sessions: one parser object over several dicts that share quoted leaves (the same dict again, the same strings in
    # other places), string and file route, counter resets in between
    for i in range(ctx.n(40, 800)):
        k = rng.randrange(2, 6)
        base = [t for t in (gen_case(rng, 7 * i + j) for j in range(k)) if gen.tree_depth(t) <= 9] or [{"a": "two words"}]
        seq = []
        for j in range(k):
            t = copy.deepcopy(rng.choice(base))
            if rng.random() < 0.5:
                t = {"unit": "m3 / h", "name": rng.choice(["feed pump", "spare pump"]), **t, "again": ["feed pump", rng.choice(["m3 / h", "x y"])]}
            seq.append(t)
        c = {"kind": "session", "trees": seq, "how": [rng.choice(["string", "string", "file", "reset"]) for _ in seq]}
        r = oracle(c)
        if r:
            ctx.oracle_fail(c, r[0], r[1])
        ctx.count(("s", repr(c)), True, "session")
    # class coverage of strings
    for cls in gen.STR_CLASSES:
        ctx.classes["str:" + cls] += 0
    if ctx.tier == "thorough":
        small = []
        for n in range(0, 4):
            for tup in itertools.product(ALPHA20, repeat=n):
                s = "".join(tup)
                if gen.in_str_domain(s):
                    small.append({"k": s, "l": [s, "x"]})
        run_cases(ctx, small, "exhaustive-short-strings")
        ctx.extra["exhaustive_part"] = f"{len(small)} dicts: every in-domain string of length <= 3 over {ALPHA20!r} as leaf and list item"
    # the known finding is re-established explicitly
    c = {"t": {"x": "a b", "y": "say 'a b' now"}}
    r = oracle(c)
    ctx.count(("known-probe", "overlap"), True, "known-probe")
    if r:
        ctx.oracle_fail(c, r[0], r[1])
    if ctx.classes["random"] == 0:
        raise RuntimeError("generator starved")
