"""Shared adapters for the native text pipeline: implementation results in the model's output syntax."""
from __future__ import annotations

import os
from pathlib import Path

from harness import gen, wire
from harness.props.c07 import enc_sdict_obj
from harness.props.c04 import spec_classify

ERRCODE = {"ValueError": 1, "TypeError": 2, "IndexError": 3, "KeyError": 4, "RecursionError": 5}


def dictio():
    import dictIO

    return dictIO


def counter_value() -> int:
    from dictIO.utils.counter import BorgCounter

    return BorgCounter.Borg["theCount"]


def set_counter(v: int):
    from dictIO.utils.counter import BorgCounter

    BorgCounter.Borg["theCount"] = v


def model_parse_line(text: str, comments: bool = True, count: int | None = None, cwd: str | None = None) -> str:
    c = counter_value() if count is None else count
    return f"parse_string {wire.enc_bool(comments)} {wire.enc_str(cwd or os.getcwd())} i{c} {wire.enc_str(text)}"


def impl_parse_line(text: str, comments: bool = True, foam: bool = False) -> str:
    """NativeParser.parse_string(text, SDict()) rendered like the model's `parse_string` output"""
    d = dictio()
    parser = d.FoamParser() if foam else d.NativeParser()
    try:
        s = parser.parse_string(text, d.SDict(), comments=comments)
    except (ValueError, TypeError, IndexError, KeyError, RecursionError) as e:
        return f"raise {ERRCODE[type(e).__name__]}"
    except Exception as e:  # noqa: BLE001
        return f"raise-other {type(e).__name__}"
    try:
        return "ok " + enc_sdict_obj(s) + f" i{counter_value()}"
    except TypeError as e:
        return f"unencodable {e}"


def impl_tokens(text: str, comments: bool = True):
    """tokens after _convert_block_content_to_tokens (stage-wise comparison)"""
    d = dictio()
    p = d.NativeParser()
    s = d.SDict()
    s.line_content = text.splitlines(keepends=True)
    p._extract_line_comments(s, comments=comments)
    p._extract_includes(s)
    p._convert_line_content_to_block_content(s)
    p._extract_block_comments(s, comments=comments)
    p._remove_line_endings_from_block_content(s)
    p._extract_string_literals(s)
    p._extract_expressions(s)
    p._separate_delimiters(s)
    p._convert_block_content_to_tokens(s)
    return [t[1] for t in s.tokens], dict(s.string_literals)


def normalise(t):
    """documented element-type normalisation: a string leaf spelling a number / bool / none is re-typed"""
    if isinstance(t, dict):
        return {k: normalise(v) for k, v in t.items()}
    if isinstance(t, (list, tuple)):
        return [normalise(v) for v in t]
    if isinstance(t, str):
        return spec_classify(t)
    return t


def strip_placeholders(d: dict, kinds=("BLOCKCOMMENT", "LINECOMMENT")) -> dict:
    """drop the header / comment placeholder entries the reader adds (every dict level)"""
    def go(x):
        if isinstance(x, dict):
            return {k: go(v) for k, v in x.items() if not (isinstance(k, str) and any(w in k for w in kinds))}
        if isinstance(x, list):
            return [go(v) for v in x]
        return x
    return go(d)


def scratch_dir(prefix: str) -> Path:
    import tempfile

    base = os.environ.get("VERIF_SCRATCH", "/var/tmp")
    return Path(tempfile.mkdtemp(prefix=prefix, dir=base))


_PH = None


def canon_ids(t):
    """rename placeholder ids (LINECOMMENT / BLOCKCOMMENT / INCLUDE / EXPRESSION / STRINGLITERAL + 6 digits) by first
    occurrence, per kind, in keys and string values: results become independent of the counter value"""
    import re

    pat = re.compile(r"(LINECOMMENT|BLOCKCOMMENT|INCLUDE|EXPRESSION|STRINGLITERAL)(\d{6})")
    seen: dict[tuple[str, str], int] = {}
    counts: dict[str, int] = {}

    def ren(m):
        k = (m.group(1), m.group(2))
        if k not in seen:
            seen[k] = counts.get(m.group(1), 0)
            counts[m.group(1)] = seen[k] + 1
        return f"{m.group(1)}#{seen[k]}"

    def go(x):
        if isinstance(x, dict):
            return {(pat.sub(ren, k) if isinstance(k, str) else k): go(v) for k, v in x.items()}
        if isinstance(x, list):
            return [go(v) for v in x]
        if isinstance(x, str):
            return pat.sub(ren, x)
        return x
    return go(t)
