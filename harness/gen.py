"""Seeded, class-driven generators shared by the property modules (one random.Random per run)."""
from __future__ import annotations

import copy
import re

LETTERS = "abcdefgxyzABCXYZ"
WORDCH = LETTERS + "0123456789_"
STRUCT = ";,{}()<>[]"
NONASCII = "äöÜßéΩλ日本語"
RESERVED_WORDS = ("BLOCKCOMMENT", "LINECOMMENT", "INCLUDE", "EXPRESSION", "STRINGLITERAL", "COMMENT")
SPLITLINE_BREAKS = "\n\r\x0b\x0c\x1c\x1d\x1e\x85\u2028\u2029"
_NUMLIKE = re.compile(r"^[+-]?(\d+(\.\d*)?|\.\d+)([eE][-+]?\d+)?$")
_WORDS = {"true", "false", "on", "off", "none", "null"}


def spells_typed(s: str) -> bool:
    """a string that the element-type table re-types (number / bool / none)"""
    return bool(_NUMLIKE.match(s)) or s.strip().lower() in _WORDS


def word(rng, lo=1, hi=8) -> str:
    n = rng.randrange(lo, hi + 1)
    s = rng.choice(LETTERS + "_") + "".join(rng.choice(WORDCH + ".-") for _ in range(n - 1))
    return s


def plain_key(rng) -> str:
    """single-word key: [A-Za-z_][\\w.-]*, not a placeholder word, not spelling a number/bool/none"""
    while True:
        # mostly short; one in nine is long enough to use up the value column of the writer's layout
        # (30 columns minus 4 per nesting level, minimum gap 8) at every nesting depth
        s = word(rng, 1, 7) if rng.random() < 0.89 else word(rng, 14, 36)
        if any(w in s for w in RESERVED_WORDS) or spells_typed(s) or s in ("-", "_", "."):
            continue
        return s


def int_key(rng) -> int:
    return rng.choice([0, 1, 2, 3, 7, 10, 42, -1, -5, 100, 999999, rng.randrange(-1000, 1000)])


def adversarial_key(rng) -> str:
    return rng.choice([
        "a'b", 'a"b', "a']['b", "x'] or __import__('os').system('true') or self['x", "a[0]", "[a]", "a b", "",
        "'", "']", "__class__", "a\\", "\\'", "1", "-1", "0", "None", "a.b", "$a", "a;b", "a{b}", "ä", "日本",
    ])


def rand_float(rng) -> float:
    m = rng.randrange(5)
    if m == 0:
        return float(rng.randrange(-1000, 1000))
    if m == 1:
        return round(rng.uniform(-1000, 1000), rng.randrange(0, 6))
    if m == 2:
        return rng.uniform(-1, 1) * 10.0 ** rng.randrange(-30, 30)
    if m == 3:
        return rng.choice([0.0, -0.0, 1e22, 1e16, 5e-324, 1e-7, 0.1, 1.5, 2.5e-5, 1.7976931348623157e308])
    return rng.random()


# ---- strings of the C01 value domain, drawn per writer quoting class / reader hazard -------------
STR_CLASSES = ["single", "multi", "path", "struct", "backslash", "nested_sq", "nested_dq", "nonascii", "empty",
               "typed", "punct", "glued", "nearnum"]
# strings that Python's int() / float() / bool conversions would accept or that look numeric, but which the documented
# number grammar does not: they are strings
NEARNUM = ["1_0", "2024_01", "10_20.5", "nan", "NaN", "inf", "-inf", "Infinity", " 12 ", "12 ", " 1.5", "0x10", "1j", "1e", "e5",
           "--1", "+-2", "1.2.3", "1,5", "yes", "no", "t", "f", "nil", "0b1", "1__0", "_1", "1_"]


def dom_string(rng, cls: str | None = None) -> str:
    # boundary sizes: one string in forty is long (well beyond any line width, padding column or buffer a writer might assume)
    cls = cls or ("long" if rng.random() < 0.025 else rng.choice(STR_CLASSES))
    while True:
        if cls == "long":
            m = rng.randrange(3)
            if m == 0:
                s = " ".join(word(rng, 1, 9) for _ in range(rng.randrange(20, 60)))
            elif m == 1:
                s = "".join(word(rng, 3, 9) for _ in range(rng.randrange(18, 40)))           # one unbroken word
            else:
                s = rng.choice(["C:/", "/", "../"]) + "/".join(word(rng, 2, 9) for _ in range(rng.randrange(15, 40)))
        elif cls == "single":
            s = word(rng, 1, 10)
        elif cls == "multi":
            s = " ".join(word(rng, 1, 5) for _ in range(rng.randrange(2, 4)))
            if rng.random() < 0.3:
                # runs of blanks, tabs, and white space beyond ASCII (NBSP, EM SPACE, NNBSP, IDEOGRAPHIC SPACE: \s for re)
                s = s.replace(" ", rng.choice(["  ", "\t", " \t ", "   ", "\u00a0", "\u2003", "\u202f", "\u3000", " \u00a0 "]), 1)
            if rng.random() < 0.2:
                s = rng.choice([" ", "\t"]) + s
            if rng.random() < 0.2:
                s = s + rng.choice([" ", "\t"])
        elif cls == "path":
            s = rng.choice(["C:/", "/", "./", "../", "a/", "C:\\", "\\\\srv\\", "a:"]) + rng.choice(["", "\\", "/"]).join(
                word(rng, 1, 4) for _ in range(rng.randrange(1, 4)))
        elif cls == "struct":
            n = rng.randrange(1, 6)
            s = "".join(rng.choice(STRUCT + LETTERS[:6] + "0") for _ in range(n))
            if not any(c in STRUCT for c in s):
                s += rng.choice(STRUCT)
        elif cls == "backslash":
            s = word(rng, 0 + 1, 4)
            m = rng.randrange(4)
            s = "\\" + s if m == 0 else s + "\\" if m == 1 else "\\" + s + "\\" if m == 2 else s + "\\" + word(rng, 1, 3)
        elif cls == "nested_sq":
            s = word(rng, 1, 4) + rng.choice([" ", ""]) + "'" + rng.choice([word(rng, 1, 4), word(rng, 1, 3) + " " + word(rng, 1, 3), "a;b", "(x)"]) + "'" + rng.choice([" ", ""]) + word(rng, 1, 4)
        elif cls == "nested_dq":
            s = word(rng, 1, 4) + rng.choice([" ", ""]) + '"' + rng.choice([word(rng, 1, 4), word(rng, 1, 3) + " " + word(rng, 1, 3), "a;b", "{x}"]) + '"' + rng.choice([" ", ""]) + word(rng, 1, 4)
        elif cls == "nonascii":
            s = "".join(rng.choice(NONASCII + LETTERS[:4] + " ") for _ in range(rng.randrange(1, 8)))
            if rng.random() < 0.3:
                # text that is not NFC-stable (decomposed accents, OHM SIGN, ANGSTROM SIGN): code points are data, too
                s = rng.choice(["Ju\u0308rgen", "cafe\u0301", "k\u2126", "5 \u212b", "gro\u0308\u00dfe", "e\u0301 e\u0300"]) + rng.choice(["", " x", s])
        elif cls == "empty":
            s = ""
        elif cls == "typed":
            s = rng.choice(["1", "-2", "+3", "1.5", ".5", "1.", "1e5", "2.5E-3", "true", "False", "ON", "off", "None", "NULL", "null", "007", "1e+05"])
        elif cls == "nearnum":
            s = rng.choice(NEARNUM)
        elif cls == "punct":
            s = "".join(rng.choice("!%&*+-=?@^|~.#" + LETTERS[:5]) for _ in range(rng.randrange(1, 7)))
        else:  # glued: delimiter glued to words / quotes near the ends
            s = rng.choice([word(rng, 1, 3) + ";" + word(rng, 1, 3), "(" + word(rng, 1, 3), word(rng, 1, 3) + ")", "{" + word(rng, 1, 2) + "}",
                            "<" + word(rng, 1, 3) + ">", "a,b", "[0]", "x[1][2]", ";", ",", "(", ")", "{", "}", "<", ">", "[", "]", "();", "{};"])
        if in_str_domain(s):
            return s


def in_str_domain(s: str) -> bool:
    if any(c in s for c in SPLITLINE_BREAKS) or "$" in s or "//" in s or "/*" in s or "*/" in s:
        return False
    if any(w in s for w in RESERVED_WORDS):
        return False
    if re.search(r"^\s*#\s*include", s):
        return False
    if s in ("-", "_", "."):
        return True
    nq = s.count("'") + s.count('"')
    if nq == 0:
        return True
    # exactly one inner quoted segment  p q..q s  with p, s non-empty, quote free, no backslash before a quote
    m = re.fullmatch(r"([^'\"]+)(['\"])([^'\"]*)\2([^'\"]+)", s)
    if not m:
        return False
    if "\\'" in s or '\\"' in s:
        return False
    return True


def dom_scalar(rng, strings_only=False):
    m = rng.randrange(10)
    if strings_only or m < 5:
        return dom_string(rng)
    if m == 5:
        return rng.choice([0, 1, -1, 42, 10**6, -(10**12), rng.randrange(-10**9, 10**9)])
    if m == 6:
        return rand_float(rng)
    if m == 7:
        return rng.choice([True, False])
    if m == 8:
        return None
    return dom_string(rng, "single")


def dom_tree(rng, max_nodes=30, max_depth=4, int_keys=0.15, list_p=0.25, leaf=dom_scalar, key=None, top=True):
    """random dict in the value domain; returns a dict"""
    budget = [max_nodes]

    def mk_key(used):
        for _ in range(50):
            k = int_key(rng) if rng.random() < int_keys else (key(rng) if key else plain_key(rng))
            if k not in used and not (isinstance(k, int) and (k in (0, 1) and any(isinstance(u, bool) for u in used))):
                return k
        return f"k{len(used)}_{rng.randrange(10**6)}"

    def mk_dict(depth):
        d = {}
        n = rng.randrange(0, 5) if depth > 0 else rng.randrange(1, 7)
        for _ in range(n):
            if budget[0] <= 0:
                break
            budget[0] -= 1
            d[mk_key(d)] = mk_val(depth + 1)
        return d

    def mk_list(depth):
        out = []
        n = rng.randrange(0, 6)
        if rng.random() < 0.1:
            n = rng.randrange(9, 14)  # more than items_per_line
        elif rng.random() < 0.02:
            n = rng.randrange(40, 130)  # a long list (the node budget applies)
        for _ in range(n):
            if budget[0] <= 0:
                break
            budget[0] -= 1
            out.append(mk_val(depth + 1, in_list=True))
        return out

    def mk_val(depth, in_list=False):
        r = rng.random()
        if depth < max_depth and r < 0.22:
            return mk_dict(depth)
        if depth < max_depth and r < 0.22 + list_p:
            return mk_list(depth)
        return leaf(rng)

    return mk_dict(0)


def deep_chain(rng, depth: int, leaf, kinds="dl"):
    """a structure of exactly the given nesting depth ending in leaf: alternating dicts/lists"""
    v = leaf
    for i in range(depth):
        if rng.choice(kinds) == "d" or i == depth - 1:
            v = {plain_key(rng): v}
        else:
            v = [v]
    return v


# ---- paths ---------------------------------------------------------------------------------------
def all_paths(t, prefix=()):
    """every key path into t (to containers and leaves), list indices as ints"""
    if isinstance(t, dict):
        for k, v in t.items():
            yield prefix + (k,), v
            yield from all_paths(v, prefix + (k,))
    elif isinstance(t, list):
        for i, v in enumerate(t):
            yield prefix + (i,), v
            yield from all_paths(v, prefix + (i,))


def walk(t, path):
    for k in path:
        if isinstance(t, list):
            if not isinstance(k, int) or isinstance(k, bool):
                raise KeyError(k)
            t = t[k]
        elif isinstance(t, dict):
            t = t[k]
        else:
            raise KeyError(k)
    return t


# ---- shrinking -----------------------------------------------------------------------------------
def shrink_tree(t):
    """yield structurally smaller variants of a dict/list tree"""
    if isinstance(t, dict):
        for k in list(t):
            d = dict(t)
            del d[k]
            yield d
        for k, v in t.items():
            if isinstance(v, (dict, list)):
                for sv in shrink_tree(v):
                    d = dict(t)
                    d[k] = sv
                    yield d
                if isinstance(v, dict) and isinstance(t, dict):
                    pass
            elif isinstance(v, str) and v:
                for sv in shrink_str(v):
                    d = dict(t)
                    d[k] = sv
                    yield d
    elif isinstance(t, list):
        for i in range(len(t)):
            yield t[:i] + t[i + 1:]
        for i, v in enumerate(t):
            if isinstance(v, (dict, list)):
                for sv in shrink_tree(v):
                    yield t[:i] + [sv] + t[i + 1:]
            elif isinstance(v, str) and v:
                for sv in shrink_str(v):
                    yield t[:i] + [sv] + t[i + 1:]


def shrink_str(s: str):
    if len(s) > 1:
        yield s[: len(s) // 2]
        yield s[len(s) // 2:]
    for i in range(min(len(s), 12)):
        yield s[:i] + s[i + 1:]


def tree_size(t) -> int:
    if isinstance(t, dict):
        return 1 + sum(tree_size(v) for v in t.values())
    if isinstance(t, list):
        return 1 + sum(tree_size(v) for v in t)
    return 1


def tree_depth(t) -> int:
    if isinstance(t, dict):
        return 1 + max((tree_depth(v) for v in t.values()), default=0)
    if isinstance(t, list):
        return 1 + max((tree_depth(v) for v in t), default=0)
    return 0


def typed_eq(a, b) -> bool:
    """equality of values AND types, dict order sensitive, floats by bits (nan == nan)"""
    if type(a) is not type(b):
        if isinstance(a, dict) and isinstance(b, dict):
            pass
        else:
            return False
    if isinstance(a, dict):
        if list(a.keys()) != list(b.keys()) or any(type(x) is not type(y) for x, y in zip(a.keys(), b.keys())):
            return False
        return all(typed_eq(a[k], b[k]) for k in a)
    if isinstance(a, list):
        return len(a) == len(b) and all(typed_eq(x, y) for x, y in zip(a, b))
    if isinstance(a, float):
        return a.hex() == b.hex() or (a != a and b != b)
    return a == b


def plain(t):
    """deep copy into builtin dict / list (drops SDict / numpy types)"""
    if isinstance(t, dict):
        return {k: plain(v) for k, v in t.items()}
    if isinstance(t, (list, tuple)):
        return [plain(v) for v in t]
    if type(t).__module__ == "numpy":
        # NumPy arrays come back as nested lists, NumPy scalars as the Python number of the same value (documented)
        return plain(t.tolist()) if hasattr(t, "tolist") else t
    return copy.copy(t)
