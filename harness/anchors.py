"""Change-directed budget.  /verif/anchors.json records, for every function / method / module body of /repo/src/dictIO,
the hash of its `ast.dump` at the time the model was last aligned with the code (`bin/mkanchors`, re-run after every
`fix:` commit).  Each run recomputes the hashes from the tree under test; a changed function never raises an alarm by
itself (a harmless rewrite changes it too), but when a file a property is anchored in (properties.jsonl: anchors.files)
holds a changed function the quick tier of that property runs with a larger case budget, and the evidence names the
functions: an edited regex or branch gets a deeper differential run exactly where it matters."""
from __future__ import annotations

import ast
import hashlib
import json
from pathlib import Path

ROOT = Path(__file__).resolve().parent.parent
ANCHORS = ROOT / "anchors.json"
SCALE_WHEN_CHANGED = 4.0


def _h(node) -> str:
    return hashlib.sha256(ast.dump(node, annotate_fields=False, include_attributes=False).encode()).hexdigest()[:16]


def _strip_doc(body):
    if body and isinstance(body[0], ast.Expr) and isinstance(getattr(body[0], "value", None), ast.Constant) and isinstance(body[0].value.value, str):
        return body[1:]
    return body


def hashes_of(repo: Path) -> dict[str, str]:
    out: dict[str, str] = {}
    src = repo / "src" / "dictIO"
    for f in sorted(src.rglob("*.py")):
        rel = str(f.relative_to(repo))
        try:
            tree = ast.parse(f.read_text(encoding="utf-8"))
        except (SyntaxError, UnicodeDecodeError, OSError):
            out[rel + "::<unparsable>"] = "x"
            continue
        rest = []

        def walk(body, prefix):
            for n in body:
                if isinstance(n, (ast.FunctionDef, ast.AsyncFunctionDef)):
                    n2 = ast.FunctionDef(name=n.name, args=n.args, body=_strip_doc(n.body), decorator_list=n.decorator_list, returns=None, type_comment=None)
                    out[f"{rel}::{prefix}{n.name}"] = _h(n2)
                elif isinstance(n, ast.ClassDef):
                    walk(_strip_doc(n.body), prefix + n.name + ".")
                    rest.append(ast.ClassDef(name=n.name, bases=n.bases, keywords=n.keywords, body=[], decorator_list=n.decorator_list))
                elif isinstance(n, (ast.Import, ast.ImportFrom)) or (isinstance(n, ast.Expr) and isinstance(getattr(n, "value", None), ast.Constant)):
                    continue
                else:
                    rest.append(n)
        walk(_strip_doc(tree.body), "")
        out[rel + "::<module level>"] = hashlib.sha256("".join(ast.dump(n, annotate_fields=False) for n in rest).encode()).hexdigest()[:16]
    return out


def changed_for(prop_files: list[str], repo: Path) -> list[str]:
    """names of the functions (in the files the property is anchored in) whose hash differs from the aligned state"""
    if not ANCHORS.exists():
        return []
    ref = json.loads(ANCHORS.read_text())["functions"]
    cur = hashes_of(repo)
    names = []
    for k in sorted(set(ref) | set(cur)):
        if ref.get(k) != cur.get(k) and any(k.startswith(f + "::") for f in prop_files):
            names.append(k)
    return names
