"""Shared check driver: proof obligations, correspondence bookkeeping, oracle failures, known findings,
replay files and evidence."""
from __future__ import annotations

import hashlib
import json
import os
import random
import re
import subprocess
import sys
import time
from collections import Counter
from pathlib import Path

ROOT = Path(__file__).resolve().parent.parent
COQ = ROOT / "coq"
KNOWN = ROOT / "known_findings.json"
# Development only (bin/mutcheck: trying a seeded change in a scratch worktree without touching /repo): VERIF_DEV_REPO
# points the harness at that worktree, VERIF_DEV_OUT receives its replay and evidence files.  The registered commands
# never set them: they read /repo and write /verif/evidence, /verif/replays.
REPO = Path(os.environ.get("VERIF_DEV_REPO") or "/repo")
_OUT = Path(os.environ["VERIF_DEV_OUT"]) if os.environ.get("VERIF_DEV_OUT") else ROOT
REPLAYS = _OUT / "replays"
EVIDENCE = _OUT / "evidence"

# axioms of the Coq standard library that a theorem may depend on (each is reported in the evidence)
STDLIB_AXIOMS = {
    "functional_extensionality_dep",
    "FunctionalExtensionality.functional_extensionality_dep",
    "Eqdep.Eq_rect_eq.eq_rect_eq",
    "Classical_Prop.classic",
    "ProofIrrelevance.proof_irrelevance",
    "JMeq.JMeq_eq",
}

FORBIDDEN = re.compile(
    r"\b(Admitted|admit|Axiom|Axioms|Parameter|Parameters|Conjecture|Conjectures|Admit Obligations|bypass_check|"
    r"Unset Guard Checking|Unset Positivity Checking|Unset Universe Checking|type-in-type|impredicative-set)\b"
)


def jhash(obj) -> str:
    return hashlib.sha256(repr(obj).encode()).hexdigest()[:16]


class Ctx:
    def __init__(self, prop: str, tier: str, seed: int):
        self.prop = prop
        self.tier = tier
        self.seed = seed
        self.rng = random.Random(seed * 1000003 + int(prop[1:]))
        self.t0 = time.time()
        self.evaluations = 0
        self.distinct: set[str] = set()
        self.nontrivial: set[str] = set()
        self.classes: Counter = Counter()
        self.samples: list = []
        self.notes: list[str] = []
        self.oracle_failures: list[dict] = []
        self.disagreements: list[dict] = []
        self.known_hits: Counter = Counter()
        self.violations: list[str] = []
        self.corr_compared = 0
        self.exhaustive = False
        self.nontrivial_extra = 0
        self.extra: dict = {}
        self._change_scale = None
        self.module = None
        self.known = [k for k in load_known() if k.get("property") == prop and k.get("status") == "known"]

    # ---- budgets -------------------------------------------------------------------------------
    def n(self, quick: int, thorough: int) -> int:
        base = quick if self.tier == "quick" else thorough
        if self.tier == "quick":
            base = min(int(base * self.change_scale()), max(quick, thorough))
        return max(1, int(base * float(os.environ.get("VERIF_SCALE", "1"))))

    def change_scale(self) -> float:
        """change-directed budget (harness/anchors.py): a larger quick tier when a function in one of the files this
        property is anchored in differs from the state the model was aligned with"""
        if self._change_scale is None:
            self._change_scale = 1.0
            try:
                from harness import anchors

                files = []
                for ln in (ROOT / "properties.jsonl").read_text().splitlines():
                    if ln.strip():
                        pj = json.loads(ln)
                        if pj["id"] == self.prop:
                            files = pj.get("anchors", {}).get("files", [])
                changed = anchors.changed_for(files, REPO)
                if changed:
                    self._change_scale = anchors.SCALE_WHEN_CHANGED
                    self.extra["changed_since_model_alignment"] = {
                        "functions": changed[:40], "quick_budget_factor": anchors.SCALE_WHEN_CHANGED,
                        "meaning": "these functions differ from the state recorded in anchors.json (the code the model was last "
                                   "aligned with); not an alarm by itself, the case budget of this run was enlarged"}
            except Exception as e:  # noqa: BLE001
                self.extra["anchors_error"] = f"{type(e).__name__}: {e}"[:200]
        return self._change_scale

    # ---- bookkeeping ---------------------------------------------------------------------------
    def count(self, case_key, nontrivial: bool, cls: str = "", sample=None, n: int = 1):
        self.evaluations += n
        h = case_key if isinstance(case_key, str) and len(case_key) <= 24 else jhash(case_key)
        if h not in self.distinct:
            self.distinct.add(h)
            if nontrivial:
                self.nontrivial.add(h)
        if cls:
            self.classes[cls] += 1
        if sample is not None and len(self.samples) < 12 and (nontrivial or len(self.samples) < 2):
            self.samples.append(sample)

    def note(self, s: str):
        self.notes.append(s)
        print(f"  note: {s}")

    # ---- failures ------------------------------------------------------------------------------
    def oracle_fail(self, case: dict, symptom: str, detail: str):
        """The property itself fails on the implementation for `case`."""
        self.oracle_failures.append({"case": case, "symptom": symptom, "detail": detail})

    def disagree(self, stage: str, case: dict, model, impl):
        """Model and implementation differ on `case` at correspondence stage `stage`."""
        self.disagreements.append({"stage": stage, "case": case, "model": model, "impl": impl})

    def compare(self, stage: str, cases: list, model_out: list, impl_out: list):
        assert len(cases) == len(model_out) == len(impl_out), (len(cases), len(model_out), len(impl_out))
        from harness.wire import canon_floats

        for c, m, i in zip(cases, model_out, impl_out):
            self.corr_compared += 1
            if m != i and canon_floats(m) != canon_floats(i):
                if len(self.disagreements) < 50:
                    self.disagree(stage, c, m, i)
                else:
                    self.extra["disagreements_truncated"] = True


def load_known() -> list[dict]:
    if KNOWN.exists():
        return json.loads(KNOWN.read_text())
    return []


# ---- proof obligations -----------------------------------------------------------------------------
def build_coq() -> tuple[bool, str]:
    p = subprocess.run([str(ROOT / "bin" / "setup")], capture_output=True, text=True, timeout=3600, check=False)
    return p.returncode == 0, (p.stdout + p.stderr)[-3000:]


def check_proofs(prop: str, thorough: bool) -> dict:
    """Re-check Properties/<prop>.v, collect Print Assumptions output, audit the sources."""
    res: dict = {"obligations": 0, "discharged": 0, "axioms": [], "theorems": [], "ok": True, "log": ""}
    vfile = COQ / "theories" / "Properties" / f"{prop}.v"
    if not vfile.exists():
        res["ok"] = False
        res["log"] = f"{vfile} missing"
        return res
    src = vfile.read_text()
    thms = re.findall(r"^\s*(?:Theorem|Corollary)\s+(\w+)", src, re.M)
    res["theorems"] = thms
    res["obligations"] = max(len(thms), len(re.findall(r"^\s*Print Assumptions", src, re.M)))
    # house rule: every property theorem is instantiated by an Example (non-vacuity); reported, not enforced
    examples = re.findall(r"^\s*Example\s+\w+[\s\S]*?^\s*Qed\.", src, re.M)
    res["theorems_without_example"] = [t for t in thms if not any(re.search(r"\b" + re.escape(t) + r"\b", e) for e in examples)]
    cmd = ["timeout", "900", "coqc", "-R", "theories", "DictIO", f"theories/Properties/{prop}.v"]
    res["checker_cmd"] = "cd /verif/coq && make (full .vo build) && " + " ".join(cmd[2:])
    p = subprocess.run(cmd, cwd=COQ, capture_output=True, text=True, check=False)
    out = p.stdout + p.stderr
    res["log"] = out[-4000:]
    if p.returncode != 0:
        res["ok"] = False
        return res
    closed = len(re.findall(r"Closed under the global context", out))
    axioms: set[str] = set()
    n_axiom_blocks = 0
    in_block = False
    for ln in out.splitlines():
        if ln.startswith("Axioms:"):
            in_block = True
            n_axiom_blocks += 1
            continue
        if in_block:
            m = re.match(r"^([A-Za-z_][\w.']*)\s*:", ln)
            if m:
                axioms.add(m.group(1))
            elif ln.startswith((" ", "\t")) and ln.strip():
                continue            # continuation line of an axiom's type
            else:
                in_block = False
    bad = [a for a in axioms if a not in STDLIB_AXIOMS and a.split(".")[-1] not in {x.split(".")[-1] for x in STDLIB_AXIOMS}]
    res["axioms"] = sorted(axioms)
    res["discharged"] = closed + (n_axiom_blocks if not bad else 0)
    if bad:
        res["ok"] = False
        res["log"] += f"\nnon-stdlib axioms: {bad}"
    if res["discharged"] < res["obligations"]:
        res["ok"] = False
        res["log"] += f"\nobligations={res['obligations']} discharged={res['discharged']}"
    # source audit
    hits = []
    for f in sorted((COQ / "theories").rglob("*.v")):
        txt = re.sub(r"\(\*.*?\*\)", "", f.read_text(), flags=re.S)
        for m in FORBIDDEN.finditer(txt):
            hits.append(f"{f.relative_to(COQ)}:{m.group(0)}")
    res["audit_hits"] = hits
    if hits:
        res["ok"] = False
        res["log"] += f"\nforbidden constructs: {hits[:10]}"
    if thorough:
        vo = f"DictIO.Properties.{prop}"
        p = subprocess.run(
            ["timeout", "1500", "coqchk", "-silent", "-o", "-R", "theories", "DictIO", vo],
            cwd=COQ, capture_output=True, text=True, check=False,
        )
        res["coqchk_rc"] = p.returncode
        tail = (p.stdout + p.stderr)[-1500:]
        res["coqchk"] = tail
        if p.returncode != 0:
            res["ok"] = False
            res["log"] += "\ncoqchk failed: " + tail
    return res


# ---- classification, replay, evidence ----------------------------------------------------------
def match_known(ctx: Ctx, failure: dict) -> dict | None:
    mod = ctx.module
    for k in ctx.known:
        pred = getattr(mod, "KNOWN_PREDICATES", {}).get(k["id"])
        if pred is None:
            continue
        try:
            if k.get("symptom") in (None, failure["symptom"]) and pred(failure["case"], failure):
                return k
        except Exception:  # noqa: BLE001
            continue
    return None


def write_replay(ctx: Ctx, kind: str, payload: dict) -> Path:
    REPLAYS.mkdir(parents=True, exist_ok=True)
    payload = dict(payload)
    if "case" in payload:
        payload["case_py"] = repr(payload["case"])  # exact (JSON turns int keys into strings)
    payload.update({"property": ctx.prop, "kind": kind, "seed": ctx.seed, "tier": ctx.tier,
                    "replay_cmd": f"bin/check {ctx.prop} --replay <this file>"})
    path = REPLAYS / f"{ctx.prop}-{jhash(payload)}.json"
    path.write_text(json.dumps(payload, indent=1, default=repr, ensure_ascii=True))
    return path


def shrink_failure(ctx: Ctx, failure: dict) -> dict:
    mod = ctx.module
    shrink = getattr(mod, "shrink", None)
    oracle = getattr(mod, "oracle", None)
    if shrink is None or oracle is None:
        return failure
    cur = failure
    deadline = time.time() + 20
    progress = True
    while progress and time.time() < deadline:
        progress = False
        try:
            cands = list(shrink(cur["case"]))
        except Exception:  # noqa: BLE001  (a shrinker that does not know this kind of case: keep the case as it is)
            break
        for cand in cands:
            if time.time() > deadline:
                break
            try:
                r = oracle(cand)
            except Exception:  # noqa: BLE001
                continue
            if r is not None and r[0] == cur["symptom"]:
                cur = {"case": cand, "symptom": r[0], "detail": r[1]}
                progress = True
                break
    return cur


def finish(ctx: Ctx, proofs: dict) -> int:
    lines: list[str] = []
    exit_code = 0
    seen_replays: set[str] = set()
    # 1. oracle failures (the property fails on the implementation)
    fresh = 0
    for f in ctx.oracle_failures:
        k = match_known(ctx, f)
        if k is None:
            f2 = shrink_failure(ctx, f) if fresh < 3 else f
            k = match_known(ctx, f2)
            if k is None:
                fresh += 1
                if fresh <= 3:
                    path = write_replay(ctx, "oracle", f2)
                    if str(path) not in seen_replays:
                        seen_replays.add(str(path))
                        lines.append(f"VIOLATION property={ctx.prop} replay={path}")
                exit_code = 1
                continue
        ctx.known_hits[k["id"]] += 1
    # 2. correspondence disagreements / broken proofs with no oracle failure
    if ctx.disagreements:
        d = ctx.disagreements[0]
        found = None
        mod = ctx.module
        oracle = getattr(mod, "oracle", None)
        mutate = getattr(mod, "mutations", None)
        if oracle is not None:
            cands = [x["case"] for x in ctx.disagreements[:20]]
            if mutate is not None:
                for x in ctx.disagreements[:5]:
                    cands.extend(list(mutate(x["case"], ctx.rng))[:400])
            for c in cands:
                try:
                    r = oracle(c)
                except Exception:  # noqa: BLE001
                    continue
                if r is not None:
                    fl = {"case": c, "symptom": r[0], "detail": r[1]}
                    if match_known(ctx, fl) is None:
                        found = shrink_failure(ctx, fl)
                        break
        if found is not None and not (exit_code == 1 and fresh > 0):
            path = write_replay(ctx, "oracle", found)
            lines.append(f"VIOLATION property={ctx.prop} replay={path}")
        elif found is None and exit_code == 0:
            path = write_replay(ctx, "correspondence", {
                "no_longer_checks": f"correspondence stage '{d['stage']}' (model DictIO vs /repo/src)",
                "disagreements": ctx.disagreements[:10]})
            lines.append(f"VIOLATION property={ctx.prop} replay={path} no-failing-input-found")
        exit_code = 1
    # 2b. extraction cross-check: a sample of the cases modelrun (extracted OCaml) answered is evaluated again inside Coq
    from harness import coqeval

    try:
        xc = coqeval.run(24 if ctx.tier == "thorough" else 6)
    except Exception as e:  # noqa: BLE001
        xc = {"sampled_cases": 0, "agree": 0, "differ": [], "error": f"{type(e).__name__}: {e}"[:300]}
    ctx.extra["extraction_crosscheck"] = {k: (v if k != "differ" else v[:5]) for k, v in xc.items()}
    if xc.get("differ"):
        if exit_code == 0:
            path = write_replay(ctx, "extraction", {
                "no_longer_checks": "extraction cross-check: the extracted OCaml model (ocaml/modelrun) and vm_compute on the "
                                    "Gallina model disagree on a sampled case, so the correspondence run is not about the model "
                                    "the theorems are about",
                "disagreements": xc["differ"][:10]})
            lines.append(f"VIOLATION property={ctx.prop} replay={path} no-failing-input-found")
        exit_code = 1
    if not proofs.get("ok", False):
        if exit_code == 0:
            path = write_replay(ctx, "proof", {
                "no_longer_checks": f"theorems of coq/theories/Properties/{ctx.prop}.v: {proofs.get('theorems')}",
                "log": proofs.get("log", "")[-3000:]})
            lines.append(f"VIOLATION property={ctx.prop} replay={path} no-failing-input-found")
        exit_code = 1
    # 3. known findings are re-established on every run
    for k in ctx.known:
        if ctx.known_hits.get(k["id"], 0) > 0:
            lines.append(f"KNOWN-FINDING: property={ctx.prop} {k['id']}: {k['what']}")
        else:
            ctx.note(f"known finding {k['id']} was not reproduced in this run")
    write_evidence(ctx, proofs, exit_code)
    for ln in lines:
        print(ln)
    print(f"{ctx.prop} {ctx.tier}: evaluations={ctx.evaluations} distinct_nontrivial={len(ctx.nontrivial) + ctx.nontrivial_extra} "
          f"corr_compared={ctx.corr_compared} oracle_failures={len(ctx.oracle_failures)} "
          f"disagreements={len(ctx.disagreements)} proofs={proofs.get('discharged')}/{proofs.get('obligations')} "
          f"wall={time.time() - ctx.t0:.1f}s exit={exit_code}")
    return exit_code


def write_evidence(ctx: Ctx, proofs: dict, exit_code: int):
    EVIDENCE.mkdir(parents=True, exist_ok=True)
    mod = ctx.module
    tb = list(getattr(mod, "TRUSTED_BASE", []))
    tb = [
        "Coq 8.16.1 kernel (coqc; coqchk -o in the thorough tier); vm_compute only in Examples/_refuted witnesses",
        "axioms reported by Print Assumptions: " + (", ".join(proofs.get("axioms", [])) or "none (closed under the global context)"),
        "hand-written Gallina model (coq/theories/Model) tied to /repo/src by the correspondence run of this check",
        "extraction: ExtrOcamlBasic only (Extract Inductive bool/option/unit/list/prod/sumbool/sumor, inlined andb/orb/negb/fst/snd), ocaml/driver.ml",
        "harness generators, canonicaliser and independent oracles (harness/)",
    ] + tb
    cov = {
        "obligations": int(proofs.get("obligations", 0)),
        "discharged": int(proofs.get("discharged", 0)),
        "checker_cmd": proofs.get("checker_cmd", "coqc"),
        "trusted_base": tb,
        "theorems": proofs.get("theorems", []),
        "evaluations": ctx.evaluations,
        "distinct_nontrivial": len(ctx.nontrivial) + ctx.nontrivial_extra,
        "distinct": len(ctx.distinct),
        "rule": getattr(mod, "RULE", ""),
        "samples": ctx.samples[:12] or ["(none)"],
        "correspondence_compared": ctx.corr_compared,
        "correspondence_disagreements": len(ctx.disagreements),
        "oracle_failures": len(ctx.oracle_failures),
        "known_findings_reproduced": dict(ctx.known_hits),
        "input_classes": dict(ctx.classes),
        "exhaustive": bool(ctx.exhaustive),
        "notes": ctx.notes[:40],
    }
    cov.update(ctx.extra)
    cov["theorems_without_instantiating_example"] = proofs.get("theorems_without_example", [])
    if "coqchk" in proofs:
        cov["coqchk_tail"] = proofs["coqchk"][-600:]
    ev = {
        "property_id": ctx.prop,
        "tier": ctx.tier,
        "seed": ctx.seed,
        "level": "proof",
        "coverage": cov,
        "assumptions": list(getattr(mod, "ASSUMPTIONS", [])),
        "wall_s": round(time.time() - ctx.t0, 2),
        "violations": 1 if exit_code == 1 else 0,
    }
    (EVIDENCE / f"{ctx.prop}.json").write_text(json.dumps(ev, indent=1, default=repr, ensure_ascii=True) + "\n")


def assert_impl_from_repo():
    import dictIO

    f = str(Path(dictIO.__file__).resolve())
    if not f.startswith(str(REPO / "src") + "/"):
        print(f"harness: dictIO imported from {f}, expected {REPO}/src", file=sys.stderr)
        sys.exit(2)
