"""Prefix wire format shared with ocaml/driver.ml.

Python side representation of model values:
  str          <-> SStr          int (not bool) <-> SInt        bool <-> SBool      None <-> SNone
  float        <-> SFloat(repr)  (model carries the literal text; decoded with float())
  dict / list  <-> Dict / Lst    (keys: int or str)
"""
from __future__ import annotations

import subprocess
from pathlib import Path

ROOT = Path(__file__).resolve().parent.parent
MODELRUN = ROOT / "ocaml" / "modelrun"


class FloatLit:
    """A float literal as text (what the model's SFloat carries)."""

    __slots__ = ("text",)

    def __init__(self, text: str):
        self.text = text

    def __repr__(self):
        return f"FloatLit({self.text!r})"

    def __eq__(self, o):
        return isinstance(o, FloatLit) and o.text == self.text

    def __hash__(self):
        return hash(("FloatLit", self.text))


def cps(s: str) -> str:
    return ",".join(str(ord(c)) for c in s)


def uncps(s: str) -> str:
    return "".join(chr(int(x)) for x in s.split(",")) if s else ""


def enc_str(s: str) -> str:
    return "s" + cps(s)


def enc_scalar(v) -> str:
    if isinstance(v, bool):
        return "b1" if v else "b0"
    if isinstance(v, int):
        return f"i{v}"
    if isinstance(v, float):
        return "f" + cps(repr(v))
    if isinstance(v, FloatLit):
        return "f" + cps(v.text)
    if v is None:
        return "n"
    if isinstance(v, str):
        return enc_str(v)
    raise TypeError(f"cannot encode scalar {v!r}")


def enc_key(k) -> str:
    if isinstance(k, bool):
        raise TypeError("bool key")
    if isinstance(k, int):
        return f"ki{k}"
    if isinstance(k, str):
        return "ks" + cps(k)
    raise TypeError(f"cannot encode key {k!r}")


def enc_tree(t) -> str:
    out: list[str] = []

    def go(x):
        if isinstance(x, dict):
            out.append(f"D{len(x)}")
            for k, v in x.items():
                out.append(enc_key(k))
                go(v)
        elif isinstance(x, (list, tuple)):
            out.append(f"L{len(x)}")
            for v in x:
                go(v)
        else:
            out.append(enc_scalar(x))

    go(t)
    return " ".join(out)


def enc_list(items, f) -> str:
    return " ".join([f"l{len(items)}"] + [f(x) for x in items])


def enc_opt(x, f) -> str:
    return "none" if x is None else "some " + f(x)


def enc_nat(n: int) -> str:
    return f"u{n}"


def enc_bool(b: bool) -> str:
    return "b1" if b else "b0"


class Reader:
    def __init__(self, line: str):
        self.toks = line.split()
        self.i = 0

    def next(self) -> str:
        t = self.toks[self.i]
        self.i += 1
        return t

    def peek(self) -> str | None:
        return self.toks[self.i] if self.i < len(self.toks) else None

    def done(self) -> bool:
        return self.i >= len(self.toks)

    def str(self) -> str:
        t = self.next()
        assert t[0] == "s", t
        return uncps(t[1:])

    def scalar(self, float_as_text=False):
        return dec_scalar_tok(self.next(), float_as_text)

    def key(self):
        t = self.next()
        if t.startswith("ki"):
            return int(t[2:])
        assert t.startswith("ks"), t
        return uncps(t[2:])

    def tree(self, float_as_text=False):
        t = self.next()
        if t[0] == "D":
            d = {}
            for _ in range(int(t[1:])):
                k = self.key()
                d[k] = self.tree(float_as_text)
            return d
        if t[0] == "L":
            return [self.tree(float_as_text) for _ in range(int(t[1:]))]
        return dec_scalar_tok(t, float_as_text)

    def nat(self) -> int:
        t = self.next()
        assert t[0] == "u", t
        return int(t[1:])

    def bool(self) -> bool:
        t = self.next()
        assert t in ("b0", "b1"), t
        return t == "b1"

    def list(self, f):
        t = self.next()
        assert t[0] == "l", t
        return [f() for _ in range(int(t[1:]))]

    def opt(self, f):
        t = self.next()
        if t == "none":
            return None
        assert t == "some", t
        return f()

    def res(self, f):
        """returns ('ok', value) or ('raise', code)"""
        t = self.next()
        if t == "ok":
            return ("ok", f())
        assert t == "raise", t
        return ("raise", int(self.next()))


def dec_scalar_tok(t: str, float_as_text=False):
    c = t[0]
    if c == "i":
        return int(t[1:])
    if c == "f":
        txt = uncps(t[1:])
        return FloatLit(txt) if float_as_text else float(txt)
    if c == "b":
        return t == "b1"
    if c == "n":
        return None
    if c == "s":
        return uncps(t[1:])
    raise ValueError(f"bad scalar token {t}")


ERR = {1: "ValueError", 2: "TypeError", 3: "IndexError", 4: "KeyError", 5: "RecursionError", 9: "ModelOutOfFuel"}


def run_model(lines: list[str], timeout: int = 600) -> list[str]:
    """Run the extracted model on the given case lines; one output line per input line."""
    if not lines:
        return []
    inp = "\n".join(lines) + "\n"
    p = subprocess.run(
        ["bash", "-c", f"ulimit -s unlimited 2>/dev/null; exec {MODELRUN}"],
        input=inp.encode(),
        capture_output=True,
        timeout=timeout,
        check=False,
    )
    out = p.stdout.decode().split("\n")
    if out and out[-1] == "":
        out.pop()
    if p.returncode != 0 or len(out) != len(lines):
        raise RuntimeError(
            f"modelrun failed rc={p.returncode} lines_in={len(lines)} lines_out={len(out)} stderr={p.stderr.decode()[:500]}"
        )
    from harness import coqeval

    coqeval.observe(lines, out)      # sample for the extraction cross-check (second evaluation inside Coq)
    return out


def run_model_sharded(lines: list[str], shards: int = 8, timeout: int = 900) -> list[str]:
    if len(lines) < 20000 or shards <= 1:
        return run_model(lines, timeout)
    from concurrent.futures import ThreadPoolExecutor

    n = len(lines)
    step = (n + shards - 1) // shards
    chunks = [lines[i : i + step] for i in range(0, n, step)]
    with ThreadPoolExecutor(max_workers=shards) as ex:
        outs = list(ex.map(lambda c: run_model(c, timeout), chunks))
    return [x for o in outs for x in o]


def canon_floats(line: str) -> str:
    """re-spell every float literal token through CPython's float()/repr() so that '1.' and '1.0' compare equal"""
    if " f" not in line and not line.startswith("f"):
        return line
    out = []
    for t in line.split(" "):
        if t[:1] == "f" and (len(t) == 1 or t[1].isdigit()):
            try:
                t = "f" + cps(repr(float(uncps(t[1:]))))
            except ValueError:
                pass
        out.append(t)
    return " ".join(out)
