"""bin/check entry point:  check Cxx quick|thorough  |  check Cxx --replay <file>"""
from __future__ import annotations

import importlib
import json
import logging
import os
import sys
import traceback
from pathlib import Path

from harness import core


def main(argv: list[str]) -> int:
    if len(argv) < 2:
        print("usage: check Cxx quick|thorough | check Cxx --replay FILE")
        return 2
    prop = argv[0].upper()
    logging.disable(logging.CRITICAL)  # the library logs warnings on purpose-built odd inputs
    core.assert_impl_from_repo()
    mod = importlib.import_module(f"harness.props.{prop.lower()}")
    if argv[1] == "--replay":
        payload = json.loads(Path(argv[2]).read_text())
        if payload.get("kind") != "oracle":
            print(f"replay file names what no longer checks: {payload.get('no_longer_checks')}")
            print(json.dumps(payload.get("disagreements", payload.get("log")), indent=1)[:4000])
            return 1
        import ast

        case = ast.literal_eval(payload["case_py"]) if "case_py" in payload else payload["case"]
        r = mod.oracle(case)
        if r is None:
            print(f"replay: property {prop} holds on this case")
            return 0
        print(f"replay: property {prop} FAILS on this case: {r[0]}: {r[1]}")
        return 1
    tier = argv[1]
    if tier not in ("quick", "thorough"):
        print("tier must be quick or thorough")
        return 2
    tier = os.environ.get("VERIF_TIER", tier) if False else tier
    seed = int(os.environ.get("VERIF_SEED", "20261001"))
    for old in core.REPLAYS.glob(f"{prop}-*.json"):
        old.unlink()
    ctx = core.Ctx(prop, tier, seed)
    ctx.module = mod
    ok, log = core.build_coq()
    if not ok:
        proofs = {"ok": False, "log": "build failed:\n" + log, "obligations": 0, "discharged": 0, "theorems": []}
        print(log)
        return core.finish(ctx, proofs)
    # corpus first
    cdir = core.ROOT / "corpus" / prop
    if cdir.is_dir() and hasattr(mod, "oracle"):
        for f in sorted(cdir.glob("*.json")):
            import ast

            payload = json.loads(f.read_text())
            case = ast.literal_eval(payload["case_py"]) if "case_py" in payload else payload.get("case", payload)
            r = mod.oracle(case)
            ctx.count(("corpus", f.name), True, "corpus")
            if r is not None:
                ctx.oracle_fail(case, r[0], r[1])
    proofs = core.check_proofs(prop, tier == "thorough")
    try:
        mod.run(ctx)
    except Exception:  # noqa: BLE001
        traceback.print_exc()
        print(f"{prop}: harness error (not a verdict)")
        return 2
    return core.finish(ctx, proofs)


if __name__ == "__main__":
    sys.exit(main(sys.argv[1:]))
