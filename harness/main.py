"""bin/check entry point:  check Cxx quick|thorough  |  check Cxx --replay <file>"""
from __future__ import annotations

import importlib
import json
import logging
import os
import sys
import traceback
from pathlib import Path

from harness import core


def main(argv: list[str]) -> int:
    if len(argv) < 2:
        print("usage: check Cxx quick|thorough | check Cxx --replay FILE")
        return 2
    prop = argv[0].upper()
    logging.disable(logging.CRITICAL)  # the library logs warnings on purpose-built odd inputs
    core.assert_impl_from_repo()
    mod = importlib.import_module(f"harness.props.{prop.lower()}")
    if argv[1] == "--replay":
        payload = json.loads(Path(argv[2]).read_text())
        if payload.get("kind") != "oracle":
            print(f"replay file names what no longer checks: {payload.get('no_longer_checks')}")
            print(json.dumps(payload.get("disagreements", payload.get("log")), indent=1)[:4000])
            return 1
        import ast

        case = ast.literal_eval(payload["case_py"]) if "case_py" in payload else payload["case"]
        r = mod.oracle(case)
        if r is None:
            print(f"replay: property {prop} holds on this case")
            return 0
        print(f"replay: property {prop} FAILS on this case: {r[0]}: {r[1]}")
        return 1
    tier = argv[1]
    if tier not in ("quick", "thorough"):
        print("tier must be quick or thorough")
        return 2
    tier = os.environ.get("VERIF_TIER", tier) if False else tier
    seed = int(os.environ.get("VERIF_SEED", "20261001"))
    for old in core.REPLAYS.glob(f"{prop}-*.json"):
        old.unlink()
    ctx = core.Ctx(prop, tier, seed)
    ctx.module = mod
    ok, log = core.build_coq()
    if not ok:
        proofs = {"ok": False, "log": "build failed:\n" + log, "obligations": 0, "discharged": 0, "theorems": []}
        print(log)
        return core.finish(ctx, proofs)
    # corpus first
    cdir = core.ROOT / "corpus" / prop
    if cdir.is_dir() and hasattr(mod, "oracle"):
        for f in sorted(cdir.glob("*.json")):
            import ast

            payload = json.loads(f.read_text())
            case = ast.literal_eval(payload["case_py"]) if "case_py" in payload else payload.get("case", payload)
            try:
                r = mod.oracle(case)
            except Exception as e:  # noqa: BLE001  (the implementation raised where the oracle does not expect it)
                r = ("raises", f"corpus case {f.name}: {type(e).__name__}: {e}")
            ctx.count(("corpus", f.name), True, "corpus")
            if r is not None:
                ctx.oracle_fail(case, r[0], r[1])
    proofs = core.check_proofs(prop, tier == "thorough")
    # An exception that escapes a property module is either a slip of a generator at this seed (then another seed gives a
    # verdict) or the implementation behaving in a way the harness never saw on the unchanged tree (then it persists).
    # Up to three derived seeds are tried; if all of them fail the property is no longer shown to hold.
    errors = []
    for attempt in range(3):
        try:
            mod.run(ctx)
            break
        except Exception:  # noqa: BLE001
            tb = traceback.format_exc()
            errors.append({"seed": ctx.seed, "traceback": tb[-3000:]})
            print(f"{prop}: harness error at seed {ctx.seed} (attempt {attempt + 1}):\n{tb[-1500:]}", file=sys.stderr)
            carried = (ctx.oracle_failures, ctx.disagreements)
            ctx = core.Ctx(prop, tier, ctx.seed + 7919)
            ctx.module = mod
            ctx.oracle_failures, ctx.disagreements = carried
    else:
        ctx.extra["harness_errors"] = errors
        path = core.write_replay(ctx, "harness", {
            "no_longer_checks": f"the {prop} harness could not run to completion on this tree at three seeds "
                                f"(correspondence and oracle of harness/props/{prop.lower()}.py)",
            "errors": errors})
        core.write_evidence(ctx, proofs, 1)
        print(f"VIOLATION property={prop} replay={path} no-failing-input-found")
        return 1
    if errors:
        ctx.extra["harness_errors_retried"] = errors
    return core.finish(ctx, proofs)


def guarded(argv: list[str]) -> int:
    """whatever goes wrong inside the harness itself on a run (not a replay), the verdict is never a bare traceback: the
    property is then not shown to hold on this tree, and the line says so"""
    try:
        return main(argv)
    except Exception:  # noqa: BLE001
        tb = traceback.format_exc()
        print(tb[-3000:], file=sys.stderr)
        if len(argv) >= 2 and argv[1] in ("quick", "thorough"):
            prop = argv[0].upper()
            core.REPLAYS.mkdir(parents=True, exist_ok=True)
            path = core.REPLAYS / f"{prop}-harness-{core.jhash(tb)}.json"
            path.write_text(json.dumps({"kind": "harness", "property": prop,
                                        "no_longer_checks": f"the {prop} check could not run to completion on this tree (exception outside the "
                                                            f"property module's own retry loop)", "traceback": tb[-3000:]}, indent=1) + "\n")
            print(f"VIOLATION property={prop} replay={path} no-failing-input-found")
        return 1


if __name__ == "__main__":
    sys.exit(guarded(sys.argv[1:]))
