(* Characters = Unicode code points (N); strings = lists of code points.
   ASCII classes are exact; every code point >= 128 is treated as a word character that is
   neither a digit nor white space (documented model restriction; generators exclude the
   Unicode digits / spaces / line separators). *)
From Coq Require Import Ascii String.
From Coq Require Import NArith List Bool.
Import ListNotations.
Open Scope N_scope.

Definition cp := N.
Definition str := list N.

Definition cp_eqb (a b : cp) : bool := N.eqb a b.

Fixpoint str_eqb (a b : str) : bool :=
  match a, b with
  | [], [] => true
  | x :: a', y :: b' => N.eqb x y && str_eqb a' b'
  | _, _ => false
  end.

(* Coq string literal -> str (only for constants in the model) *)
Fixpoint of_string (s : string) : str :=
  match s with
  | EmptyString => []
  | String a s' => N_of_ascii a :: of_string s'
  end.
Arguments of_string s%string_scope.

Definition c_tab := 9.  Definition c_lf := 10. Definition c_vt := 11. Definition c_ff := 12.
Definition c_cr := 13.  Definition c_sp := 32.
Definition c_dq := 34.  (* double quote *)
Definition c_hash := 35.
Definition c_dollar := 36.
Definition c_sq := 39.  (* single quote *)
Definition c_lpar := 40. Definition c_rpar := 41.
Definition c_star := 42.
Definition c_plus := 43. Definition c_comma := 44. Definition c_minus := 45. Definition c_dot := 46.
Definition c_slash := 47.
Definition c_colon := 58. Definition c_semi := 59.
Definition c_lt := 60. Definition c_gt := 62.
Definition c_lbrk := 91. Definition c_bsl := 92. Definition c_rbrk := 93.
Definition c_us := 95.
Definition c_lbrace := 123. Definition c_rbrace := 125.
Definition c_E := 69. Definition c_e := 101.

Definition is_digit (c : cp) : bool := (48 <=? c) && (c <=? 57).
Definition is_upper (c : cp) : bool := (65 <=? c) && (c <=? 90).
Definition is_lower (c : cp) : bool := (97 <=? c) && (c <=? 122).
(* Python str.isspace / re \s (str patterns are Unicode aware): TAB LF VT FF CR FS GS RS US SPACE, and beyond
   ASCII: NEL, NBSP, OGHAM SPACE MARK, EN QUAD .. HAIR SPACE, LS, PS, NNBSP, MMSP, IDEOGRAPHIC SPACE *)
Definition is_uni_space (c : cp) : bool :=
  (c =? 133) || (c =? 160) || (c =? 5760) || ((8192 <=? c) && (c <=? 8202)) || (c =? 8232) || (c =? 8233)
  || (c =? 8239) || (c =? 8287) || (c =? 12288).
Definition is_space (c : cp) : bool :=
  ((9 <=? c) && (c <=? 13)) || ((28 <=? c) && (c <=? 32)) || is_uni_space c.
(* re \w : [A-Za-z0-9_] and (model restriction) every code point >= 128 that is not white space; the
   correspondence check feeds letters and white space beyond ASCII, not symbols or punctuation *)
Definition is_word (c : cp) : bool :=
  is_digit c || is_upper c || is_lower c || (c =? c_us) || ((128 <=? c) && negb (is_uni_space c)).
Definition is_quote (c : cp) : bool := (c =? c_sq) || (c =? c_dq).
Definition is_sign (c : cp) : bool := (c =? c_plus) || (c =? c_minus).

Definition to_lower (c : cp) : cp := if is_upper c then c + 32 else c.
Definition digit_val (c : cp) : N := c - 48.
