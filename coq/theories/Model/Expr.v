(* Expressions: SDict.variables (flat table), DictReader._resolve_reference (with the cycle guard),
   token-wise substitution of resolved references.  Python's eval stays outside the model. *)
From Coq Require Import String.
From Coq Require Import NArith ZArith List Bool.
From DictIO Require Import Chars Str Value Scalar KeyPath SDict Layout Lexer TokParser Reader.
Import ListNotations.
Open Scope N_scope.

(* ---- SDict.variables ------------------------------------------------------------------------------ *)
Fixpoint list_contains_dict (t : tree) : bool :=
  match t with
  | Lst ts => (fix go (l : list tree) : bool :=
                 match l with
                 | [] => false
                 | c :: l' => (match c with Dict _ => true | Lst _ => list_contains_dict c | Leaf _ => false end) || go l'
                 end) ts
  | _ => false
  end.

Definition vtab := list (key * tree).     (* variable name (KS) -> value; dict assignment semantics (aset) *)

Fixpoint vars_tree (exprs : list (N * expr_entry)) (in_list : bool) (t : tree) (acc : vtab) : vtab :=
  match t with
  | Leaf _ => acc
  | Dict kvs =>
      (fix go (l : list (key * tree)) (acc : vtab) : vtab :=
         match l with
         | [] => acc
         | (k, v) :: l' =>
             let acc1 := match v with
                         | Dict _ => vars_tree exprs false v acc
                         | Lst _ => if list_contains_dict v then vars_tree exprs true v acc else acc
                         | Leaf _ => acc
                         end in
             let acc2 := match k with
                         | KI _ => acc1
                         | KS name =>
                             match v with
                             | Lst _ => aset k v acc1
                             | _ => let v' := insert_expression v exprs in
                                    if circular k v' then acc1 else aset k v' acc1
                             end
                         end in
             go l' acc2
         end) kvs acc
  | Lst ts =>
      (fix go (l : list tree) (acc : vtab) : vtab :=
         match l with
         | [] => acc
         | c :: l' => go l' (match c with
                             | Dict _ => vars_tree exprs false c acc
                             | Lst _ => vars_tree exprs true c acc
                             | Leaf _ => acc
                             end)
         end) ts acc
  end.
Definition variables_of (s : sdict) : vtab := vars_tree (sd_expr s) false (Dict (sd_data s)) [].

(* ---- str(value) for substitution -------------------------------------------------------------------- *)
Definition hex_digit (n : N) : cp := if n <? 10 then 48 + n else 87 + n.
Definition repr_char (q : cp) (c : cp) : str :=
  if c =? c_bsl then [c_bsl; c_bsl]
  else if c =? q then [c_bsl; q]
  else if c =? c_lf then [c_bsl; 110]
  else if c =? c_cr then [c_bsl; 114]
  else if c =? c_tab then [c_bsl; 116]
  else if (c <? 32) || (c =? 127) then [c_bsl; 120; hex_digit (c / 16); hex_digit (c mod 16)]
  else [c].
(* repr(str): single quotes unless the string has a single quote and no double quote *)
Definition py_repr_str (s : str) : str :=
  let q := if has_char c_sq s && negb (has_char c_dq s) then c_dq else c_sq in
  q :: flat_map (repr_char q) s ++ [q].
Definition py_repr_scalar (v : scalar) : str :=
  match v with SStr s => py_repr_str s | _ => py_str v end.
Definition py_repr_key (k : key) : str := match k with KI z => Z_to_dec z | KS s => py_repr_str s end.
Fixpoint py_repr_tree (t : tree) : str :=
  match t with
  | Leaf v => py_repr_scalar v
  | Lst ts => c_lbrk :: (fix go (l : list tree) : str :=
                           match l with
                           | [] => []
                           | [c] => py_repr_tree c
                           | c :: l' => py_repr_tree c ++ [c_comma; c_sp] ++ go l'
                           end) ts ++ [c_rbrk]
  | Dict kvs => c_lbrace :: (fix go (l : list (key * tree)) : str :=
                               match l with
                               | [] => []
                               | [(k, c)] => py_repr_key k ++ [c_colon; c_sp] ++ py_repr_tree c
                               | (k, c) :: l' => py_repr_key k ++ [c_colon; c_sp] ++ py_repr_tree c ++ [c_comma; c_sp] ++ go l'
                               end) kvs ++ [c_rbrace]
  end.
Definition py_str_tree (t : tree) : str := match t with Leaf v => py_str v | _ => py_repr_tree t end.

(* ---- _resolve_reference ----------------------------------------------------------------------------- *)
(* indexing = the part from the first opening bracket (followed by at least one more character) when the
   reference ends with a closing bracket *)
Fixpoint from_first_bracket (s : str) : option (str * str) :=   (* (before, from bracket) *)
  match s with
  | [] => None
  | c :: s' =>
      if (c =? c_lbrk) && nonempty s' then Some ([], s)
      else match from_first_bracket s' with Some (b, r) => Some (c :: b, r) | None => None end
  end.
Definition ref_indexing (r : str) : str :=
  match rev r with
  | c :: _ =>
      if c =? c_rbrk then
        match from_first_bracket r with
        | Some (_, idx) => if Nat.leb 3 (length idx) then idx else []     (* bracket, one char or more, bracket *)
        | None => []
        end
      else []
  | [] => []
  end.
Definition ref_name (r : str) : str :=
  let r1 := match r with c :: r' => if c =? c_dollar then r' else r | [] => [] end in
  match from_first_bracket r1 with Some (b, _) => b | None => r1 end.

(* indexing of the form [int][int].. ; anything else is outside the model *)
Fixpoint parse_indices (fuel : nat) (s : str) : option (list Z) :=
  match fuel with
  | O => None
  | S f =>
      match s with
      | [] => Some []
      | c :: s' =>
          if c =? c_lbrk then
            let neg := match s' with d :: _ => d =? c_minus | [] => false end in
            let s'' := if neg then tl s' else s' in
            let (ds, rest) := span is_digit s'' in
            match ds, rest with
            | _ :: _, r :: rest' =>
                if r =? c_rbrk then
                  match parse_indices f rest' with
                  | Some l => Some ((if neg then - Z.of_N (dec_to_N ds) else Z.of_N (dec_to_N ds))%Z :: l)
                  | None => None
                  end
                else None
            | _, _ => None
            end
          else None
      end
  end.
Fixpoint index_tree (t : tree) (idx : list Z) : option tree :=
  match idx with
  | [] => Some t
  | i :: idx' =>
      match t with
      | Lst ts => match norm_index i (length ts) with
                  | Some n => match nth_error ts n with Some c => index_tree c idx' | None => None end
                  | None => None
                  end
      | Leaf (SStr s) => match norm_index i (length s) with      (* Python indexes strings, too *)
                         | Some n => match nth_error s n with
                                     | Some c => index_tree (Leaf (SStr [c])) idx'
                                     | None => None
                                     end
                         | None => None
                         end
      | _ => None        (* indexing a number / dict by an int raises: suppressed *)
      end
  end.

Fixpoint tree_has_dollar (t : tree) : bool :=
  match t with
  | Leaf (SStr s) => has_char c_dollar s
  | Leaf _ => false
  | Lst ts => (fix go (l : list tree) := match l with [] => false | c :: l' => tree_has_dollar c || go l' end) ts
  | Dict kvs => (fix go (l : list (key * tree)) :=
                   match l with
                   | [] => false
                   | (k, c) :: l' => (match k with KS s => has_char c_dollar s | KI _ => false end) || tree_has_dollar c || go l'
                   end) kvs
  end.

(* the text is exactly one reference: dollar, word character, then word characters / square brackets *)
Definition is_plain_reference (s : str) : bool :=
  match find_reference [] s with
  | Some ([], _, []) => true
  | _ => false
  end.

Inductive rres := RNone | RVal (t : tree) | ROutside | RFuel.

(* number of nodes and characters of a variable table: bounds the number of distinct values the resolver can meet *)
Fixpoint tree_size (t : tree) : nat :=
  match t with
  | Leaf (SStr s) => S (length s)
  | Leaf _ => 1
  | Lst ts => S (fold_right (fun c n => (tree_size c + n)%nat) 0%nat ts)
  | Dict kvs => S (fold_right (fun kv n => (tree_size (snd kv) + n)%nat) 0%nat kvs)
  end.
Definition vars_size (vars : vtab) : nat := fold_right (fun kv n => (tree_size (snd kv) + n)%nat) 0%nat vars.

(* one resolution; the inner while-loop is [chase] *)
Fixpoint resolve_ref (fuel : nat) (vars : vtab) (seen : list str) (reference : str) {struct fuel} : rres :=
  match fuel with
  | O => RFuel
  | S f =>
      let indexing := ref_indexing reference in
      let name := ref_name reference in
      if existsb (str_eqb name) seen then RNone else
      match alookup (KS name) vars with
      | None => RNone
      | Some v0 =>
          let seen' := seen ++ [name] in
          (* while "$" in str(value): reference = str(value); value = resolve(reference) *)
          let chased :=
            (fix chase (g : nat) (value : option tree) (last_ref : option str) (tried : list str) {struct g}
               : rres * option str :=
               match g with
               | O => (RFuel, last_ref)
               | S g' =>
                   match value with
                   | None => (RNone, last_ref)
                   | Some t =>
                       if tree_has_dollar t then
                         let r2 := py_str_tree t in
                         (* repaired: a reference text that was tried before is unresolvable *)
                         if existsb (str_eqb r2) tried then (RNone, last_ref) else
                         (* repaired: only a plain reference is followed; an expression text has no value yet *)
                         if negb (is_plain_reference r2) then (RNone, last_ref) else
                         match resolve_ref f vars seen' r2 with
                         | RVal t' => chase g' (Some t') (Some r2) (r2 :: tried)
                         | RNone => (RNone, Some r2)
                         | ROutside => (ROutside, Some r2)
                         | RFuel => (RFuel, Some r2)
                         end
                       else (RVal t, last_ref)
                   end
               end) (S (vars_size vars)) (Some v0) None [] in
          let '(val, last_ref) := chased in
          match val with
          | RFuel => RFuel
          | ROutside => ROutside
          | _ =>
              match indexing with
              | [] => val
              | _ =>
                  match parse_indices (S (length indexing)) indexing with
                  | None => ROutside
                  | Some idx =>
                      (* repaired: the index applies to the value the chain ends in *)
                      match val with
                      (* repaired (repo 805a1f6): an index that addresses no element makes the reference unresolvable *)
                      | RVal t => match index_tree t idx with Some t' => RVal t' | None => RNone end
                      | _ => val
                      end
                  end
              end
          end
      end
  end.
Definition resolve_reference (vars : vtab) (reference : str) : rres :=
  resolve_ref (S (S (length vars))) vars [] reference.

(* a resolved reference: a value that is not None and whose str() has neither EXPRESSION nor a dollar *)
Definition usable (r : rres) : option tree :=
  match r with
  | RVal t =>
      let s := py_str_tree t in
      if has_char c_dollar s || contains w_EXPRESSION s then None
      else match t with Leaf SNone => None | _ => Some t end
  | _ => None
  end.

(* ---- substitution ------------------------------------------------------------------------------------ *)
(* re.sub(escape(ref) + not followed by a word character or an opening bracket, value) *)
Fixpoint subst_token (fuel : nat) (ref val : str) (e : str) : str :=
  match fuel with
  | O => e
  | S f =>
      match e with
      | [] => []
      | c :: e' =>
          if starts_with ref e &&
             negb (match drop_n (length ref) e with d :: _ => is_word d || (d =? c_lbrk) | [] => false end)
          then val ++ subst_token f ref val (drop_n (length ref) e)
          else c :: subst_token f ref val e'
      end
  end.
(* the loop over the references found in the expression (findall order, duplicates included) *)
Definition subst_refs (vars : vtab) (e : str) : str :=
  fold_left (fun acc r =>
               match usable (resolve_reference vars r) with
               | Some t => subst_token (S (length acc)) r (py_str_tree t) acc
               | None => acc
               end) (find_refs (S (length e)) e) e.
