(* cli/dict_parser.py: mapping of command line flags to DictParser.parse parameters; _validate_scope;
   dict_writer.create_target_file_name on (stem, suffix) pairs. *)
From Coq Require Import String.
From Coq Require Import NArith ZArith List Bool.
From DictIO Require Import Chars Str Value Scalar KeyPath Reader.
Import ListNotations.
Open Scope N_scope.

Inductive out_fmt := OCpp | OFoam | OXml | OJson.
Record flags := mkFlags {
  f_ignore_includes : bool;      (* -I *)
  f_order : bool;                (* --order *)
  f_ignore_comments : bool;      (* -C *)
  f_append : bool;               (* --mode a  (false: --mode w or absent) *)
  f_output : option out_fmt;     (* -o ; absent = cpp *)
  f_scope : option str;          (* --scope TEXT *)
  f_quiet : bool; f_verbose : bool; f_log : bool    (* console / file logging: no influence on parse() *)
}.
Record kwargs := mkKw {
  k_includes : bool; k_mode_append : bool; k_order : bool; k_comments : bool;
  k_scope : option (res (list scalar)); k_output : out_fmt
}.

(* str.strip(" []") *)
Definition scope_strip_char (c : cp) : bool := (c =? c_sp) || (c =? c_lbrk) || (c =? c_rbrk).
Fixpoint lstrip_by (p : cp -> bool) (s : str) : str :=
  match s with c :: s' => if p c then lstrip_by p s' else s | [] => [] end.
Definition strip_by (p : cp -> bool) (s : str) : str := rev (lstrip_by p (rev (lstrip_by p s))).
Definition looks_like_list (s : str) : bool :=
  match lstrip s with c :: _ => c =? c_lbrk | [] => false end.
(* _validate_scope for a string argument *)
Definition validate_scope (s : str) : res (list scalar) :=
  if looks_like_list s then
    fold_right (fun part acc => bind acc (fun l => bind (parse_value (strip part)) (fun v => Ok (v :: l))))
               (Ok []) (split_on c_comma [] (strip_by scope_strip_char s))
  else Ok [SStr s].

Definition cli_kwargs (f : flags) : kwargs :=
  mkKw (negb (f_ignore_includes f)) (f_append f) (f_order f) (negb (f_ignore_comments f))
       (match f_scope f with Some s => Some (validate_scope s) | None => None end)
       (match f_output f with Some o => o | None => OCpp end).

(* ---- create_target_file_name ------------------------------------------------------------------------ *)
(* a file name as (stem, suffix) following pathlib: suffix = last dot-part unless the name starts with that dot *)
Fixpoint last_dot_split (s : str) (acc : str) : option (str * str) :=     (* scanning rev s *)
  match s with
  | [] => None
  | c :: s' => if c =? c_dot then Some (rev s', c :: acc) else last_dot_split s' (c :: acc)
  end.
Definition stem_suffix (name : str) : str * str :=
  match last_dot_split (rev name) [] with
  | Some (stem, suf) =>
      (* pathlib: no suffix when the name starts with the only dot or ends with a dot *)
      if nonempty stem && Nat.ltb 1 (length suf) then (stem, suf) else (name, [])
  | None => (name, [])
  end.
(* the key as text, path separators spelled as underscores (repo fix 7af8903: re.sub(r"[\\/]", "_", str(key))) *)
Definition scalar_text (v : scalar) : str :=
  map (fun c => if (c =? c_slash) || (c =? c_bsl) then c_us else c) (py_str v).
Definition target_file_name (name : str) (prefix : option str) (scope : list scalar) (output : option str) : str :=
  let (stem0, suf0) := stem_suffix name in
  let '(fname, ending) :=
    if str_eqb stem0 (of_string "parsed") || match prefix with Some p => str_eqb stem0 p | None => false end
    then (stem0 ++ suf0, []) else (stem0, suf0) in
  let fname1 := match scope with
                | [] => fname
                | _ => fname ++ [c_us] ++ join [c_us] (map scalar_text scope)
                end in
  let fname2 := match prefix with
                | Some p0 =>
                    if nonempty p0 then
                      let p := (match rev p0 with c :: r => if c =? c_dot then rev r else p0 | [] => p0 end) ++ [c_dot] in
                      (* re.sub("^" + escape(prefix), "", file_name) : the prefix with its dot, literally *)
                      let n := length p in
                      let body := if starts_with p fname1 then drop_n n fname1 else fname1 in
                      p ++ body
                    else fname1
                | None => fname1
                end in
  let ending' := match output with
                 | Some o =>
                     if nonempty o then
                       let o' := if str_eqb o (of_string "cpp") || str_eqb o (of_string "foam") || str_eqb o (of_string "json")
                                    || str_eqb o (of_string "xml") then o else of_string "cpp" in
                       if str_eqb o' (of_string "cpp") then [] else c_dot :: o'
                     else ending
                 | None => ending
                 end in
  fname2 ++ ending'.
