(* NativeFormatter / FoamFormatter: format_dict layout, key sorting of to_string, remove_trailing_spaces,
   re-insertion of block comments / includes / line comments. *)
From Coq Require Import String.
From Coq Require Import NArith ZArith List Bool.
From DictIO Require Import Chars Str Value Scalar KeyPath SDict.
Import ListNotations.
Open Scope N_scope.

Definition spaces (n : nat) : str := repeat c_sp n.
Definition indent_of (level : nat) : str := spaces (4 * level).
(* the base case of format_dict: indent + text + end *)
Definition line (level : nat) (txt : str) (nl : bool) : str :=
  indent_of level ++ txt ++ (if nl then [c_lf] else []).

(* str(key) as written in front of nested dicts / lists (no quoting) *)
Definition key_text (k : key) : str := match k with KI z => Z_to_dec z | KS s => s end.

Section Fmt.
  Variable fmt : scalar -> str.       (* format_value *)
  Variable fmtk : key -> str.         (* format_key *)

  (* one scalar list item; [first] = first_item_on_this_line, [idx] = index, [len] = len(arg) *)
  Definition list_item (level : nat) (first : bool) (idx len : nat) (v : scalar) : str * bool :=
    let value := fmt v in
    let item_level := if first then S level else 1%nat in
    let last := Nat.eqb (Nat.modulo (S idx) 10) 0 || Nat.eqb (S idx) len in
    if last then (line item_level value true, true)
    else (line item_level (value ++ spaces (14 - length value)) false, false).

  Fixpoint fmt_tree (level : nat) (anc_list : bool) (t : tree) : str :=
    match t with
    | Leaf v => fmt v     (* not reached from to_string *)
    | Lst ts =>
        line level [c_lpar] true ++
        (fix items (l : list tree) (idx : nat) (first : bool) : str :=
           match l with
           | [] => []
           | c :: l' =>
               match c with
               | Lst _ => fmt_tree (S level) true c ++ items l' (S idx) first
               | Dict _ =>
                   line (S level) [] true ++ line (S level) [c_lbrace] true ++
                   fmt_tree (S (S level)) false c ++ line (S level) [c_rbrace] true ++
                   items l' (S idx) true
               | Leaf v =>
                   let (s, first') := list_item level first idx (length ts) v in
                   s ++ items l' (S idx) first'
               end
           end) ts 0%nat true ++
        line level (if anc_list then [c_rpar] else [c_rpar; c_semi]) true
    | Dict kvs =>
        (fix entries (l : list (key * tree)) : str :=
           match l with
           | [] => []
           | (k, c) :: l' =>
               match c with
               | Dict _ =>
                   line level (key_text k) true ++ line level [c_lbrace] true ++
                   fmt_tree (S level) false c ++ line level [c_rbrace] true
               | Lst _ => line level (key_text k) true ++ fmt_tree level false c
               | Leaf v =>
                   let skey := fmtk k in
                   let value := fmt v in
                   line level (skey ++ spaces (Nat.max 8 (30 - length skey - 4 * level)) ++ value ++ [c_semi]) true
               end ++ entries l'
           end) kvs
    end.
End Fmt.

(* ---- remove_trailing_spaces: rstrip every line (line feed kept) -------------------------------- *)
Fixpoint split_lines_go (cur : str) (s : str) : list str :=
  match s with
  | [] => match cur with [] => [] | _ => [rev cur] end
  | c :: s' => if c =? c_lf then rev (c :: cur) :: split_lines_go [] s' else split_lines_go (c :: cur) s'
  end.
(* lines with their line feed *)
Definition split_lines_lf (s : str) : list str := split_lines_go [] s.
Definition rstrip_line (l : str) : str :=
  match rev l with
  | c :: r => if c =? c_lf then rstrip (rev r) ++ [c_lf] else rstrip l
  | [] => []
  end.
Definition remove_trailing_spaces (s : str) : str := flat_map rstrip_line (split_lines_lf s).

(* ---- to_string ---------------------------------------------------------------------------------- *)
(* block comment keys first, then include keys, then the rest (top level only) *)
Definition is_block_key (k : key) : bool := match k with KS s => has_placeholder w_BLOCKCOMMENT s | KI _ => false end.
Definition is_include_key (k : key) : bool := match k with KS s => has_placeholder w_INCLUDE s | KI _ => false end.
Definition sort_top (kvs : list (key * tree)) : list (key * tree) :=
  let b := filter (fun kv => is_block_key (fst kv)) kvs in
  let i := filter (fun kv => is_include_key (fst kv)) kvs in
  let first := aupdate b i in     (* a key that is both stays where the block pass put it *)
  let rest := filter (fun kv => negb (amem (fst kv) first)) kvs in
  first ++ rest.

Definition native_body (kvs : list (key * tree)) : str :=
  fmt_tree format_scalar format_key 0 false (Dict (sort_top kvs)).
Definition foam_body (kvs : list (key * tree)) : str :=
  fmt_tree foam_format_scalar (fun k => match k with KI z => Z_to_dec z | KS s => foam_format_string s end)
           0 false (Dict (sort_top kvs)).

(* NativeFormatter.to_string on a plain dict *)
Definition to_string_plain (kvs : list (key * tree)) : str := remove_trailing_spaces (native_body kvs).

(* FoamFormatter: underscore keys removed at every level of dict nesting (repaired: also inside lists) *)
Fixpoint strip_us (t : tree) : tree :=
  match t with
  | Dict kvs => Dict ((fix go (l : list (key * tree)) : list (key * tree) :=
                         match l with
                         | [] => []
                         | (k, c) :: l' =>
                             if starts_with [c_us] (match k with KI z => Z_to_dec z | KS s => foam_format_string s end)
                             then go l'
                             else (k, strip_us c) :: go l'
                         end) kvs)
  | Lst ts => Lst ((fix go (l : list tree) : list tree :=
                      match l with [] => [] | c :: l' => strip_us c :: go l' end) ts)
  | Leaf _ => t
  end.
Definition foam_to_string_plain (kvs : list (key * tree)) : str :=
  remove_trailing_spaces (foam_body (match strip_us (Dict kvs) with Dict k => k | _ => [] end)).

(* ---- headers ------------------------------------------------------------------------------------ *)
Definition native_header : str := of_string
"/*---------------------------------*- C++ -*----------------------------------*\
filetype dictionary; coding utf-8; version 0.1; local --; purpose --;
\*----------------------------------------------------------------------------*/
".
Definition foam_header : str := of_string
"/*--------------------------------*- C++ -*----------------------------------*\
| =========                 |                                                 |
| \\      /  F ield         | OpenFOAM: The Open Source CFD Toolbox           |
|  \\    /   O peration     | Version:  dev                                   |
|   \\  /    A nd           | Web:      www.OpenFOAM.com                      |
|    \\/     M anipulation  |                                                 |
\*---------------------------------------------------------------------------*/
FoamFile
{
    version                   2.0;
    format                    ascii;
    class                     dictionary;
    object                    foamDict;
}
// * * * * * * * * * * * * * * * * * * * * * * * * * * * * * * * * * * * * * //
".

(* re.search: white space, C or c, two plus signs, white space *)
Fixpoint has_cpp_mark (s : str) : bool :=
  match s with
  | a :: ((b :: c :: d :: e :: _) as s') =>
      (is_space a && ((b =? 67) || (b =? 99)) && (c =? c_plus) && (d =? c_plus) && is_space e) || has_cpp_mark s'
  | _ => false
  end.
Definition make_default_block_comment (bc : str) : str :=
  if has_cpp_mark bc then bc else native_header ++ bc.
Definition foam_make_default_block_comment (bc : str) : str :=
  let bc := if has_cpp_mark bc then bc else foam_header ++ bc in
  if contains (of_string "OpenFOAM") bc then bc else foam_header.

(* ---- re-insertion by placeholder id ------------------------------------------------------------- *)
(* re.sub(PLACEHOLDER ws+ PLACEHOLDER;  ->  replacement) : every occurrence, left to right *)
Fixpoint skip_ws1 (s : str) : option str :=      (* one or more white space characters *)
  match s with
  | c :: s' => if is_space c then Some (lstrip s') else None
  | [] => None
  end.
Definition match_ph_pair (ph : str) (s : str) : option str :=
  if starts_with ph s then
    match skip_ws1 (drop_n (length ph) s) with
    | Some r => if starts_with (ph ++ [c_semi]) r then Some (drop_n (S (length ph)) r) else None
    | None => None
    end
  else None.
Fixpoint sub_ph_pair (fuel : nat) (ph repl : str) (s : str) : str * bool :=
  match fuel with
  | O => (s, false)
  | S f =>
      match s with
      | [] => ([], false)
      | c :: s' =>
          match match_ph_pair ph s with
          | Some rest => let (r, _) := sub_ph_pair f ph repl rest in (repl ++ r, true)
          | None => let (r, b) := sub_ph_pair f ph repl s' in (c :: r, b)
          end
      end
  end.

(* replacement templates of re.sub: a backslash escape in the replacement text is interpreted.
   Block comments are pre-processed (every backslash doubled) so they come out literally; include names are
   doubled by the caller; line comments are passed as they are (repaired code: passed through a function,
   i.e. literally). *)

(* insert_block_comments (repaired): the header is the block comment the text begins with *)
Definition header_key (bcs : list (N * str)) (s : str) : option N :=
  if starts_with w_BLOCKCOMMENT s && all_digits_n 6 (drop_n (length w_BLOCKCOMMENT) s) then
    let i := dec_to_N (take_n 6 (drop_n (length w_BLOCKCOMMENT) s)) in
    match match_ph_pair (placeholder w_BLOCKCOMMENT i) s with
    | Some _ => match tlookup i bcs with Some _ => Some i | None => None end
    | None => None
    end
  else None.
(* re.sub(.., count=1): the first occurrence only *)
Fixpoint sub_ph_pair_once (fuel : nat) (ph repl : str) (s : str) : str * bool :=
  match fuel with
  | O => (s, false)
  | S f =>
      match s with
      | [] => ([], false)
      | c :: s' =>
          match match_ph_pair ph s with
          | Some rest => (repl ++ rest, true)
          | None => let (r, b) := sub_ph_pair_once f ph repl s' in (c :: r, b)
          end
      end
  end.
(* repaired: only the occurrence the text begins with is the header; an identical block comment further down carries
   the same placeholder and is written as it is *)
Fixpoint insert_blocks (mk_default : str -> str) (hk : option N) (bcs : list (N * str)) (inserted : str) (s : str)
  : str :=
  match bcs with
  | [] => s
  | (i, bc) :: bcs' =>
      let is_header := match hk with Some h => N.eqb h i | None => false end in
      let bc1 := if is_header then mk_default bc else bc in
      let bc2 := if contains bc1 inserted then [] else bc1 in
      let ph := placeholder w_BLOCKCOMMENT i in
      if is_header then
        let (s1, found) := sub_ph_pair_once (S (length s)) ph bc2 s in
        if found then
          let (s2, _) := sub_ph_pair (S (length s1)) ph bc s1 in
          insert_blocks mk_default hk bcs' (inserted ++ bc2 ++ bc) s2
        else insert_blocks mk_default hk bcs' inserted s
      else
        let (s', found) := sub_ph_pair (S (length s)) ph bc2 s in
        if found then insert_blocks mk_default hk bcs' (inserted ++ bc2) s'
        else insert_blocks mk_default hk bcs' inserted s
  end.
Definition insert_block_comments (mk_default : str -> str) (bcs : list (N * str)) (s : str) : str :=
  let hk := header_key bcs s in
  let s' := insert_blocks mk_default hk bcs [] s in
  match hk with None => mk_default [] ++ s' | Some _ => s' end.

Definition insert_includes (fmt_name : str -> str) (incs : list (N * include_entry)) (s : str) : str :=
  fold_left (fun acc (e : N * include_entry) =>
               let '(i, (_, name, _)) := e in
               let directive := of_string "#include " ++ fmt_name name in
               fst (sub_ph_pair (S (length acc)) (placeholder w_INCLUDE i) directive acc)) incs s.

Definition insert_line_comments (lcs : list (N * str)) (s : str) : str :=
  fold_left (fun acc (e : N * str) =>
               fst (sub_ph_pair (S (length acc)) (placeholder w_LINECOMMENT (fst e)) (snd e) acc)) lcs s.

(* NativeFormatter.to_string on an SDict *)
Definition to_string_sd (s : sdict) : str :=
  let body := native_body (sd_data s) in
  let s1 := insert_block_comments make_default_block_comment (sd_bc s) body in
  let s2 := insert_includes format_string (sd_inc s) s1 in
  let s3 := insert_line_comments (sd_lc s) s2 in
  remove_trailing_spaces s3.

Definition foam_to_string_sd (s : sdict) : str :=
  let kvs := match strip_us (Dict (sd_data s)) with Dict k => k | _ => [] end in
  let body := foam_body kvs in
  let s1 := insert_block_comments foam_make_default_block_comment (sd_bc s) body in
  let s2 := insert_includes foam_format_string (sd_inc s) s1 in
  let s3 := insert_line_comments (sd_lc s) s2 in
  remove_trailing_spaces s3.
