(* NativeParser: the text pipeline up to the token list (line comments, includes, block comments,
   string literals, expressions, delimiter separation, tokenising). Regular expressions are hand-written. *)
From Coq Require Import String.
From Coq Require Import NArith ZArith List Bool.
From DictIO Require Import Chars Str Value Scalar KeyPath SDict.
Import ListNotations.
Open Scope N_scope.

(* ---- str.splitlines(keepends=True): LF CR VT FF FS GS RS NEL LS PS ----------------------------- *)
Definition is_linebreak (c : cp) : bool :=
  (c =? c_lf) || (c =? c_cr) || (c =? c_vt) || (c =? c_ff) || (c =? 28) || (c =? 29) || (c =? 30)
  || (c =? 133) || (c =? 8232) || (c =? 8233).
Fixpoint splitlines_go (cur : str) (s : str) : list str :=
  match s with
  | [] => match cur with [] => [] | _ => [rev cur] end
  | c :: s' =>
      if c =? c_cr then
        match s' with
        | d :: s'' => if d =? c_lf then rev (d :: c :: cur) :: splitlines_go [] s''
                      else rev (c :: cur) :: splitlines_go [] s'
        | [] => [rev (c :: cur)]
        end
      else if is_linebreak c then rev (c :: cur) :: splitlines_go [] s'
      else splitlines_go (c :: cur) s'
  end.
Definition splitlines (s : str) : list str := splitlines_go [] s.

(* the part of a line that dot-star-dollar can cover: everything up to a final line feed; dot does not
   match a line feed, so an inner line feed cannot occur inside one splitlines line *)
Definition chomp_lf (l : str) : str * str :=
  match rev l with
  | c :: r => if c =? c_lf then (rev r, [c_lf]) else (l, [])
  | [] => ([], [])
  end.

(* position of the first double slash not preceded by a colon: returns (before, from-slashes) *)
Fixpoint find_comment (prev_colon : bool) (acc : str) (s : str) : option (str * str) :=
  match s with
  | a :: ((b :: _) as s') =>
      if (a =? c_slash) && (b =? c_slash) && negb prev_colon then Some (rev acc, s)
      else find_comment (a =? c_colon) (a :: acc) s'
  | _ => None
  end.

Record lex_state := mkLex {
  lx_count : Z;                          (* BorgCounter.theCount *)
  lx_lc : list (N * str);
  lx_bc : list (N * str);
  lx_inc : list (N * include_entry);
  lx_expr : list (N * expr_entry);
  lx_lit : list (N * str);               (* string_literals *)
}.
(* BorgCounter(): increments, wraps to 0 after 999999 *)
Definition counter_next (c : Z) : Z := let c' := (c + 1)%Z in if (999999 <? c')%Z then 0%Z else c'.

(* ---- _extract_line_comments -------------------------------------------------------------------- *)
Definition extract_line_comment (comments : bool) (count : Z) (l : str) : str * Z * option (N * str) :=
  let (body, nl) := chomp_lf l in
  match find_comment false [] body with
  | Some (before, cmt) =>
      let k := counter_next count in
      let ph := if comments then placeholder w_LINECOMMENT (Z.to_N k) else [] in
      (* the comment is replaced where it was found: line[:match.start()] + placeholder + line[match.end():] *)
      (before ++ ph ++ nl, k, Some (Z.to_N k, cmt))
  | None => (l, count, None)
  end.
Fixpoint extract_line_comments (comments : bool) (count : Z) (ls : list str)
  : list str * Z * list (N * str) :=
  match ls with
  | [] => ([], count, [])
  | l :: ls' =>
      let '(l', c1, e) := extract_line_comment comments count l in
      let '(rest, c2, tab) := extract_line_comments comments c1 ls' in
      (l' :: rest, c2, match e with Some x => tupdate [x] tab | None => tab end)
  end.

(* ---- _extract_includes ------------------------------------------------------------------------- *)
Definition w_include := of_string "include".
(* ^ ws* # ws* include *)
Definition include_line_rest (l : str) : option str :=
  match lstrip l with
  | c :: r => if c =? c_hash then
                let r' := lstrip r in
                if starts_with w_include r' then Some (drop_n (length w_include) r') else None
              else None
  | [] => None
  end.
(* lstrip/rstrip of the regex: leading white space after the keyword and trailing white space *)
Definition include_name_of (rest : str) : str := remove_quotes (rstrip (lstrip rest)).
Definition path_join (dir name : str) : str :=
  match name with
  | c :: _ => if c =? c_slash then name else dir ++ [c_slash] ++ name
  | [] => dir
  end.
Fixpoint extract_includes (dir : str) (count : Z) (ls : list str) : list str * Z * list (N * include_entry) :=
  match ls with
  | [] => ([], count, [])
  | l :: ls' =>
      match include_line_rest l with
      | Some rest =>
          let k := counter_next count in
          let name := include_name_of rest in
          let directive := fst (chomp_lf l) in
          let '(r, c2, tab) := extract_includes dir k ls' in
          ((placeholder w_INCLUDE (Z.to_N k) ++ [c_lf]) :: r, c2,
           tupdate [(Z.to_N k, (directive, name, path_join dir name))] tab)
      | None =>
          let '(r, c2, tab) := extract_includes dir count ls' in (l :: r, c2, tab)
      end
  end.

(* ---- _extract_block_comments ------------------------------------------------------------------- *)
(* non-greedy: from slash-star to the first star-slash after it; non-overlapping, left to right *)
Fixpoint take_until_close (acc : str) (s : str) : option (str * str) :=   (* s is after the opener *)
  match s with
  | a :: ((b :: r) as s') =>
      if (a =? c_star) && (b =? c_slash) then Some (rev (b :: a :: acc), r)
      else take_until_close (a :: acc) s'
  | _ => None
  end.
Fixpoint find_block_comments (fuel : nat) (s : str) : list str :=
  match fuel with
  | O => []
  | S f =>
      match s with
      | a :: ((b :: r) as s') =>
          if (a =? c_slash) && (b =? c_star) then
            match take_until_close [b; a] r with
            | Some (cmt, rest) => cmt :: find_block_comments f rest
            | None => find_block_comments f s'
            end
          else find_block_comments f s'
      | _ => []
      end
  end.
Fixpoint number_from {A} (i : N) (l : list A) : list (N * A) :=
  match l with [] => [] | x :: l' => (i, x) :: number_from (i + 1) l' end.
Definition extract_block_comments (comments : bool) (text : str) : str * list (N * str) :=
  let found := find_block_comments (S (length text)) text in
  let tab := number_from 0 found in
  (fold_left (fun acc (e : N * str) =>
                replace_all (snd e) (if comments then placeholder w_BLOCKCOMMENT (fst e) else []) acc) tab text,
   tab).

(* _remove_line_endings_from_block_content *)
Definition remove_line_endings (s : str) : str := strip (map (fun c => if c =? c_lf then c_sp else c) s).

(* ---- _extract_string_literals ------------------------------------------------------------------ *)
(* opener at the head of s (given the previous character): an even number (0,2,4,6,8) of backslashes
   not preceded by a backslash, followed by the quote character q.  Returns the opener text. *)
Fixpoint count_bsl (s : str) : nat :=
  match s with c :: s' => if c =? c_bsl then S (count_bsl s') else O | [] => O end.
Definition opener_at (q : cp) (prev_bsl : bool) (s : str) : option str :=
  if prev_bsl then None else
  let n := count_bsl s in
  match drop_n n s with
  | c :: _ =>
      if (c =? q) && (Nat.eqb n 0 || Nat.eqb n 2 || Nat.eqb n 4 || Nat.eqb n 6 || Nat.eqb n 8)
      then Some (repeat c_bsl n ++ [q]) else None
  | [] => None
  end.
(* dot-star-lazy then the opener text again: first occurrence of [op] in s; returns (matched-with-closer, rest) *)
Fixpoint until_closer (op : str) (acc : str) (s : str) : option (str * str) :=
  match s with
  | [] => None
  | c :: s' =>
      if starts_with op s then Some (rev acc ++ op, drop_n (length op) s)
      else until_closer op (c :: acc) s'
  end.
(* one alternative of the search pattern at the head of s: opener, lazily anything, the opener text again *)
Definition quoted_at (q : cp) (prev_bsl : bool) (s : str) : option (str * str) :=   (* literal, rest *)
  match opener_at q prev_bsl s with
  | Some op =>
      match until_closer op [] (drop_n (length op) s) with
      | Some (body, rest) => Some (op ++ body, rest)
      | None => None
      end
  | None => None
  end.
(* re.sub over the alternation  single-quoted | double-quoted  with a replacement function: ONE scan from left to
   right; at every position the single-quote alternative is tried first, then the double-quote one; a match is
   consumed as a whole (quote characters of the other flavour inside it neither open nor close anything) and replaced
   in place by a fresh placeholder -- except a double-quoted match that contains a dollar (an expression), which is
   left as it is.  out is the output so far, reversed. *)
Fixpoint scan_literals (fuel : nat) (prev_bsl : bool) (count : Z) (out : str) (tab : list (N * str)) (s : str)
  : str * Z * list (N * str) :=
  match fuel with
  | O => (rev out ++ s, count, tab)
  | S f =>
      match s with
      | [] => (rev out, count, tab)
      | c :: s' =>
          match quoted_at c_sq prev_bsl s with
          | Some (lit, rest) =>
              let k := counter_next count in
              scan_literals f false k (rev (placeholder w_STRINGLITERAL (Z.to_N k)) ++ out)
                            (tupdate tab [(Z.to_N k, remove_quotes lit)]) rest
          | None =>
              match quoted_at c_dq prev_bsl s with
              | Some (lit, rest) =>
                  if has_char c_dollar lit then scan_literals f false count (rev lit ++ out) tab rest
                  else
                    let k := counter_next count in
                    scan_literals f false k (rev (placeholder w_STRINGLITERAL (Z.to_N k)) ++ out)
                                  (tupdate tab [(Z.to_N k, remove_quotes lit)]) rest
              | None => scan_literals f (c =? c_bsl) count (c :: out) tab s'
              end
          end
      end
  end.
Definition extract_string_literals (count : Z) (text : str) : str * Z * list (N * str) :=
  scan_literals (S (length text)) false count [] [] text.

(* ---- _extract_expressions ---------------------------------------------------------------------- *)
(* findall: double quote, non-quote characters, dollar, lazily to the next double quote *)
Fixpoint expr_from_quote (acc : str) (seen_dollar : bool) (s : str) : option (str * str) :=
  (* s is after the opening quote; the first part may not contain a quote before a dollar was seen *)
  match s with
  | [] => None
  | c :: s' =>
      if c =? c_dq then (if seen_dollar then Some (rev (c :: acc), s') else None)
      else expr_from_quote (c :: acc) (seen_dollar || (c =? c_dollar)) s'
  end.
Fixpoint find_expressions (fuel : nat) (s : str) : list str :=
  match fuel with
  | O => []
  | S f =>
      match s with
      | [] => []
      | c :: s' =>
          if c =? c_dq then
            match expr_from_quote [c] false s' with
            | Some (e, rest) => e :: find_expressions f rest
            | None => find_expressions f s'
            end
          else find_expressions f s'
      end
  end.
Definition strip_dq (s : str) : str := filter (fun c => negb (c =? c_dq)) s.
(* first reference: dollar, word char, then word chars or square brackets *)
Fixpoint find_reference (acc : str) (s : str) : option (str * str * str) :=   (* before, ref, after *)
  match s with
  | d :: ((w :: r) as s') =>
      if (d =? c_dollar) && is_word w then
        let (tl, rest) := span is_ref_char r in Some (rev acc, d :: w :: tl, rest)
      else find_reference (d :: acc) s'
  | _ => None
  end.
Fixpoint extract_references (fuel : nat) (count : Z) (text : str) (tab : list (N * expr_entry))
  : str * Z * list (N * expr_entry) :=
  match fuel with
  | O => (text, count, tab)
  | S f =>
      match find_reference [] text with
      | Some (before, ref, after) =>
          let k := counter_next count in
          let ph := placeholder w_EXPRESSION (Z.to_N k) in
          extract_references f k (before ++ ph ++ after) (tupdate tab [(Z.to_N k, (ref, ph))])
      | None => (text, count, tab)
      end
  end.
Definition extract_expressions (count : Z) (text : str) : str * Z * list (N * expr_entry) :=
  let exprs := find_expressions (S (length text)) text in
  let '(t1, c1, tab1) :=
    fold_left (fun (acc : str * Z * list (N * expr_entry)) (e : str) =>
                 let '(t, c, tab) := acc in
                 let k := counter_next c in
                 let ph := placeholder w_EXPRESSION (Z.to_N k) in
                 (replace_all e ph t, k, tupdate tab [(Z.to_N k, (strip_dq e, ph))])) exprs (text, count, []) in
  extract_references (S (length t1)) c1 t1 tab1.

(* ---- _separate_delimiters and tokenising ------------------------------------------------------- *)
Definition is_delim (c : cp) : bool :=
  (c =? c_lbrace) || (c =? c_rbrace) || (c =? c_lpar) || (c =? c_rpar) || (c =? c_lt) || (c =? c_gt)
  || (c =? c_semi) || (c =? c_comma).
Definition pad_delims (s : str) : str :=
  flat_map (fun c => if is_delim c then [c_sp; c; c_sp] else [c]) s.
(* re.sub(ws+ -> one blank) *)
Fixpoint collapse_ws (prev_ws : bool) (s : str) : str :=
  match s with
  | [] => []
  | c :: s' => if is_space c then (if prev_ws then collapse_ws true s' else c_sp :: collapse_ws true s')
               else c :: collapse_ws false s'
  end.
Definition separate_delimiters (s : str) : str := collapse_ws false (pad_delims s).
Definition tokenize (s : str) : list str := split_ws s.

(* ---- the whole front end ----------------------------------------------------------------------- *)
Record lexed := mkLexed {
  lxd_tokens : list str;
  lxd_count : Z;
  lxd_lc : list (N * str);
  lxd_bc : list (N * str);
  lxd_inc : list (N * include_entry);
  lxd_expr : list (N * expr_entry);
  lxd_lit : list (N * str);
}.
Definition lex (comments : bool) (dir : str) (count : Z) (text : str) : lexed :=
  let lines := splitlines text in
  let '(l1, c1, lc) := extract_line_comments comments count lines in
  let '(l2, c2, inc) := extract_includes dir c1 l1 in
  let block := concat l2 in
  let (b1, bc) := extract_block_comments comments block in
  let b2 := remove_line_endings b1 in
  let '(b3, c3, lit) := extract_string_literals c2 b2 in
  let '(b4, c4, ex) := extract_expressions c3 b3 in
  let b5 := separate_delimiters b4 in
  mkLexed (tokenize b5) c4 lc bc inc ex lit.
