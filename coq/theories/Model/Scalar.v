(* Parser.parse_value / parse_key / remove_quotes_from_string and Formatter.format_value.
   Regular expressions are hand-written recognisers; CPython's int()/float() literal grammars are
   written independently (py_int_ok / py_float_ok). *)
From Coq Require Import String.
From Coq Require Import NArith ZArith List Bool.
From DictIO Require Import Chars Str Value.
Import ListNotations.
Open Scope N_scope.

Definition nonempty {A} (l : list A) : bool := match l with [] => false | _ => true end.

(* ---- remove_quotes_from_string: re.sub of one leading and one trailing quote character --- *)
Definition strip_lead_quote (s : str) : str :=
  match s with
  | c :: r => if is_quote c then r else s
  | [] => []
  end.
(* dollar matches at the very end and just before a final line feed *)
Definition strip_trail_quote (s : str) : str :=
  match rev s with
  | c :: t =>
      if is_quote c then rev t
      else if c =? c_lf then
             match t with
             | q :: t' => if is_quote q then rev (c :: t') else s
             | [] => s
             end
           else s
  | [] => []
  end.
Definition remove_quotes (s : str) : str := strip_trail_quote (strip_lead_quote s).

(* ---- the three number regexes --------------------------------------------------------------- *)
Definition opt_sign (s : str) : str :=
  match s with c :: r => if is_sign c then r else s | [] => [] end.
(* end anchor *)
Definition at_end (s : str) : bool :=
  match s with [] => true | [c] => c =? c_lf | _ => false end.

(* regex 1: optional sign, one or more digits, end *)
Definition re_int (s : str) : bool :=
  let (d, rest) := span is_digit (opt_sign s) in nonempty d && at_end rest.

(* mantissa: digits [dot digits-opt] or dot digits; returns the rest after the (unique) match *)
Definition re_mantissa (r : str) : option str :=
  let (d, r1) := span is_digit r in
  match d with
  | _ :: _ =>
      match r1 with
      | c :: r2 => if c =? c_dot then Some (snd (span is_digit r2)) else Some r1
      | [] => Some []
      end
  | [] =>
      match r1 with
      | c :: r2 => if c =? c_dot
                   then let (d2, r3) := span is_digit r2 in if nonempty d2 then Some r3 else None
                   else None
      | [] => None
      end
  end.

(* regex 2: optional sign, mantissa, end *)
Definition re_float2 (s : str) : bool :=
  match re_mantissa (opt_sign s) with Some rest => at_end rest | None => false end.

(* optional exponent (e or E, optional sign, digits) followed by end *)
Definition re_exp_end (r : str) : bool :=
  at_end r ||
  match r with
  | c :: r1 => if (c =? c_e) || (c =? c_E)
               then let (d, r2) := span is_digit (opt_sign r1) in nonempty d && at_end r2
               else false
  | [] => false
  end.

(* regex 3 (repaired): optional sign, mantissa, optional exponent, end *)
Definition re_float3 (s : str) : bool :=
  match re_mantissa (opt_sign s) with Some rest => re_exp_end rest | None => false end.

(* ---- CPython literal grammars (independent of the regexes above) ---------------------------- *)
(* digitpart ::= digit followed by any number of (optional underscore, digit); returns the rest *)
Fixpoint py_digitpart_tail (s : str) : str :=
  match s with
  | c :: r =>
      if is_digit c then py_digitpart_tail r
      else if c =? c_us then
             match r with
             | d :: _ => if is_digit d then py_digitpart_tail r else s
             | [] => s
             end
           else s
  | [] => []
  end.
Definition py_digitpart (s : str) : option str :=
  match s with
  | c :: r => if is_digit c then Some (py_digitpart_tail r) else None
  | [] => None
  end.
Definition py_exponent_end (r : str) : bool :=
  match r with
  | [] => true
  | c :: r1 => if (c =? c_e) || (c =? c_E)
               then match py_digitpart (opt_sign r1) with Some [] => true | _ => false end
               else false
  end.
Definition ci_eq (w s : str) : bool := str_eqb w (lower s).
Definition py_float_body (s : str) : bool :=
  let s := opt_sign s in
  ci_eq (of_string "inf") s || ci_eq (of_string "infinity") s || ci_eq (of_string "nan") s ||
  match py_digitpart s with
  | Some r1 =>
      match r1 with
      | c :: r2 => if c =? c_dot
                   then match py_digitpart r2 with
                        | Some r3 => py_exponent_end r3
                        | None => py_exponent_end r2
                        end
                   else py_exponent_end r1
      | [] => true
      end
  | None =>
      match s with
      | c :: r2 => if c =? c_dot
                   then match py_digitpart r2 with Some r3 => py_exponent_end r3 | None => false end
                   else false
      | [] => false
      end
  end.
Definition py_float_ok (s : str) : bool := py_float_body (strip s).
Definition py_int_ok (s : str) : bool :=
  match py_digitpart (opt_sign (strip s)) with Some [] => true | _ => false end.

(* value of a string admitted by re_int *)
Definition int_value (s : str) : Z :=
  let neg := match s with c :: _ => c =? c_minus | [] => false end in
  let (d, _) := span is_digit (opt_sign s) in
  let n := Z.of_N (dec_to_N d) in
  if neg then Z.opp n else n.

(* ---- parse_value ---------------------------------------------------------------------------- *)
Definition w_true := of_string "true".   Definition w_false := of_string "false".
Definition w_on := of_string "on".       Definition w_off := of_string "off".
Definition w_none := of_string "none".   Definition w_null := of_string "null".

Definition parse_value (arg : str) : res scalar :=
  if negb (nonempty (remove_quotes arg)) then Ok (SStr [])
  else if str_eqb arg [c_minus] || str_eqb arg [c_us] || str_eqb arg [c_dot] then Ok (SStr arg)
  else if re_int arg then (if py_int_ok arg then Ok (SInt (int_value arg)) else Raise E_Value)
  else if re_float2 arg then (if py_float_ok arg then Ok (SFloat arg) else Raise E_Value)
  else if re_float3 arg then (if py_float_ok arg then Ok (SFloat arg) else Raise E_Value)
  else
    let w := lower (strip arg) in
    if str_eqb w w_true then Ok (SBool true)
    else if str_eqb w w_false then Ok (SBool false)
    else if str_eqb w w_on then Ok (SBool true)
    else if str_eqb w w_off then Ok (SBool false)
    else if str_eqb w w_none then Ok SNone
    else if str_eqb w w_null then Ok SNone
    else Ok (SStr (remove_quotes arg)).

(* parse_value on an already typed Python object: non-strings are returned unchanged *)
Definition parse_scalar (v : scalar) : res scalar :=
  match v with SStr s => parse_value s | _ => Ok v end.

(* parse_key: TKey = Hashable, so every parse_value result is accepted as a key *)
Definition scalar_to_key (v : scalar) : option key :=
  match v with
  | SInt z => Some (KI z)
  | SStr s => Some (KS s)
  | _ => None        (* float / bool / None keys: outside the modelled key domain *)
  end.

(* ---- format_value (NativeFormatter) --------------------------------------------------------- *)
Definition is_struct_char (c : cp) : bool :=
  is_space c || (c =? c_colon) || (c =? c_slash) || (c =? c_bsl) || (c =? c_semi) || (c =? c_comma)
  || (c =? c_lbrace) || (c =? c_rbrace) || (c =? c_lpar) || (c =? c_rpar)
  || (c =? c_lbrk) || (c =? c_rbrk) || (c =? c_lt) || (c =? c_gt).

(* reference regex: dollar, word char, then word chars or square brackets, end *)
Definition is_ref_char (c : cp) : bool := is_word c || (c =? c_lbrk) || (c =? c_rbrk).
Definition re_reference (s : str) : bool :=
  match s with
  | d :: w :: r => (d =? c_dollar) && is_word w && at_end (snd (span is_ref_char r))
  | _ => false
  end.

Definition sq (s : str) : str := c_sq :: s ++ [c_sq].
Definition dq (s : str) : str := c_dq :: s ++ [c_dq].

Inductive str_class := CRef | CExpr | CEmpty | CNestedDq | CNestedSq | CMulti | CSingle.
Definition classify_string (s : str) : str_class :=
  if has_char c_dollar s then (if re_reference s then CRef else CExpr)
  else if negb (nonempty s) then CEmpty
  else if has_char c_dq s then CNestedDq
  else if has_char c_sq s then CNestedSq
  else if existsb is_struct_char s then CMulti
  else CSingle.

Definition format_string (s : str) : str :=
  match classify_string s with
  | CRef => s
  | CExpr => dq s
  | CEmpty => sq s
  | CNestedDq => sq s
  | CNestedSq => dq s
  | CMulti => sq s
  | CSingle => s
  end.

(* FoamFormatter hooks *)
Definition escape_dq (s : str) : str :=
  flat_map (fun c => if c =? c_dq then [c_bsl; c_dq] else [c]) s.
Definition foam_format_string (s : str) : str :=
  match classify_string s with
  | CRef => s
  | CExpr => dq s
  | CEmpty => dq s
  | CNestedDq => dq (escape_dq s)
  | CNestedSq => dq s
  | CMulti => dq s
  | CSingle => s
  end.

Definition format_scalar (v : scalar) : str :=
  match v with
  | SStr s => format_string s
  | SBool true => w_true
  | SBool false => w_false
  | SInt z => Z_to_dec z
  | SFloat lit => lit
  | SNone => of_string "NULL"
  end.
Definition foam_format_scalar (v : scalar) : str :=
  match v with SStr s => foam_format_string s | _ => format_scalar v end.

Definition format_key (k : key) : str :=
  match k with KI z => Z_to_dec z | KS s => format_string s end.
