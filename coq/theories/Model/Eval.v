(* DictReader._eval_expressions: the iterative substitute-and-evaluate loop.
   Python's eval is modelled for the integer arithmetic fragment (decimal integers, + - *, unary sign, parentheses,
   blanks); for every other expression text the model answers "outside" and makes no claim. *)
From Coq Require Import String.
From Coq Require Import NArith ZArith List Bool.
From DictIO Require Import Chars Str Value Scalar KeyPath SDict Layout Lexer TokParser Reader Expr.
Import ListNotations.
Open Scope N_scope.

(* ---- eval(text), integer fragment ------------------------------------------------------------------ *)
Inductive etok := TInt (z : Z) | TPlus | TMinus | TStar | TLp | TRp.

(* None = a character (or a power operator, or an integer with a leading zero) outside the fragment *)
Fixpoint elex (fuel : nat) (s : str) : option (list etok) :=
  match fuel with
  | O => None
  | S f =>
      match s with
      | [] => Some []
      | c :: s' =>
          if (c =? c_sp) || (c =? c_tab) then elex f s'
          else if is_digit c then
            let (ds, rest) := span is_digit s in
            match ds with
            | d :: _ :: _ => if d =? 48 then None
                             else match elex f rest with Some l => Some (TInt (Z.of_N (dec_to_N ds)) :: l) | None => None end
            | _ => match elex f rest with Some l => Some (TInt (Z.of_N (dec_to_N ds)) :: l) | None => None end
            end
          else if c =? c_plus then option_map (cons TPlus) (elex f s')
          else if c =? c_minus then option_map (cons TMinus) (elex f s')
          else if c =? c_star then
            match s' with
            | d :: _ => if d =? c_star then None else option_map (cons TStar) (elex f s')
            | [] => option_map (cons TStar) (elex f s')
            end
          else if c =? c_lpar then option_map (cons TLp) (elex f s')
          else if c =? c_rpar then option_map (cons TRp) (elex f s')
          else None
      end
  end.

Inductive pres := POk (z : Z) (rest : list etok) | PSyntax | POutside.
Definition next_is_call (ts : list etok) : bool := match ts with TLp :: _ => true | _ => false end.

(* lvl 0: sums, lvl 1: products, lvl 2: factors.  A value directly followed by an opening parenthesis would be a
   call (TypeError at run time, or a syntax error further right): outside.  The empty tuple () is outside. *)
Fixpoint pe (fuel : nat) (lvl : nat) (ts : list etok) {struct fuel} : pres :=
  match fuel with
  | O => POutside
  | S f =>
      match lvl with
      | 2%nat =>
          match ts with
          | TInt z :: r => if next_is_call r then POutside else POk z r
          | TMinus :: r => match pe f 2 r with POk z r' => POk (- z)%Z r' | e => e end
          | TPlus :: r => pe f 2 r
          | TLp :: TRp :: _ => POutside
          | TLp :: r =>
              match pe f 0 r with
              | POk z (TRp :: r') => if next_is_call r' then POutside else POk z r'
              | POk _ _ => PSyntax
              | e => e
              end
          | _ => PSyntax
          end
      | 1%nat =>
          match pe f 2 ts with
          | POk z r =>
              (fix products (g : nat) (acc : Z) (r : list etok) {struct g} : pres :=
                 match g with
                 | O => POutside
                 | S g' =>
                     match r with
                     | TStar :: r1 => match pe f 2 r1 with POk z2 r2 => products g' (acc * z2)%Z r2 | e => e end
                     | _ => POk acc r
                     end
                 end) (S (length r)) z r
          | e => e
          end
      | _ =>
          match pe f 1 ts with
          | POk z r =>
              (fix sums (g : nat) (acc : Z) (r : list etok) {struct g} : pres :=
                 match g with
                 | O => POutside
                 | S g' =>
                     match r with
                     | TPlus :: r1 => match pe f 1 r1 with POk z2 r2 => sums g' (acc + z2)%Z r2 | e => e end
                     | TMinus :: r1 => match pe f 1 r1 with POk z2 r2 => sums g' (acc - z2)%Z r2 | e => e end
                     | _ => POk acc r
                     end
                 end) (S (length r)) z r
          | e => e
          end
      end
  end.

Inductive evres := EvInt (z : Z) | EvSyntax | EvOutside.
Definition pyeval (s : str) : evres :=
  match elex (S (length s)) s with
  | None => EvOutside
  | Some ts =>
      match pe (3 * length ts + 3) 0 ts with
      | POk z [] => EvInt z
      | POk _ (_ :: _) => EvSyntax
      | PSyntax => EvSyntax
      | POutside => EvOutside
      end
  end.

(* ---- references of all expressions, resolved against the current variables --------------------------- *)
Definition expr_refs_of (e : str) : list str := find_refs (S (length e)) e.
Definition all_refs (ex : list (N * expr_entry)) : list str := flat_map (fun e => expr_refs_of (fst (snd e))) ex.
Fixpoint dedup (seen : list str) (l : list str) : list str :=
  match l with
  | [] => []
  | r :: l' => if existsb (str_eqb r) seen then dedup seen l' else r :: dedup (r :: seen) l'
  end.
Fixpoint rlookup (r : str) (tab : list (str * tree)) : option tree :=
  match tab with
  | [] => None
  | (q, t) :: tab' => if str_eqb r q then Some t else rlookup r tab'
  end.
(* (references_resolved, len(references_not_resolved)); None: a reference whose resolution is outside the model *)
Definition resolve_all (s : sdict) : option (list (str * tree) * nat) :=
  let vars := variables_of s in
  let refs := dedup [] (all_refs (sd_expr s)) in
  let rs := map (fun r => (r, resolve_reference vars r)) refs in
  if existsb (fun p => match snd p with ROutside | RFuel => true | _ => false end) rs then None
  else
    let us := map (fun p => (fst p, usable (snd p))) rs in
    Some (flat_map (fun p => match snd p with Some t => [(fst p, t)] | None => [] end) us,
          length (filter (fun p => match snd p with None => true | Some _ => false end) us)).

(* ---- while key := find_global_key(placeholder): set_global_key(key, value) -------------------------------- *)
(* repaired: when the inserted value itself spells the placeholder the loop stops after that insertion (searching
   again would find the value just inserted, for ever) *)
Fixpoint insert_result (fuel : nat) (ph : str) (v : tree) (d : tree) : res tree :=
  match fuel with
  | O => Raise E_Fuel
  | S f =>
      match find_global_key ph d with
      | Some p => bind (set_global_key d p v) (fun d' =>
                  if contains ph (py_str_tree v) then Ok d' else insert_result f ph v d')
      | None => Ok d
      end
  end.

(* ---- one pass over (a copy of) the expressions table --------------------------------------------------- *)
Definition substitute (resolved : list (str * tree)) (e : str) : str :=
  fold_left (fun acc r =>
               match rlookup r resolved with
               | Some t => subst_token (S (length acc)) r (py_str_tree t) acc
               | None => acc
               end) (expr_refs_of e) e.
(* None = outside the modelled fragment of eval *)
Definition eval_pass (resolved : list (str * tree)) (s : sdict) : option (res sdict) :=
  fold_left
    (fun (acc : option (res sdict)) (e : N * expr_entry) =>
       match acc with
       | Some (Ok st) =>
           let '(key, (expression0, ph)) := e in
           let expression := substitute resolved expression0 in
           let plain := strip expression0 in
           let outcome : option (option tree) :=          (* outer None: outside; inner None: not yet possible *)
             match (if is_plain_reference plain then rlookup plain resolved else None) with
             | Some t => Some (Some t)
             | None =>
                 if has_char c_dollar expression then Some None
                 else match pyeval expression with
                      | EvInt z => Some (Some (Leaf (SInt z)))
                      | EvSyntax => Some None
                      | EvOutside => None
                      end
             end in
           match outcome with
           | None => None
           | Some (Some v) =>
               match insert_result (S (count_leaves (Dict (sd_data st)))) ph v (Dict (sd_data st)) with
               | Ok (Dict d') => Some (Ok (mkSD d' (sd_lc st) (sd_bc st) (sd_inc st) (tdel key (sd_expr st))))
               | Ok _ => Some (Ok st)
               | Raise er => Some (Raise er)
               end
           | Some None =>
               Some (Ok (mkSD (sd_data st) (sd_lc st) (sd_bc st) (sd_inc st) (tset key (expression, ph) (sd_expr st))))
           end
       | other => other
       end)
    (sd_expr s) (Some (Ok s)).

(* while keep_on: pass; re-resolve; keep_on = fewer unresolved references than before *)
Fixpoint eval_loop (fuel : nat) (s : sdict) (resolved : list (str * tree)) (unresolved : nat) : option (res sdict) :=
  match fuel with
  | O => Some (Raise E_Fuel)
  | S f =>
      match eval_pass resolved s with
      | Some (Ok s') =>
          match resolve_all s' with
          | None => None
          | Some (resolved', unresolved') =>
              if Nat.ltb unresolved' unresolved then eval_loop f s' resolved' unresolved' else Some (Ok s')
          end
      | other => other
      end
  end.

(* expressions that could not be evaluated are written back as their (partly substituted) text *)
Definition back_insert (s : sdict) : res sdict :=
  bind (fold_left (fun (acc : res (list (key * tree))) (e : N * expr_entry) =>
                     bind acc (fun d =>
                     let '(_, (expression, ph)) := e in
                     bind (insert_result (S (count_leaves (Dict d))) ph (Leaf (SStr expression)) (Dict d))
                          (fun t => match t with Dict d' => Ok d' | _ => Ok d end)))
                  (sd_expr s) (Ok (sd_data s)))
       (fun d => Ok (mkSD d (sd_lc s) (sd_bc s) (sd_inc s) [])).

Definition eval_expressions (s : sdict) : option (res sdict) :=
  match resolve_all s with
  | None => None
  | Some (resolved, unresolved) =>
      match eval_loop (S (S unresolved)) s resolved unresolved with
      | Some (Ok s') => Some (back_insert s')
      | other => other
      end
  end.

(* ---- DictReader.read(file) with includes and expressions ------------------------------------------------ *)
Definition read_full (fs : fsys) (root : str) (comments : bool) (count : Z) : option (res (sdict * Z)) :=
  match fs_lookup (norm_path root) fs with
  | None => Some (Raise E_Key)
  | Some u =>
      match parse_unit comments root count u with
      | Raise e => Some (Raise e)
      | Ok pr =>
          match merge_includes fs comments (pr_sd pr) (pr_count pr) with
          | Raise e => Some (Raise e)
          | Ok (s, c) =>
              match eval_expressions s with
              | None => None
              | Some (Raise e) => Some (Raise e)
              | Some (Ok s') => Some (Ok (s', c))
              end
          end
      end
  end.
