(* NativeParser: token hierarchy, _parse_tokenized_dict / _parse_tokenized_list (with their index
   arithmetic, Python negative indexing and IndexError cases), _insert_string_literals, _clean. *)
From Coq Require Import String.
From Coq Require Import NArith ZArith List Bool.
From DictIO Require Import Chars Str Value Scalar KeyPath SDict Lexer.
Import ListNotations.

Definition tok := (nat * str)%type.      (* (level, text) *)

Definition t_lbrace := [c_lbrace]. Definition t_rbrace := [c_rbrace].
Definition t_lpar := [c_lpar].     Definition t_rpar := [c_rpar].
Definition t_lbrk := [c_lbrk].     Definition t_rbrk := [c_rbrk].
Definition t_semi := [c_semi].
Definition is_open (s : str) : bool := str_eqb s t_lbrace || str_eqb s t_lbrk || str_eqb s t_lpar.
Definition is_close (s : str) : bool := str_eqb s t_rbrace || str_eqb s t_rbrk || str_eqb s t_rpar.
Definition companion (s : str) : str :=
  if str_eqb s t_lbrace then t_rbrace else if str_eqb s t_rbrace then t_lbrace
  else if str_eqb s t_lbrk then t_rbrk else if str_eqb s t_rbrk then t_lbrk
  else if str_eqb s t_lpar then t_rpar else if str_eqb s t_rpar then t_lpar
  else if str_eqb s [c_lt] then [c_gt] else if str_eqb s [c_gt] then [c_lt] else [].

(* _determine_token_hierarchy; the level may go negative on unbalanced input: Z level clamped at use *)
Fixpoint levels_go (lvl : Z) (ts : list str) : list (Z * str) :=
  match ts with
  | [] => []
  | t :: ts' =>
      if is_open t then (lvl, t) :: levels_go (lvl + 1)%Z ts'
      else if is_close t then ((lvl - 1)%Z, t) :: levels_go (lvl - 1)%Z ts'
      else (lvl, t) :: levels_go lvl ts'
  end.
Definition ztok := (Z * str)%type.
Definition levels (ts : list str) : list ztok := levels_go 0%Z ts.

(* Python list indexing with negative wrap-around *)
Definition py_nth {A} (l : list A) (i : Z) : option A :=
  let n := Z.of_nat (length l) in
  if (0 <=? i)%Z then (if (i <? n)%Z then nth_error l (Z.to_nat i) else None)
  else (if (0 <=? i + n)%Z then nth_error l (Z.to_nat (i + n)) else None).

Definition w_COMMENT := of_string "COMMENT".
Definition is_comment_tok (s : str) : bool := contains w_COMMENT s.
Definition is_include_tok (s : str) : bool := contains w_INCLUDE s.

(* parse_key result -> model key; float / bool / None keys are outside the model *)
Definition E_Outside := 8%N.
Definition parse_key (s : str) : res key :=
  bind (parse_value s) (fun v => match scalar_to_key v with Some k => Ok k | None => Raise E_Outside end).

(* skip comment tokens backwards from index ti - offset *)
Fixpoint key_index (fuel : nat) (ts : list ztok) (ti : Z) (offset : Z) : res Z :=
  match fuel with
  | O => Raise E_Fuel
  | S f =>
      match py_nth ts (ti - offset)%Z with
      | None => Raise E_Index
      | Some (_, txt) => if is_comment_tok txt then key_index f ts ti (offset + 1)%Z else Ok (ti - offset)%Z
      end
  end.

(* collect the tokens of a nested struct starting at the opening bracket at index ti:
   returns (struct tokens incl. both brackets, i = offset of the closing bracket) *)
Fixpoint collect_struct (fuel : nat) (ts : list ztok) (ti : Z) (i : Z) (closing : str) (clevel : Z) (acc : list ztok)
  : res (list ztok * Z) :=
  match fuel with
  | O => Raise E_Fuel
  | S f =>
      match py_nth ts (ti + i)%Z with
      | None => Raise E_Index
      | Some (lv, txt) =>
          if negb (str_eqb txt closing) || (negb (Z.eqb lv clevel) && negb (is_comment_tok txt))
          then collect_struct f ts ti (i + 1)%Z closing clevel ((lv, txt) :: acc)
          else Ok (rev ((lv, txt) :: acc), i)
      end
  end.

(* the syntax checks only log, but their indexing can raise IndexError *)
Fixpoint check_dict_end (fuel : nat) (ds : list ztok) (idx : Z) : res unit :=
  match fuel with
  | O => Raise E_Fuel
  | S f => match py_nth ds idx with
           | None => Raise E_Index
           | Some (_, txt) => if is_comment_tok txt then check_dict_end f ds (idx - 1)%Z else Ok tt
           end
  end.
Definition last_text (ds : list ztok) : str := match rev ds with (_, t) :: _ => t | [] => [] end.
Definition first_text (ds : list ztok) : str := match ds with (_, t) :: _ => t | [] => [] end.
Definition inner {A} (l : list A) : list A := removelast (tl l).      (* l[1:-1] *)

(* key-value pair: tokens collected backwards from the semicolon at index ti *)
Fixpoint kv_back (fuel : nat) (ts : list ztok) (ti : Z) (i : Z) (lvl : Z) (acc : list ztok) : list ztok :=
  match fuel with
  | O => acc
  | S f =>
      if (ti - i <? 0)%Z then acc else
      match py_nth ts (ti - i)%Z with
      | None => acc
      | Some (lv, txt) =>
          if Z.eqb lv lvl && negb (str_eqb txt t_semi) && negb (str_eqb txt t_rbrace)
             && negb (is_comment_tok txt) && negb (is_include_tok txt)
          then kv_back f ts ti (i + 1)%Z lvl ((lv, txt) :: acc)
          else acc
      end
  end.

Definition scalar_leaf (r : res scalar) : res tree := bind r (fun v => Ok (Leaf v)).

(* the two mutually recursive parsers share one fuel (decreases at every loop step and recursive call) *)
Fixpoint parse_dict_go (fuel : nat) (ts : list ztok) (ti : Z) (acc : list (key * tree)) {struct fuel}
  : res (list (key * tree)) :=
  match fuel with
  | O => Raise E_Fuel
  | S f =>
      match py_nth ts ti with
      | None => Ok acc
      | Some (lv, txt) =>
          if (ti <? 0)%Z then Ok acc else
          if is_open txt then
            bind (key_index f ts ti 1%Z) (fun kidx =>
            match py_nth ts kidx with
            | None => Raise E_Index
            | Some (_, ktxt) =>
                bind (parse_key ktxt) (fun k =>
                bind (collect_struct f ts ti 0%Z (companion txt) lv []) (fun cs =>
                let (ds, i) := cs in
                bind (if str_eqb (last_text ds) t_rpar
                      then match py_nth ts (ti + i + 1)%Z with Some _ => Ok tt | None => Raise E_Index end
                      else Ok tt) (fun _ =>
                bind (if str_eqb (last_text ds) t_rbrace then check_dict_end f ds (-2)%Z else Ok tt) (fun _ =>
                bind (if str_eqb (first_text ds) t_lpar then
                        (if Nat.ltb (length ds) 3 then Ok (aset k (Lst []) acc)
                         else bind (parse_list_go f ds 0%Z (fst (hd (0%Z, []) ds)) []) (fun l => Ok (aset k (Lst l) acc)))
                      else if str_eqb (first_text ds) t_lbrace then
                        bind (parse_dict_go f (inner ds) 0%Z []) (fun d => Ok (aset k (Dict d) acc))
                      else Ok acc) (fun acc' =>
                (* token_index = last_index + 1 (if any token was collected), then += 1 *)
                parse_dict_go f ts (if (0 <? i)%Z then ti + i + 1 else ti + 1)%Z acc')))))
            end)
          else if str_eqb txt t_semi &&
                  negb (match py_nth ts (ti - 1)%Z with Some (_, p) => str_eqb p t_rpar | None => false end) then
            match py_nth ts (ti - 1)%Z with
            | None => Raise E_Index
            | Some _ =>
                let kv := kv_back f ts ti 1%Z lv [(lv, txt)] in
                match kv with
                | [(_, ktxt); (_, vtxt); _] =>
                    bind (parse_key ktxt) (fun k =>
                    bind (parse_value vtxt) (fun v => parse_dict_go f ts (ti + 1)%Z (aset k (Leaf v) acc)))
                | _ => parse_dict_go f ts (ti + 1)%Z acc
                end
            end
          else if is_comment_tok txt || is_include_tok txt then
            parse_dict_go f ts (ti + 1)%Z (aset (KS txt) (Leaf (SStr txt)) acc)
          else parse_dict_go f ts (ti + 1)%Z acc
      end
  end
with parse_list_go (fuel : nat) (ts : list ztok) (ti : Z) (base : Z) (acc : list tree) {struct fuel}
  : res (list tree) :=
  match fuel with
  | O => Raise E_Fuel
  | S f =>
      match py_nth ts ti with
      | None => Ok (rev acc)
      | Some (lv, txt) =>
          if (ti <? 0)%Z then Ok (rev acc) else
          if is_open txt && (base <? lv)%Z then
            bind (collect_struct f ts ti 0%Z (companion txt) lv []) (fun cs =>
            let (ds, i) := cs in
            bind (if str_eqb (last_text ds) t_rbrace then check_dict_end f ds (-2)%Z else Ok tt) (fun _ =>
            bind (if str_eqb (first_text ds) t_lpar then
                    (if Nat.ltb (length ds) 3 then Ok (Lst [] :: acc)
                     else bind (parse_list_go f ds 0%Z (fst (hd (0%Z, []) ds)) []) (fun l => Ok (Lst l :: acc)))
                  else if str_eqb (first_text ds) t_lbrace then
                    bind (parse_dict_go f (inner ds) 0%Z []) (fun d => Ok (Dict d :: acc))
                  else Ok acc) (fun acc' =>
            parse_list_go f ts (if (0 <? i)%Z then ti + i + 1 else ti + 1)%Z base acc')))
          else if negb (str_eqb txt t_lpar) && negb (str_eqb txt t_rpar) && negb (str_eqb txt t_semi) then
            bind (parse_value txt) (fun v => parse_list_go f ts (ti + 1)%Z base (Leaf v :: acc))
          else parse_list_go f ts (ti + 1)%Z base acc
      end
  end.

Definition parse_tokens (ts : list str) : res (list (key * tree)) :=
  let zs := levels ts in
  parse_dict_go (4 * length zs + 8) zs 0%Z [].

(* ---- _insert_string_literals -------------------------------------------------------------------- *)
Fixpoint insert_literal (fuel : nat) (ph : str) (v : tree) (d : tree) : res tree :=
  match fuel with
  | O => Raise E_Fuel
  | S f =>
      match find_global_key ph d with
      | Some p => bind (set_global_key d p v) (fun d' => insert_literal f ph v d')
      | None => Ok d
      end
  end.
Fixpoint count_leaves (t : tree) : nat :=
  match t with
  | Leaf _ => 1
  | Dict kvs => fold_right (fun kv n => (count_leaves (snd kv) + n)%nat) 0%nat kvs
  | Lst ts => fold_right (fun c n => (count_leaves c + n)%nat) 0%nat ts
  end.
Definition insert_string_literals (lits : list (N * str)) (d : list (key * tree)) : res (list (key * tree)) :=
  fold_left (fun (acc : res (list (key * tree))) (e : N * str) =>
               bind acc (fun d =>
               bind (parse_value (snd e)) (fun v =>
               bind (insert_literal (S (count_leaves (Dict d))) (placeholder w_STRINGLITERAL (fst e)) (Leaf v) (Dict d))
                    (fun t => match t with Dict d' => Ok d' | _ => Ok d end)))) lits (Ok d).

(* _clean of the parser: drop the documentation keys *)
Definition parser_clean (d : list (key * tree)) : list (key * tree) :=
  adel (KS (of_string "_includes")) (adel (KS (of_string "_variables")) d).

(* ---- NativeParser.parse_string into a fresh SDict ---------------------------------------------- *)
Record parsed := mkParsed { pr_sd : sdict; pr_count : Z }.
Definition parse_string (comments : bool) (dir : str) (count : Z) (text : str) : res parsed :=
  let lx := lex comments dir count text in
  bind (parse_tokens (lxd_tokens lx)) (fun d0 =>
  (* s_dict.update(parsed) runs _clean with the tables already filled *)
  let s0 := sd_clean (mkSD d0 (lxd_lc lx) (lxd_bc lx) (lxd_inc lx) (lxd_expr lx)) in
  bind (insert_string_literals (lxd_lit lx) (sd_data s0)) (fun d1 =>
  let s1 := mkSD (parser_clean d1) (sd_lc s0) (sd_bc s0) (sd_inc s0) (sd_expr s0) in
  (* target_dict.merge(parsed_dict) with target == parsed (string route) only re-runs _clean *)
  Ok (mkParsed (sd_clean s1) (lxd_count lx)))).
