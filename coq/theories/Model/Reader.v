(* DictReader: file units, JSON front end (includes + expressions extraction), recursive include merging. *)
From Coq Require Import String.
From Coq Require Import NArith ZArith List Bool.
From DictIO Require Import Chars Str Value Scalar KeyPath SDict Layout Lexer TokParser.
Import ListNotations.
Open Scope N_scope.

(* ---- paths as strings ---------------------------------------------------------------------------- *)
Fixpoint split_on (sep : cp) (cur : str) (s : str) : list str :=
  match s with
  | [] => [rev cur]
  | c :: s' => if c =? sep then rev cur :: split_on sep [] s' else split_on sep (c :: cur) s'
  end.
(* os.path.normpath for absolute POSIX paths: drops empty and dot components, resolves dot-dot *)
Definition norm_components (comps : list str) : list str :=
  rev (fold_left (fun acc c =>
                    if str_eqb c [] || str_eqb c [c_dot] then acc
                    else if str_eqb c [c_dot; c_dot] then tl acc
                    else c :: acc) comps []).
Definition norm_path (p : str) : str :=
  flat_map (fun c => c_slash :: c) (norm_components (split_on c_slash [] p)).
(* Path.parent, purely textual (no normalisation of dot-dot) *)
Definition dir_of (p : str) : str :=
  let comps := filter nonempty (split_on c_slash [] p) in
  flat_map (fun c => c_slash :: c) (removelast comps).
Definition base_name (p : str) : str := last (split_on c_slash [] p) [].
(* file suffix decides the parser *)
Definition ends_with (suf s : str) : bool :=
  Nat.leb (length suf) (length s) && str_eqb (drop_n (length s - length suf) s) suf.

(* ---- file units ------------------------------------------------------------------------------------ *)
Inductive funit :=
  | FNative (text : str)
  | FJson (t : list (key * tree)).       (* what json.loads returns (trusted) *)
Definition fsys := list (str * funit).   (* normalised absolute path -> content *)
Fixpoint fs_lookup (p : str) (fs : fsys) : option funit :=
  match fs with
  | [] => None
  | (q, u) :: fs' => if str_eqb p q then Some u else fs_lookup p fs'
  end.

(* ---- JsonParser ------------------------------------------------------------------------------------ *)
Definition is_include_key_json (k : key) : bool :=
  match k with KS s => match include_line_rest s with Some _ => true | None => false end | KI _ => false end.
Definition double_bsl (s : str) : str := flat_map (fun c => if c =? c_bsl then [c_bsl; c_bsl] else [c]) s.
(* _extract_includes: placeholders first (in key order), then the remaining entries *)
Fixpoint json_includes (dir : str) (count : Z) (kvs : list (key * tree))
  : list (key * tree) * list (key * tree) * Z * list (N * include_entry) :=
  match kvs with
  | [] => ([], [], count, [])
  | (k, v) :: kvs' =>
      if is_include_key_json k then
        let name := remove_quotes (match v with Leaf sv => py_str sv | _ => [] end) in
        let i := counter_next count in
        let ph := placeholder w_INCLUDE (Z.to_N i) in
        let directive := of_string "#include '" ++ double_bsl name ++ [c_sq] in
        let '(phs, rest, c2, tab) := json_includes dir i kvs' in
        ((KS ph, Leaf (SStr ph)) :: phs, rest, c2, tupdate [(Z.to_N i, (directive, name, path_join dir name))] tab)
      else
        let '(phs, rest, c2, tab) := json_includes dir count kvs' in
        (phs, (k, v) :: rest, c2, tab)
  end.

(* all references of a string: dollar, word char, then word chars / square brackets *)
Fixpoint find_refs (fuel : nat) (s : str) : list str :=
  match fuel with
  | O => []
  | S f => match find_reference [] s with
           | Some (_, r, after) => r :: find_refs f after
           | None => []
           end
  end.
(* the string is white space, one reference, white space *)
Definition single_reference (s : str) : option str :=
  match find_reference [] s with
  | Some (before, r, after) => if forallb is_space before && forallb is_space after then Some r else None
  | None => None
  end.
(* _extract_expression on one string value; returns the new value *)
Definition json_extract_expression (count : Z) (s : str) : str * Z * list (N * expr_entry) :=
  match find_refs (S (length s)) s with
  | [] => (s, count, [])
  | _ =>
      let k := counter_next count in
      let ph := placeholder w_EXPRESSION (Z.to_N k) in
      match single_reference s with
      | Some r => (replace_all r ph s, k, [(Z.to_N k, (r, ph))])
      | None => let e := strip s in (replace_all e ph s, k, [(Z.to_N k, (e, ph))])
      end
  end.
Fixpoint json_expressions (t : tree) (count : Z) (tab : list (N * expr_entry)) : tree * Z * list (N * expr_entry) :=
  match t with
  | Leaf (SStr s) =>
      match parse_value s with
      | Ok (SStr _) => let '(s', c, e) := json_extract_expression count s in (Leaf (SStr s'), c, tupdate tab e)
      | _ => (t, count, tab)
      end
  | Leaf _ => (t, count, tab)
  | Dict kvs =>
      let '(kvs', c, tb) :=
        (fix go (l : list (key * tree)) (c : Z) (tb : list (N * expr_entry)) :=
           match l with
           | [] => ([], c, tb)
           | (k, v) :: l' => let '(v', c1, tb1) := json_expressions v c tb in
                             let '(r, c2, tb2) := go l' c1 tb1 in ((k, v') :: r, c2, tb2)
           end) kvs count tab in
      (Dict kvs', c, tb)
  | Lst ts =>
      let '(ts', c, tb) :=
        (fix go (l : list tree) (c : Z) (tb : list (N * expr_entry)) :=
           match l with
           | [] => ([], c, tb)
           | v :: l' => let '(v', c1, tb1) := json_expressions v c tb in
                        let '(r, c2, tb2) := go l' c1 tb1 in (v' :: r, c2, tb2)
           end) ts count tab in
      (Lst ts', c, tb)
  end.
Definition kvs_of_tree (t : tree) : list (key * tree) := match t with Dict k => k | _ => [] end.
Definition json_parse (dir : str) (count : Z) (kvs : list (key * tree)) : parsed :=
  let s0 := sd_update sd_empty kvs None in                     (* parsed_dict.update(json.loads(string)) *)
  let '(phs, rest, c1, inc) := json_includes dir count (sd_data s0) in
  (* deepcopy; clear; update(placeholders); update(rest) : two updates, each followed by _clean *)
  let s1 := mkSD [] (sd_lc s0) (sd_bc s0) inc (sd_expr s0) in
  let data_temp := mkSD rest (sd_lc s0) (sd_bc s0) inc (sd_expr s0) in    (* deepcopy taken before clear() *)
  let s2 := sd_update (sd_update s1 phs None) rest (Some data_temp) in
  let '(t, c2, ex) := json_expressions (Dict (sd_data s2)) c1 [] in
  let s3 := mkSD (kvs_of_tree t) (sd_lc s2) (sd_bc s2) (sd_inc s2) ex in
  mkParsed (sd_clean s3) c2.

(* ---- parse_file ------------------------------------------------------------------------------------ *)
Definition parse_unit (comments : bool) (path : str) (count : Z) (u : funit) : res parsed :=
  match u with
  | FNative text => parse_string comments (dir_of path) count text
  | FJson t => Ok (json_parse (dir_of path) count t)
  end.

(* ---- _merge_includes (repaired: recursion is detected per include chain, keyed by resolved path) -- *)
Definition in_chain (p : str) (chain : list str) : bool := existsb (str_eqb p) chain.

Fixpoint merge_includes_rec (fuel : nat) (fs : fsys) (comments : bool) (chain : list str)
         (parent : sdict) (count : Z) {struct fuel} : res (sdict * Z) :=
  match fuel with
  | O => Raise E_Fuel
  | S f =>
      bind
        (fold_left
           (fun (acc : res (sdict * Z)) (e : N * include_entry) =>
              bind acc (fun tc =>
              let '(temp, c) := tc in
              let '(_, (_, _, path)) := e in
              let resolved := norm_path path in
              if in_chain resolved chain then Ok (temp, c)
              else match fs_lookup resolved fs with
                   | None => Ok (temp, c)
                   | Some u =>
                       bind (parse_unit comments path c u) (fun pr =>
                       let inc := pr_sd pr in
                       bind (match sd_inc inc with
                             | [] => Ok (inc, pr_count pr)
                             | _ => merge_includes_rec f fs comments (chain ++ [resolved]) inc (pr_count pr)
                             end) (fun ic =>
                       let '(inc', c') := ic in
                       let temp1 := match sd_inc inc with
                                    | [] => temp
                                    | _ => sd_merge temp (sd_data inc') (Some inc')
                                    end in
                       Ok (sd_merge temp1 (sd_data inc') (Some inc'), c')))
                   end))
           (sd_inc parent) (Ok (sd_empty, count)))
        (fun tc => let '(temp, c) := tc in Ok (sd_merge parent (sd_data temp) (Some temp), c))
  end.

Definition merge_includes (fs : fsys) (comments : bool) (parent : sdict) (count : Z) : res (sdict * Z) :=
  bind (merge_includes_rec (S (length fs)) fs comments [] parent count) (fun pc =>
  let '(p, c) := pc in Ok (sd_merge p (sd_data p) (Some p), c)).

(* _remove_include_keys: top-level keys containing INCLUDE followed by a digit or a semicolon *)
Fixpoint has_include_mark (s : str) : bool :=
  (starts_with w_INCLUDE s &&
   match drop_n (length w_INCLUDE) s with c :: _ => is_digit c || (c =? c_semi) | [] => false end)
  || match s with [] => false | _ :: s' => has_include_mark s' end.
Definition remove_include_keys (d : list (key * tree)) : list (key * tree) :=
  filter (fun kv => match fst kv with KS s => negb (has_include_mark s) | KI _ => true end) d.

(* ---- DictReader.read without expressions (sources free of dollar signs) --------------------------- *)
Definition read_plain (fs : fsys) (root : str) (includes comments : bool) (count : Z) : res (sdict * Z) :=
  match fs_lookup (norm_path root) fs with
  | None => Raise E_Key
  | Some u =>
      bind (parse_unit comments root count u) (fun pr =>
      bind (if includes then merge_includes fs comments (pr_sd pr) (pr_count pr) else Ok (pr_sd pr, pr_count pr))
           (fun sc =>
      let '(s, c) := sc in
      let s' := mkSD (sd_data s) (sd_lc s) (sd_bc s) (sd_inc s) [] in
      Ok (if includes then s' else mkSD (remove_include_keys (sd_data s')) (sd_lc s') (sd_bc s') (sd_inc s') [], c)))
  end.

(* ---- DictWriter.write (native / Foam): parse_values on the source, append = read + merge -------------- *)
Fixpoint parse_values_tree (t : tree) : res tree :=
  match t with
  | Leaf v => bind (parse_scalar v) (fun v' => Ok (Leaf v'))
  | Dict kvs =>
      bind ((fix go (l : list (key * tree)) : res (list (key * tree)) :=
               match l with
               | [] => Ok []
               | (k, c) :: l' => bind (parse_values_tree c) (fun c' => bind (go l') (fun r => Ok ((k, c') :: r)))
               end) kvs) (fun kvs' => Ok (Dict kvs'))
  | Lst ts =>
      bind ((fix go (l : list tree) : res (list tree) :=
               match l with
               | [] => Ok []
               | c :: l' => bind (parse_values_tree c) (fun c' => bind (go l') (fun r => Ok (c' :: r)))
               end) ts) (fun ts' => Ok (Lst ts'))
  end.
Definition write_text (foam : bool) (path : str) (existing : option str) (append : bool) (d : list (key * tree))
  : res str :=
  bind (parse_values_tree (Dict d)) (fun t =>
  let d' := kvs_of_tree t in
  match existing, append with
  | Some text, true =>
      bind (read_plain [(norm_path path, FNative text)] path true true (-1)%Z) (fun sc =>
      let s := sd_merge (fst sc) d' None in
      Ok (if foam then foam_to_string_sd s else to_string_sd s))
  | _, _ => Ok (if foam then foam_to_string_plain d' else to_string_plain d')
  end).

(* ---- the file tree as far as DictWriter.write is concerned ------------------------------------------- *)
(* path -> text.  A write serialises first and touches the target only when serialisation succeeded; in append
   mode the existing text of the target is read (nothing else is). *)
Definition world := list (str * str).
Fixpoint w_get (p : str) (w : world) : option str :=
  match w with
  | [] => None
  | (q, t) :: w' => if str_eqb p q then Some t else w_get p w'
  end.
Fixpoint w_set (p : str) (t : str) (w : world) : world :=
  match w with
  | [] => [(p, t)]
  | (q, t0) :: w' => if str_eqb p q then (q, t) :: w' else (q, t0) :: w_set p t w'
  end.
Definition writer_write (foam : bool) (w : world) (target : str) (append : bool) (d : list (key * tree))
  : world * res str :=
  match write_text foam target (w_get target w) append d with
  | Ok txt => (w_set target txt w, Ok txt)
  | Raise e => (w, Raise e)
  end.
Definition writer_run (foam : bool) (w : world) (target : str) (ops : list (bool * list (key * tree))) : world :=
  fold_left (fun w0 (op : bool * list (key * tree)) => fst (writer_write foam w0 target (fst op) (snd op))) ops w.
