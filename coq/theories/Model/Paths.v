(* utils/path.py on normalised absolute paths given as component lists; SDict.include directive chain. *)
From Coq Require Import String.
From Coq Require Import NArith ZArith List Bool.
From DictIO Require Import Chars Str Value Scalar KeyPath SDict Layout Lexer Reader.
Import ListNotations.
Open Scope N_scope.

Definition comps := list str.

Fixpoint common_prefix (a b : comps) : comps :=
  match a, b with
  | x :: a', y :: b' => if str_eqb x y then x :: common_prefix a' b' else []
  | _, _ => []
  end.
Fixpoint strip_prefix (p l : comps) : option comps :=
  match p, l with
  | [], _ => Some l
  | x :: p', y :: l' => if str_eqb x y then strip_prefix p' l' else None
  | _ :: _, [] => None
  end.
Definition dotdot : str := [c_dot; c_dot].

(* relative_path(from, to): to.relative_to(from) when from is an ancestor, else os.path.relpath *)
Definition relative_path (from to : comps) : comps :=
  match strip_prefix from to with
  | Some rest => rest
  | None =>
      let c := common_prefix from to in
      repeat dotdot (length from - length c) ++ drop_n (length c) to
  end.

(* joining and normalising: dot-dot removes the last component *)
Definition norm_join (base rel : comps) : comps :=
  fold_left (fun acc c => if str_eqb c dotdot then removelast acc else acc ++ [c]) rel base.

(* highest_common_root_folder on folders (files already replaced by their parent) *)
Definition common_prefix_all (l : list comps) : comps :=
  match l with
  | [] => []
  | x :: l' => fold_left common_prefix l' x
  end.
Fixpoint is_prefix (p l : comps) : bool :=
  match p, l with
  | [], _ => true
  | x :: p', y :: l' => str_eqb x y && is_prefix p' l'
  | _ :: _, [] => false
  end.

(* SDict.include (repaired: the raw relative name is stored) -> writer -> reader *)
Definition join_slash (c : comps) : str := join [c_slash] c.
Definition include_directive_text (rel : comps) : str :=
  of_string "#include " ++ format_string (join_slash rel).
(* what _extract_includes reads back from that directive line *)
Definition directive_name (line : str) : option str :=
  match include_line_rest line with Some rest => Some (include_name_of rest) | None => None end.

(* SDict.include(self, other) --------------------------------------------------------------------------------------
   self with the counter at c; from_dir = components of self.source_file.parent, to = components of other.source_file
   (both absolute and normalised), path = other.source_file as a string.  The loop `ii = counter(); if placeholder in
   self: continue` runs on fuel: one more draw than self has keys (enough whenever self has fewer than 10^6 keys;
   `Raise E_Fuel` is never a Python outcome: the loop would not end). *)
Fixpoint include_slot (fuel : nat) (data : list (key * tree)) (c : Z) : option (N * Z) :=
  match fuel with
  | O => None
  | S f =>
      let c' := counter_next c in
      let i := Z.to_N c' in
      if amem (KS (placeholder w_INCLUDE i)) data then include_slot f data c' else Some (i, c')
  end.
Definition sd_include (s : sdict) (c : Z) (from_dir to : comps) (path : str) : res (sdict * Z) :=
  match include_slot (S (length (sd_data s))) (sd_data s) c with
  | None => Raise E_Fuel
  | Some (i, c') =>
      let name := join_slash (relative_path from_dir to) in
      let directive := of_string "#include " ++ format_string (replace_all [92] [92; 92] name) in
      let ph := placeholder w_INCLUDE i in
      Ok (mkSD (aset (KS ph) (Leaf (SStr ph)) (sd_data s)) (sd_lc s) (sd_bc s)
               (tset i (directive, name, path) (sd_inc s)) (sd_expr s), c')
  end.
