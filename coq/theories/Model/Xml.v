(* XmlParser._parse_nodes and XmlFormatter.populate_into_element on abstract element trees
   (text <-> element tree is the XML libraries' business and trusted). *)
From Coq Require Import String.
From Coq Require Import NArith ZArith List Bool.
From DictIO Require Import Chars Str Value Scalar KeyPath SDict Lexer Reader Expr.
Import ListNotations.
Open Scope N_scope.

Inductive elem := Elem (tag : str) (attrs : list (str * str)) (text : option str) (children : list elem).

(* text normalisation: split into lines, strip each, join with a line feed, strip *)
Definition norm_text (t : str) : str :=
  strip (join [c_lf] (map strip (splitlines t))).
Definition blank_text (t : option str) : bool :=
  match t with None => true | Some s => forallb is_space s end.

Definition k_content := KS (of_string "_content").
Definition k_attributes := KS (of_string "_attributes").

(* parse_values over a tree (Parser.parse_values): every leaf through parse_value *)
Definition typed (t : tree) : tree := match parse_values_tree t with Ok t' => t' | Raise _ => t end.

Fixpoint number_tags (count : Z) (l : list elem) : list (Z * elem) * Z :=
  match l with
  | [] => ([], count)
  | e :: l' => let k := counter_next count in
               let (r, c) := number_tags k l' in ((k, e) :: r, c)
  end.
Definition tag_of (e : elem) : str := match e with Elem t _ _ _ => t end.
Definition node_key (numbering : bool) (i : Z) (tag : str) : key :=
  let txt := if numbering then pad6 (Z.to_N i) ++ [c_us] ++ tag else tag in
  match parse_value txt with
  | Ok v => match scalar_to_key v with Some k => k | None => KS txt end
  | Raise _ => KS txt
  end.

(* _parse_nodes: all child tags are numbered first, then each child is parsed (depth first) *)
Fixpoint parse_nodes (fuel : nat) (numbering : bool) (e : elem) (count : Z) : list (key * tree) * Z :=
  match fuel with
  | O => ([], count)
  | S f =>
      match e with
      | Elem _ _ _ children =>
          let (numbered, c0) := number_tags count children in
          let '(d, c) :=
            fold_left (fun (acc : list (key * tree) * Z) (ie : Z * elem) =>
                         let '(d, c) := acc in
                         let '(i, child) := ie in
                         match child with
                         | Elem tag attrs text kids =>
                             let k := node_key numbering i tag in
                             let '(body, c') :=
                               match kids with
                               | _ :: _ => let (sub, c1) := parse_nodes f numbering child c in (sub, c1)
                               | [] => if blank_text text then ([], c)
                                       else ([(k_content, Leaf (SStr (norm_text (match text with Some s => s | None => [] end))))], c)
                               end in
                             let body' :=
                               match attrs with
                               | [] => body
                               | _ => aupdate body [(k_attributes,
                                                    Dict (fold_left (fun a (kv : str * str) =>
                                                                       if nonempty (snd kv) then aset (KS (fst kv)) (Leaf (SStr (snd kv))) a else a)
                                                                    attrs []))]
                               end in
                             (aset k (Dict body') d, c')
                         end) numbered ([], c0) in
          (kvs_of_tree (typed (Dict d)), c)
      end
  end.
Fixpoint elem_depth (e : elem) : nat :=
  match e with Elem _ _ _ kids => S (fold_right (fun k m => Nat.max (elem_depth k) m) 0%nat kids) end.
Definition xml_parse (numbering : bool) (e : elem) (count : Z) : list (key * tree) * Z :=
  parse_nodes (S (elem_depth e)) numbering e count.

(* ---- XmlFormatter.populate_into_element -------------------------------------------------------------- *)
Definition strip_numbering (s : str) : str :=
  let (ds, rest) := span is_digit s in
  match ds, rest with
  | _ :: _, c :: rest' => if (c =? c_us) && Nat.leb (length ds) 6 then rest' else s
  | _, _ => s
  end.
Definition w_true_false (s : str) : bool := str_eqb (lower s) w_true || str_eqb (lower s) w_false.
Definition attr_text (t : tree) : str :=
  let s := py_str_tree t in if w_true_false s then lower s else s.
Definition key_text_xml (k : key) : str := match k with KI z => Z_to_dec z | KS s => s end.
Fixpoint starts_with_digits1 (s : str) : bool :=      (* one or more digits *)
  match s with c :: _ => is_digit c | [] => false end.
Definition is_skip_key (s : str) : bool :=
  (starts_with [c_us] s && (contains (of_string "Opts") s || contains (of_string "opts") s))
  || starts_with w_INCLUDE s
  || (starts_with w_BLOCKCOMMENT s && starts_with_digits1 (drop_n (length w_BLOCKCOMMENT) s))
  || (starts_with w_LINECOMMENT s && starts_with_digits1 (drop_n (length w_LINECOMMENT) s)).
Definition content_text (t : tree) : str :=
  let s := py_str_tree t in
  if nonempty s && Nat.ltb 1 (length (splitlines s)) then [c_lf] ++ s ++ [c_lf] else s.

Fixpoint populate (tag : str) (t : tree) : elem :=
  match t with
  | Leaf v => Elem tag [] (Some (py_str v)) []
  | Lst ts => Elem tag [] (Some (join [c_sp] (map py_str_tree ts))) []
  | Dict kvs =>
      let '(attrs, text, kids) :=
        (fix go (l : list (key * tree)) (attrs : list (str * str)) (text : option str) (kids : list elem) :=
           match l with
           | [] => (attrs, text, rev kids)
           | (k, item) :: l' =>
               let skey := key_text_xml k in
               if starts_with (of_string "_content") skey then go l' attrs (Some (content_text item)) kids
               else if starts_with (of_string "_attrib") skey then
                 match item with
                 | Dict avs =>
                     go l' (fold_right (fun (kv : key * tree) acc =>
                                          let v := py_str_tree (snd kv) in
                                          if nonempty v then (key_text_xml (fst kv), attr_text (snd kv)) :: acc else acc) [] avs)
                        text kids
                 | _ => go l' attrs text kids
                 end
               else if is_skip_key skey then go l' attrs text kids
               else
                 go l' attrs text ((match item with
                                    | Leaf SNone => Elem (strip_numbering skey) [] (Some []) []
                                    | _ => populate (strip_numbering skey) item
                                    end) :: kids)
           end) kvs [] None [] in
      Elem tag attrs text kids
  end.

(* ---- document level: XmlParser.parse_string and XmlFormatter.to_string ------------------------------------------
   An XML document as the XML libraries hand it over: the namespace map of the root element (prefix None = the
   default namespace), and the root element with its LOCAL tag (the `{uri}` part removed).  What the libraries do
   between text and this view is trusted. *)
Definition w_NOTSPECIFIED := of_string "NOTSPECIFIED".
Definition w_None := of_string "None".
Definition xs_uri := of_string "https://www.w3.org/2009/XMLSchema/XMLSchema.xsd".
Definition k_xmlOpts := KS (of_string "_xmlOpts").
Definition k_nameSpaces := KS (of_string "_nameSpaces").
Definition k_rootTag := KS (of_string "_rootTag").
Definition k_rootAttributes := KS (of_string "_rootAttributes").
Definition k_addNodeNumbering := KS (of_string "_addNodeNumbering").
Definition k_removeNodeNumbering := KS (of_string "_removeNodeNumbering").

(* {prefix: uri} with the key None deleted and entered again as the string 'None' (at the end, or over a prefix that
   is literally called None); an empty map is replaced by the default {xs: ...} *)
Definition ns_dict (ns : list (option str * str)) : list (key * tree) :=
  match ns with
  | [] => [(KS (of_string "xs"), Leaf (SStr xs_uri))]
  | _ =>
      let named := fold_left (fun acc (pu : option str * str) =>
                                match fst pu with Some p => aset (KS p) (Leaf (SStr (snd pu))) acc | None => acc end) ns [] in
      fold_left (fun acc (pu : option str * str) =>
                   match fst pu with None => aset (KS w_None) (Leaf (SStr (snd pu))) acc | Some _ => acc end) ns named
  end.
Definition xml_opts (numbering : bool) (ns : list (option str * str)) (root : elem) : tree :=
  match root with
  | Elem tag attrs _ _ =>
      Dict [(k_nameSpaces, Dict (ns_dict ns));
            (k_rootTag, Leaf (SStr (if nonempty tag then tag else w_NOTSPECIFIED)));
            (k_rootAttributes, Dict (fold_left (fun a (kv : str * str) => aset (KS (fst kv)) (Leaf (SStr (snd kv))) a) attrs []));
            (k_addNodeNumbering, Leaf (SBool numbering))]
  end.
(* parse_string: the nodes, then parsed_dict['_xmlOpts'] = {...} *)
Definition parse_doc (numbering : bool) (ns : list (option str * str)) (root : elem) (count : Z) : list (key * tree) * Z :=
  let '(nodes, c) := xml_parse numbering root count in
  (aset k_xmlOpts (xml_opts numbering ns root) nodes, c).

(* to_string up to the element tree handed to the XML library: the namespace the tags are put in (prefix, uri: the
   first entry of the namespace table) and the root element.  None = outside the model (an `_xmlOpts` entry that is
   not a dict, namespaces that are not a non-empty dict of strings, root attributes that are not a dict with string
   keys, an explicit `_removeNodeNumbering` other than True: the library raises or emits names that are none). *)
Definition is_attrib_entry (kv : key * tree) : bool :=
  starts_with (of_string "_attrib") (key_text_xml (fst kv)) && match snd kv with Dict _ => true | _ => false end.
Definition root_attrs (ra : list (key * tree)) : option (list (str * str)) :=
  fold_right (fun (kv : key * tree) acc =>
                match acc, fst kv with
                | Some l, KS k => let v := py_str_tree (snd kv) in Some (if nonempty v then (k, v) :: l else l)
                | _, _ => None
                end) (Some []) ra.
Definition first_ns (nsd : list (key * tree)) : option (str * str) :=
  match nsd with
  | (KS p, Leaf (SStr u)) :: rest =>
      if forallb (fun kv : key * tree => match kv with (KS _, Leaf (SStr _)) => true | _ => false end) rest then Some (p, u) else None
  | _ => None
  end.
Definition format_doc (d : list (key * tree)) : option (str * str * elem) :=
  let default := (of_string "xs", xs_uri) in
  let finish (ns : str * str) (tag : str) (ra : list (str * str)) :=
    match populate tag (Dict d) with
    | Elem t pattrs text kids => Some (ns, Elem t (if existsb is_attrib_entry d then pattrs else ra) text kids)
    end in
  match alookup k_xmlOpts d with
  | None => finish default w_NOTSPECIFIED []
  | Some (Dict o) =>
      match (match alookup k_nameSpaces o with
             | None => Some default
             | Some (Dict nsd) => first_ns nsd
             | Some _ => None
             end),
            (match alookup k_rootAttributes o with
             | None => Some []
             | Some (Dict ra) => root_attrs ra
             | Some _ => None
             end),
            (match alookup k_removeNodeNumbering o with
             | None | Some (Leaf (SBool true)) => true
             | Some _ => false
             end) with
      | Some ns, Some ra, true =>
          finish ns (match alookup k_rootTag o with Some t => py_str_tree t | None => w_NOTSPECIFIED end) ra
      | _, _, _ => None
      end
  | Some _ => None
  end.
