(* XmlParser._parse_nodes and XmlFormatter.populate_into_element on abstract element trees
   (text <-> element tree is the XML libraries' business and trusted). *)
From Coq Require Import String.
From Coq Require Import NArith ZArith List Bool.
From DictIO Require Import Chars Str Value Scalar KeyPath SDict Lexer Reader Expr.
Import ListNotations.
Open Scope N_scope.

Inductive elem := Elem (tag : str) (attrs : list (str * str)) (text : option str) (children : list elem).

(* text normalisation: split into lines, strip each, join with a line feed, strip *)
Definition norm_text (t : str) : str :=
  strip (join [c_lf] (map strip (splitlines t))).
Definition blank_text (t : option str) : bool :=
  match t with None => true | Some s => forallb is_space s end.

Definition k_content := KS (of_string "_content").
Definition k_attributes := KS (of_string "_attributes").

(* parse_values over a tree (Parser.parse_values): every leaf through parse_value *)
Definition typed (t : tree) : tree := match parse_values_tree t with Ok t' => t' | Raise _ => t end.

Fixpoint number_tags (count : Z) (l : list elem) : list (Z * elem) * Z :=
  match l with
  | [] => ([], count)
  | e :: l' => let k := counter_next count in
               let (r, c) := number_tags k l' in ((k, e) :: r, c)
  end.
Definition tag_of (e : elem) : str := match e with Elem t _ _ _ => t end.
Definition node_key (numbering : bool) (i : Z) (tag : str) : key :=
  let txt := if numbering then pad6 (Z.to_N i) ++ [c_us] ++ tag else tag in
  match parse_value txt with
  | Ok v => match scalar_to_key v with Some k => k | None => KS txt end
  | Raise _ => KS txt
  end.

(* _parse_nodes: all child tags are numbered first, then each child is parsed (depth first) *)
Fixpoint parse_nodes (fuel : nat) (numbering : bool) (e : elem) (count : Z) : list (key * tree) * Z :=
  match fuel with
  | O => ([], count)
  | S f =>
      match e with
      | Elem _ _ _ children =>
          let (numbered, c0) := number_tags count children in
          let '(d, c) :=
            fold_left (fun (acc : list (key * tree) * Z) (ie : Z * elem) =>
                         let '(d, c) := acc in
                         let '(i, child) := ie in
                         match child with
                         | Elem tag attrs text kids =>
                             let k := node_key numbering i tag in
                             let '(body, c') :=
                               match kids with
                               | _ :: _ => let (sub, c1) := parse_nodes f numbering child c in (sub, c1)
                               | [] => if blank_text text then ([], c)
                                       else ([(k_content, Leaf (SStr (norm_text (match text with Some s => s | None => [] end))))], c)
                               end in
                             let body' :=
                               match attrs with
                               | [] => body
                               | _ => aupdate body [(k_attributes,
                                                    Dict (fold_left (fun a (kv : str * str) =>
                                                                       if nonempty (snd kv) then aset (KS (fst kv)) (Leaf (SStr (snd kv))) a else a)
                                                                    attrs []))]
                               end in
                             (aset k (Dict body') d, c')
                         end) numbered ([], c0) in
          (kvs_of_tree (typed (Dict d)), c)
      end
  end.
Fixpoint elem_depth (e : elem) : nat :=
  match e with Elem _ _ _ kids => S (fold_right (fun k m => Nat.max (elem_depth k) m) 0%nat kids) end.
Definition xml_parse (numbering : bool) (e : elem) (count : Z) : list (key * tree) * Z :=
  parse_nodes (S (elem_depth e)) numbering e count.

(* ---- XmlFormatter.populate_into_element -------------------------------------------------------------- *)
Definition strip_numbering (s : str) : str :=
  let (ds, rest) := span is_digit s in
  match ds, rest with
  | _ :: _, c :: rest' => if (c =? c_us) && Nat.leb (length ds) 6 then rest' else s
  | _, _ => s
  end.
Definition w_true_false (s : str) : bool := str_eqb (lower s) w_true || str_eqb (lower s) w_false.
Definition attr_text (t : tree) : str :=
  let s := py_str_tree t in if w_true_false s then lower s else s.
Definition key_text_xml (k : key) : str := match k with KI z => Z_to_dec z | KS s => s end.
Fixpoint starts_with_digits1 (s : str) : bool :=      (* one or more digits *)
  match s with c :: _ => is_digit c | [] => false end.
Definition is_skip_key (s : str) : bool :=
  (starts_with [c_us] s && (contains (of_string "Opts") s || contains (of_string "opts") s))
  || starts_with w_INCLUDE s
  || (starts_with w_BLOCKCOMMENT s && starts_with_digits1 (drop_n (length w_BLOCKCOMMENT) s))
  || (starts_with w_LINECOMMENT s && starts_with_digits1 (drop_n (length w_LINECOMMENT) s)).
Definition content_text (t : tree) : str :=
  let s := py_str_tree t in
  if nonempty s && Nat.ltb 1 (length (splitlines s)) then [c_lf] ++ s ++ [c_lf] else s.

Fixpoint populate (tag : str) (t : tree) : elem :=
  match t with
  | Leaf v => Elem tag [] (Some (py_str v)) []
  | Lst ts => Elem tag [] (Some (join [c_sp] (map py_str_tree ts))) []
  | Dict kvs =>
      let '(attrs, text, kids) :=
        (fix go (l : list (key * tree)) (attrs : list (str * str)) (text : option str) (kids : list elem) :=
           match l with
           | [] => (attrs, text, rev kids)
           | (k, item) :: l' =>
               let skey := key_text_xml k in
               if starts_with (of_string "_content") skey then go l' attrs (Some (content_text item)) kids
               else if starts_with (of_string "_attrib") skey then
                 match item with
                 | Dict avs =>
                     go l' (fold_right (fun (kv : key * tree) acc =>
                                          let v := py_str_tree (snd kv) in
                                          if nonempty v then (key_text_xml (fst kv), attr_text (snd kv)) :: acc else acc) [] avs)
                        text kids
                 | _ => go l' attrs text kids
                 end
               else if is_skip_key skey then go l' attrs text kids
               else
                 go l' attrs text ((match item with
                                    | Leaf SNone => Elem (strip_numbering skey) [] (Some []) []
                                    | _ => populate (strip_numbering skey) item
                                    end) :: kids)
           end) kvs [] None [] in
      Elem tag attrs text kids
  end.
