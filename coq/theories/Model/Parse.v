(* DictReader.read with all its options, DictWriter.write for an SDict source (native / Foam), and
   DictParser.parse = read + target name + write: the workflow behind the dictParser command. *)
From Coq Require Import String.
From Coq Require Import NArith ZArith List Bool.
From DictIO Require Import Chars Str Value Scalar KeyPath SDict Layout Lexer TokParser Reader Expr Eval Cli.
Import ListNotations.
Open Scope N_scope.

Definition E_Exit := 10%N.      (* sys.exit(1): the requested scope does not exist *)

(* the scope as the reader uses it: a list of keys (floats / bools / None as scope members: outside the model) *)
Fixpoint scope_keys (scope : list scalar) : option (list key) :=
  match scope with
  | [] => Some []
  | v :: r => match scalar_to_key v, scope_keys r with
              | Some k, Some ks => Some (k :: ks)
              | _, _ => None
              end
  end.

(* ---- DictReader.read(source, includes, order, comments, scope) ----------------------------------------- *)
(* parse; merge includes; evaluate expressions; reduce the scope (or exit); order; drop include keys when
   includes are off.  None = outside the modelled fragment (an expression beyond integer arithmetic, a scope
   member that is no int / str). *)
Definition read_opts (fs : fsys) (root : str) (includes order comments : bool) (scope : list scalar) (count : Z)
  : option (res (sdict * Z)) :=
  match scope_keys scope with
  | None => None
  | Some sk =>
      match fs_lookup (norm_path root) fs with
      | None => Some (Raise E_Key)
      | Some u =>
          match parse_unit comments root count u with
          | Raise e => Some (Raise e)
          | Ok pr =>
              match (if includes then merge_includes fs comments (pr_sd pr) (pr_count pr) else Ok (pr_sd pr, pr_count pr)) with
              | Raise e => Some (Raise e)
              | Ok (s, c) =>
                  match eval_expressions s with
                  | None => None
                  | Some (Raise e) => Some (Raise e)
                  | Some (Ok s1) =>
                      let scoped : res sdict :=
                        match sk with
                        | [] => Ok s1
                        | _ =>
                            if key_exists (Dict (sd_data s1)) sk
                            then Ok (sd_update (mkSD [] (sd_lc s1) (sd_bc s1) (sd_inc s1) (sd_expr s1))
                                               (reduce_scope (sd_data s1) sk) None)
                            else Raise E_Exit
                        end in
                      match scoped with
                      | Raise e => Some (Raise e)
                      | Ok s2 =>
                          let s3 := if order then sd_order s2 else s2 in
                          let s4 := if includes then s3
                                    else mkSD (remove_include_keys (sd_data s3)) (sd_lc s3) (sd_bc s3) (sd_inc s3) (sd_expr s3) in
                          Some (Ok (s4, c))
                      end
                  end
              end
          end
      end
  end.

(* ---- DictWriter.write(sdict, target, mode, order) for the native and the Foam formatter ------------------- *)
(* parse_values on the source; in append mode onto an existing target: read the target (includes on, comments on,
   order as given), merge the source into it; order; serialise.  Returns the text written and the counter. *)
Definition write_sd (fs : fsys) (foam : bool) (target : str) (append order : bool) (s : sdict) (count : Z)
  : option (res (str * Z)) :=
  match parse_values_tree (Dict (sd_data s)) with
  | Raise e => Some (Raise e)
  | Ok t =>
      let src := mkSD (kvs_of_tree t) (sd_lc s) (sd_bc s) (sd_inc s) (sd_expr s) in
      let merged : option (res (sdict * Z)) :=
        match (if append then fs_lookup (norm_path target) fs else None) with
        | Some _ =>
            match read_opts fs target true order true [] count with
            | None => None
            | Some (Raise e) => Some (Raise e)
            | Some (Ok (existing, c)) => Some (Ok (sd_merge existing (sd_data src) (Some src), c))
            end
        | None => Some (Ok (src, count))
        end in
      match merged with
      | None => None
      | Some (Raise e) => Some (Raise e)
      | Some (Ok (m, c)) =>
          let m' := if order then sd_order m else m in
          Some (Ok (if foam then foam_to_string_sd m' else to_string_sd m', c))
      end
  end.

(* ---- DictParser.parse(source, includes, mode, order, comments, scope, output) ----------------------------- *)
(* output None / cpp: native; foam: Foam; json and xml are outside the model.  Returns (target path, text). *)
Definition output_kind (output : option str) : option bool :=      (* Some foam? *)
  match output with
  | None => Some false
  | Some o => if str_eqb o (of_string "foam") then Some true
              else if str_eqb o (of_string "json") || str_eqb o (of_string "xml") then None
              else Some false
  end.
Definition parse_model (fs : fsys) (src : str) (includes append order comments : bool) (scope : list scalar)
           (output : option str) (count : Z) : option (res (str * str * Z)) :=
  match output_kind output with
  | None => None
  | Some foam0 =>
      match read_opts fs src includes order comments scope count with
      | None => None
      | Some (Raise e) => Some (Raise e)
      | Some (Ok (s, c)) =>
          let name := target_file_name (base_name src) (Some (of_string "parsed")) scope output in
          let target := dir_of src ++ [c_slash] ++ name in
          (* the formatter is chosen by the target's suffix *)
          let foam := foam0 || ends_with (of_string ".foam") name in
          if ends_with (of_string ".json") name || ends_with (of_string ".xml") name then None else
          match write_sd fs foam target append order s c with
          | None => None
          | Some (Raise e) => Some (Raise e)
          | Some (Ok (txt, c')) => Some (Ok (target, txt, c'))
          end
      end
  end.
