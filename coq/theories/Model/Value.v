(* Values: Python dict = insertion ordered association list with unique keys. *)
From Coq Require Import NArith ZArith List Bool.
From DictIO Require Import Chars Str.
Import ListNotations.

Inductive key := KI (z : Z) | KS (s : str).
Inductive scalar :=
  | SInt (z : Z)
  | SFloat (lit : str)     (* a float is carried as the literal text handed to float() / produced by repr *)
  | SBool (b : bool)
  | SNone
  | SStr (s : str).

Inductive tree :=
  | Leaf (v : scalar)
  | Dict (kvs : list (key * tree))
  | Lst (ts : list tree).

Definition key_eqb (a b : key) : bool :=
  match a, b with
  | KI x, KI y => Z.eqb x y
  | KS x, KS y => str_eqb x y
  | _, _ => false
  end.

Definition scalar_eqb (a b : scalar) : bool :=
  match a, b with
  | SInt x, SInt y => Z.eqb x y
  | SFloat x, SFloat y => str_eqb x y
  | SBool x, SBool y => Bool.eqb x y
  | SNone, SNone => true
  | SStr x, SStr y => str_eqb x y
  | _, _ => false
  end.

Fixpoint tree_eqb (a b : tree) : bool :=
  match a, b with
  | Leaf x, Leaf y => scalar_eqb x y
  | Dict xs, Dict ys =>
      (fix go (xs ys : list (key * tree)) : bool :=
         match xs, ys with
         | [], [] => true
         | (k, t) :: xs', (k', t') :: ys' => key_eqb k k' && tree_eqb t t' && go xs' ys'
         | _, _ => false
         end) xs ys
  | Lst xs, Lst ys =>
      (fix go (xs ys : list tree) : bool :=
         match xs, ys with
         | [], [] => true
         | t :: xs', t' :: ys' => tree_eqb t t' && go xs' ys'
         | _, _ => false
         end) xs ys
  | _, _ => false
  end.

(* nested induction principle *)
Section tree_ind'.
  Variable P : tree -> Prop.
  Hypothesis Hleaf : forall v, P (Leaf v).
  Hypothesis Hdict : forall kvs, Forall (fun kt => P (snd kt)) kvs -> P (Dict kvs).
  Hypothesis Hlst : forall ts, Forall P ts -> P (Lst ts).
  Fixpoint tree_ind' (t : tree) : P t :=
    match t with
    | Leaf v => Hleaf v
    | Dict kvs =>
        Hdict kvs ((fix go (l : list (key * tree)) : Forall (fun kt => P (snd kt)) l :=
                      match l with
                      | [] => Forall_nil _
                      | kt :: l' => Forall_cons kt (tree_ind' (snd kt)) (go l')
                      end) kvs)
    | Lst ts =>
        Hlst ts ((fix go (l : list tree) : Forall P l :=
                    match l with
                    | [] => Forall_nil _
                    | t :: l' => Forall_cons t (tree_ind' t) (go l')
                    end) ts)
    end.
End tree_ind'.

(* association list operations = builtin dict *)
Section Assoc.
  Context {V : Type}.
  Fixpoint alookup (k : key) (l : list (key * V)) : option V :=
    match l with
    | [] => None
    | (k', v) :: l' => if key_eqb k k' then Some v else alookup k l'
    end.
  Definition amem (k : key) (l : list (key * V)) : bool :=
    match alookup k l with Some _ => true | None => false end.
  (* d[k] = v : replace in place if present, else append *)
  Fixpoint aset (k : key) (v : V) (l : list (key * V)) : list (key * V) :=
    match l with
    | [] => [(k, v)]
    | (k', v') :: l' => if key_eqb k k' then (k', v) :: l' else (k', v') :: aset k v l'
    end.
  Fixpoint adel (k : key) (l : list (key * V)) : list (key * V) :=
    match l with
    | [] => []
    | (k', v') :: l' => if key_eqb k k' then l' else (k', v') :: adel k l'
    end.
  Definition aupdate (l m : list (key * V)) : list (key * V) :=
    fold_left (fun acc kv => aset (fst kv) (snd kv) acc) m l.
  Definition akeys (l : list (key * V)) : list key := map fst l.
End Assoc.

Fixpoint keys_nodup (ks : list key) : bool :=
  match ks with
  | [] => true
  | k :: ks' => negb (existsb (key_eqb k) ks') && keys_nodup ks'
  end.

(* well formed: unique keys at every dict level *)
Fixpoint wf (t : tree) : bool :=
  match t with
  | Leaf _ => true
  | Dict kvs => keys_nodup (map fst kvs) &&
                (fix go (l : list (key * tree)) : bool :=
                   match l with [] => true | (_, t') :: l' => wf t' && go l' end) kvs
  | Lst ts => (fix go (l : list tree) : bool :=
                 match l with [] => true | t' :: l' => wf t' && go l' end) ts
  end.

(* result of an operation that may raise *)
Inductive res (A : Type) := Ok (a : A) | Raise (e : N).
Arguments Ok {A}. Arguments Raise {A}.
Definition E_Value := 1%N.     (* ValueError *)
Definition E_Type := 2%N.      (* TypeError *)
Definition E_Index := 3%N.     (* IndexError *)
Definition E_Key := 4%N.       (* KeyError *)
Definition E_Recursion := 5%N. (* RecursionError *)
Definition E_Fuel := 9%N.      (* model ran out of fuel (never a Python outcome) *)

Definition bind {A B} (r : res A) (f : A -> res B) : res B :=
  match r with Ok a => f a | Raise e => Raise e end.
