(* utils/dict.py: find_global_key, set_global_key, global_key_exists, order_keys; SDict.reduce_scope. *)
From Coq Require Import String.
From Coq Require Import NArith ZArith List Bool.
From DictIO Require Import Chars Str Value Scalar.
Import ListNotations.

(* ---- key order: (isinstance(k, str), k) -------------------------------------------------------- *)
Fixpoint str_ltb (a b : str) : bool :=
  match a, b with
  | [], [] => false
  | [], _ :: _ => true
  | _ :: _, [] => false
  | x :: a', y :: b' => if N.ltb x y then true else if N.ltb y x then false else str_ltb a' b'
  end.
Definition key_ltb (a b : key) : bool :=
  match a, b with
  | KI x, KI y => Z.ltb x y
  | KI _, KS _ => true
  | KS _, KI _ => false
  | KS x, KS y => str_ltb x y
  end.
Definition key_leb (a b : key) : bool := negb (key_ltb b a).

Section Sort.
  Context {V : Type}.
  Fixpoint insert_kv (kv : key * V) (l : list (key * V)) : list (key * V) :=
    match l with
    | [] => [kv]
    | kv' :: l' => if key_leb (fst kv) (fst kv') then kv :: l else kv' :: insert_kv kv l'
    end.
  (* stable insertion sort (insert from the right end so that equal keys keep their order) *)
  Fixpoint sort_kvs (l : list (key * V)) : list (key * V) :=
    match l with
    | [] => []
    | kv :: l' => insert_kv kv (sort_kvs l')
    end.
End Sort.

(* ---- str(value) -------------------------------------------------------------------------------- *)
Definition py_str (v : scalar) : str :=
  match v with
  | SStr s => s
  | SInt z => Z_to_dec z
  | SFloat l => l
  | SBool true => of_string "True"
  | SBool false => of_string "False"
  | SNone => of_string "None"
  end.

(* ---- path walk (Python indexing: negative list indices count from the end) --------------------- *)
Definition norm_index (z : Z) (len : nat) : option nat :=
  let n := Z.of_nat len in
  if (0 <=? z)%Z then (if (z <? n)%Z then Some (Z.to_nat z) else None)
  else (if (0 <=? z + n)%Z then Some (Z.to_nat (z + n)) else None).

Fixpoint set_nth {A} (n : nat) (x : A) (l : list A) : list A :=
  match n, l with
  | O, _ :: l' => x :: l'
  | S n', y :: l' => y :: set_nth n' x l'
  | _, [] => []
  end.

Definition child (t : tree) (k : key) : res tree :=
  match t with
  | Dict kvs => match alookup k kvs with Some c => Ok c | None => Raise E_Key end
  | Lst ts =>
      match k with
      | KI z => match norm_index z (length ts) with
                | Some i => match nth_error ts i with Some c => Ok c | None => Raise E_Index end
                | None => Raise E_Index
                end
      | KS _ => Raise E_Key
      end
  | Leaf _ => Raise E_Key
  end.

Fixpoint get_path (t : tree) (p : list key) : option tree :=
  match p with
  | [] => Some t
  | k :: p' => match child t k with Ok c => get_path c p' | Raise _ => None end
  end.

Definition is_container (t : tree) : bool := match t with Leaf _ => false | _ => true end.

(* replace / add the entry k of container t *)
Definition set_child (t : tree) (k : key) (v : tree) : res tree :=
  match t with
  | Dict kvs => Ok (Dict (aset k v kvs))
  | Lst ts =>
      match k with
      | KI z => match norm_index z (length ts) with
                | Some i => Ok (Lst (set_nth i v ts))
                | None => Raise E_Index
                end
      | KS _ => Raise E_Key
      end
  | Leaf _ => Raise E_Key
  end.

(* set_global_key: [ii] = descents made so far; the 10th descent raises RecursionError *)
Fixpoint set_at (t : tree) (p : list key) (v : tree) (ii : nat) : res tree :=
  match p with
  | [] => Ok t
  | [k] => set_child t k v
  | k :: p' =>
      bind (child t k) (fun c =>
        if negb (is_container c) then Raise E_Key
        else if Nat.eqb (S ii) 10 then Raise E_Recursion
        else bind (set_at c p' v (S ii)) (fun c' => set_child t k c'))
  end.
Definition set_global_key (t : tree) (p : list key) (v : tree) : res tree := set_at t p v 0.

(* ---- find_global_key: depth first, dict entries in sorted key order ---------------------------- *)
Fixpoint first_some {A} (l : list (key * option (list A))) : option (key * list A) :=
  match l with
  | [] => None
  | (k, Some p) :: _ => Some (k, p)
  | (_, None) :: l' => first_some l'
  end.

Fixpoint find_key (q : str) (t : tree) : option (list key) :=
  match t with
  | Leaf v => if contains q (py_str v) then Some [] else None
  | Dict kvs =>
      match first_some (sort_kvs ((fix go (l : list (key * tree)) :=
                                     match l with
                                     | [] => []
                                     | (k, c) :: l' => (k, find_key q c) :: go l'
                                     end) kvs)) with
      | Some (k, p) => Some (k :: p)
      | None => None
      end
  | Lst ts =>
      (fix go (l : list tree) (i : Z) : option (list key) :=
         match l with
         | [] => None
         | c :: l' => match find_key q c with
                      | Some p => Some (KI i :: p)
                      | None => go l' (i + 1)%Z
                      end
         end) ts 0%Z
  end.
(* find_global_key returns None for an empty thread *)
Definition find_global_key (q : str) (t : tree) : option (list key) :=
  match t with
  | Leaf _ => None
  | _ => match find_key q t with Some [] => None | r => r end
  end.

(* ---- global_key_exists: walks through dicts only ---------------------------------------------- *)
Fixpoint key_exists (t : tree) (p : list key) : bool :=
  match p with
  | [] => true
  | k :: p' =>
      match t with
      | Dict kvs => match alookup k kvs with
                    | Some (Dict kvs') => key_exists (Dict kvs') p'
                    | _ => false
                    end
      | _ => false
      end
  end.

(* walk through dicts only *)
Fixpoint dict_at (t : tree) (p : list key) : option (list (key * tree)) :=
  match p with
  | [] => match t with Dict kvs => Some kvs | _ => None end
  | k :: p' => match t with
               | Dict kvs => match alookup k kvs with Some c => dict_at c p' | None => None end
               | _ => None
               end
  end.

(* SDict.reduce_scope (repaired: path walk instead of eval): clear(); update(sub dict) *)
Definition reduce_scope (kvs : list (key * tree)) (scope : list key) : list (key * tree) :=
  match scope with
  | [] => kvs
  | _ => match dict_at (Dict kvs) scope with
         | Some sub => aupdate [] sub
         | None => kvs
         end
  end.

(* ---- order_keys: sorts every dict level reachable through dicts; lists are left alone --------- *)
Fixpoint order_tree (t : tree) : tree :=
  match t with
  | Dict kvs => Dict (sort_kvs ((fix go (l : list (key * tree)) :=
                                   match l with
                                   | [] => []
                                   | (k, c) :: l' =>
                                       (k, match c with Dict _ => order_tree c | _ => c end) :: go l'
                                   end) kvs))
  | _ => t
  end.
