(* dict.py: SDict = dict + side tables; update / merge / _clean. *)
From Coq Require Import String.
From Coq Require Import NArith ZArith List Bool.
From DictIO Require Import Chars Str Value Scalar KeyPath.
Import ListNotations.
Open Scope N_scope.

(* id-keyed tables (ids are ints: Python dict with int keys, insertion ordered) *)
Section Tab.
  Context {V : Type}.
  Fixpoint tlookup (i : N) (l : list (N * V)) : option V :=
    match l with
    | [] => None
    | (j, v) :: l' => if N.eqb i j then Some v else tlookup i l'
    end.
  Fixpoint tset (i : N) (v : V) (l : list (N * V)) : list (N * V) :=
    match l with
    | [] => [(i, v)]
    | (j, v') :: l' => if N.eqb i j then (j, v) :: l' else (j, v') :: tset i v l'
    end.
  Fixpoint tdel (i : N) (l : list (N * V)) : list (N * V) :=
    match l with
    | [] => []
    | (j, v') :: l' => if N.eqb i j then l' else (j, v') :: tdel i l'
    end.
  (* dict.update *)
  Definition tupdate (l m : list (N * V)) : list (N * V) :=
    fold_left (fun acc kv => tset (fst kv) (snd kv) acc) m l.
  (* _recursive_merge on a plain dict: keys already present are kept *)
  Definition tmerge (l m : list (N * V)) : list (N * V) :=
    fold_left (fun acc kv => match tlookup (fst kv) acc with
                             | Some _ => acc
                             | None => acc ++ [kv]
                             end) m l.
End Tab.

Definition include_entry := (str * str * str)%type.   (* directive, file name, path *)
Definition expr_entry := (str * str)%type.             (* expression text, placeholder name *)

Record sdict := mkSD {
  sd_data : list (key * tree);
  sd_lc : list (N * str);             (* line_comments *)
  sd_bc : list (N * str);             (* block_comments *)
  sd_inc : list (N * include_entry);  (* includes *)
  sd_expr : list (N * expr_entry);    (* expressions *)
}.
Definition sd_empty : sdict := mkSD [] [] [] [] [].

(* ---- placeholder key recognition ---------------------------------------------------------------- *)
Fixpoint all_digits_n (n : nat) (s : str) : bool :=
  match n with
  | O => true
  | S n' => match s with c :: s' => is_digit c && all_digits_n n' s' | [] => false end
  end.
(* re.search(WORD + six digits, key) *)
Fixpoint has_placeholder (w : str) (s : str) : bool :=
  (starts_with w s && all_digits_n 6 (drop_n (length w) s)) ||
  match s with [] => false | _ :: s' => has_placeholder w s' end.
(* int(re.findall(six digits, key)[0]) *)
Fixpoint take_n {A} (n : nat) (l : list A) : list A :=
  match n, l with
  | S n', x :: l' => x :: take_n n' l'
  | _, _ => []
  end.
Fixpoint first_6digits (s : str) : option N :=
  if all_digits_n 6 s then Some (dec_to_N (take_n 6 s))
  else match s with [] => None | _ :: s' => first_6digits s' end.

Definition w_BLOCKCOMMENT := of_string "BLOCKCOMMENT".
Definition w_LINECOMMENT := of_string "LINECOMMENT".
Definition w_INCLUDE := of_string "INCLUDE".
Definition w_EXPRESSION := of_string "EXPRESSION".
Definition w_STRINGLITERAL := of_string "STRINGLITERAL".

Definition placeholder (w : str) (i : N) : str := w ++ pad6 i.

Inductive ph_kind := PhBlock | PhInclude | PhLine.
Definition ph_kind_of (k : key) : option ph_kind :=
  match k with
  | KS s => if has_placeholder w_BLOCKCOMMENT s then Some PhBlock
            else if has_placeholder w_INCLUDE s then Some PhInclude
            else if has_placeholder w_LINECOMMENT s then Some PhLine
            else None
  | KI _ => None
  end.
Definition key_id (k : key) : option N := match k with KS s => first_6digits s | KI _ => None end.

Definition inc_eqb (a b : include_entry) : bool :=
  let '(a1, a2, a3) := a in let '(b1, b2, b3) := b in str_eqb a1 b1 && str_eqb a2 b2 && str_eqb a3 b3.

(* ---- _clean_data on one level ------------------------------------------------------------------- *)
(* generic pass for one placeholder kind: walks the keys of that kind in order *)
Section CleanKind.
  Context {V : Type} (veqb : V -> V -> bool).
  Fixpoint clean_kind (keys : list key) (data : list (key * tree)) (tab : list (N * V)) (seen : list V)
    : list (key * tree) * list (N * V) :=
    match keys with
    | [] => (data, tab)
    | k :: keys' =>
        match key_id k with
        | Some i =>
            match tlookup i tab with
            | Some v =>
                if existsb (veqb v) seen
                then clean_kind keys' (adel k data) (tdel i tab) seen
                else clean_kind keys' data tab (seen ++ [v])
            | None => clean_kind keys' data tab seen     (* KeyError suppressed *)
            end
        | None => clean_kind keys' data tab seen          (* IndexError suppressed *)
        end
    end.
End CleanKind.

Definition keys_of_kind (kd : ph_kind) (data : list (key * tree)) : list key :=
  filter (fun k => match ph_kind_of k, kd with
                   | Some PhBlock, PhBlock | Some PhInclude, PhInclude | Some PhLine, PhLine => true
                   | _, _ => false
                   end) (map fst data).

Definition clean_level (data : list (key * tree)) (s : sdict) : list (key * tree) * sdict :=
  let kb := keys_of_kind PhBlock data in
  let ki := keys_of_kind PhInclude data in
  let kl := keys_of_kind PhLine data in
  let '(d1, bc) := clean_kind str_eqb kb data (sd_bc s) [] in
  let '(d2, inc) := clean_kind inc_eqb ki d1 (sd_inc s) [] in
  let '(d3, lc) := clean_kind str_eqb kl d2 (sd_lc s) [] in
  (d3, mkSD (sd_data s) lc bc inc (sd_expr s)).

(* _recursive_clean: this level, then every nested dict value (not lists); tables are threaded *)
Fixpoint clean_tree (fuel : nat) (data : list (key * tree)) (s : sdict) : list (key * tree) * sdict :=
  match fuel with
  | O => (data, s)
  | S f =>
      let '(d, s1) := clean_level data s in
      fold_left (fun (acc : list (key * tree) * sdict) (kv : key * tree) =>
                   let '(dacc, sacc) := acc in
                   match snd kv with
                   | Dict sub => let '(sub', s') := clean_tree f sub sacc in
                                 (aset (fst kv) (Dict sub') dacc, s')
                   | _ => acc
                   end) d (d, s1)
  end.
Fixpoint depth (t : tree) : nat :=
  match t with
  | Leaf _ => 0
  | Dict kvs => S (fold_right (fun kv m => Nat.max (depth (snd kv)) m) 0%nat kvs)
  | Lst ts => S (fold_right (fun c m => Nat.max (depth c) m) 0%nat ts)
  end.
Definition sd_clean (s : sdict) : sdict :=
  let '(d, s') := clean_tree (S (depth (Dict (sd_data s)))) (sd_data s) s in
  mkSD d (sd_lc s') (sd_bc s') (sd_inc s') (sd_expr s').

(* ---- update family ------------------------------------------------------------------------------ *)
Definition post_update (s : sdict) (other : option sdict) : sdict :=
  match other with
  | Some o => mkSD (sd_data s) (tupdate (sd_lc s) (sd_lc o)) (tupdate (sd_bc s) (sd_bc o))
                   (tupdate (sd_inc s) (sd_inc o)) (tupdate (sd_expr s) (sd_expr o))
  | None => s
  end.
(* update(m) / |= : m is a plain mapping (other = None) or an SDict *)
Definition sd_update (s : sdict) (m : list (key * tree)) (other : option sdict) : sdict :=
  sd_clean (post_update (mkSD (aupdate (sd_data s) m) (sd_lc s) (sd_bc s) (sd_inc s) (sd_expr s)) other).
(* self | other : new SDict from the merged data, tables of other only (self's are not carried) *)
Definition sd_or (s : sdict) (m : list (key * tree)) (other : option sdict) : sdict :=
  sd_clean (post_update (mkSD (aupdate (sd_data s) m) [] [] [] []) other).
(* other | self  (plain dict on the left) *)
Definition sd_ror (m : list (key * tree)) (s : sdict) : sdict :=
  sd_clean (post_update (mkSD (aupdate m (sd_data s)) [] [] [] []) (Some s)).
Definition sd_setitem (s : sdict) (k : key) (v : tree) : sdict :=
  mkSD (aset k v (sd_data s)) (sd_lc s) (sd_bc s) (sd_inc s) (sd_expr s).
Definition sd_delitem (s : sdict) (k : key) : res sdict :=
  if amem k (sd_data s) then Ok (mkSD (adel k (sd_data s)) (sd_lc s) (sd_bc s) (sd_inc s) (sd_expr s))
  else Raise E_Key.
Definition sd_setdefault (s : sdict) (k : key) (v : tree) : sdict :=
  if amem k (sd_data s) then s else sd_setitem s k v.
Definition sd_clear (s : sdict) : sdict := mkSD [] (sd_lc s) (sd_bc s) (sd_inc s) (sd_expr s).

(* ---- merge -------------------------------------------------------------------------------------- *)
(* _insert_expression: a string value naming an EXPRESSION placeholder is replaced by its text *)
Definition insert_expression (v : tree) (exprs : list (N * expr_entry)) : tree :=
  match v with
  | Leaf (SStr t) =>
      if has_placeholder w_EXPRESSION t then
        match first_6digits t with
        | Some i => match tlookup i exprs with Some (e, _) => Leaf (SStr e) | None => v end
        | None => v
        end
      else v
  | _ => v
  end.

(* _value_contains_circular_reference (repaired): the value refers to its own key, i.e. contains
   dollar + key not followed by a word character *)
Fixpoint refers_to (name : str) (s : str) : bool :=
  match s with
  | [] => false
  | c :: s' =>
      ((c =? c_dollar) && starts_with name s' &&
       match drop_n (length name) s' with
       | d :: _ => negb (is_word d)
       | [] => true
       end) || refers_to name s'
  end.
(* placeholder entries name themselves: one or more upper case letters followed by exactly six digits *)
Definition is_placeholder_name (s : str) : bool :=
  let (u, r) := span is_upper s in nonempty u && Nat.eqb (length r) 6 && forallb is_digit r.
Definition circular (k : key) (v : tree) : bool :=
  match k, v with
  | KS name, Leaf (SStr t) =>
      (nonempty name && refers_to name t) || (str_eqb name t && is_placeholder_name name)
  | _, _ => false
  end.

(* _recursive_merge(target, other); [top] = target is the SDict itself (circular test applies) *)
Fixpoint merge_kvs (fuel : nat) (top : option (list (N * expr_entry)))
         (target other : list (key * tree)) : list (key * tree) :=
  match fuel with
  | O => target
  | S f =>
      fold_left (fun tgt (kv : key * tree) =>
                   let (k, ov) := kv in
                   match alookup k tgt, ov with
                   | Some (Dict tsub), Dict osub => aset k (Dict (merge_kvs f None tsub osub)) tgt
                   | Some tv, _ =>
                       match top with
                       | Some exprs => if circular k (insert_expression tv exprs) then aset k ov tgt else tgt
                       | None => tgt
                       end
                   | None, _ => aset k ov tgt
                   end) other target
  end.

(* expressions table: values are dicts, so entries present on both sides recurse (a no-op) *)
Definition sd_merge (s : sdict) (m : list (key * tree)) (other : option sdict) : sdict :=
  let d := merge_kvs (S (depth (Dict m))) (Some (sd_expr s)) (sd_data s) m in
  let s1 := match other with
            | Some o => mkSD d (tmerge (sd_lc s) (sd_lc o)) (tmerge (sd_bc s) (sd_bc o))
                             (tmerge (sd_inc s) (sd_inc o)) (tmerge (sd_expr s) (sd_expr o))
            | None => mkSD d (sd_lc s) (sd_bc s) (sd_inc s) (sd_expr s)
            end in
  sd_clean s1.

(* SDict.order_keys *)
Section TSort.
  Context {V : Type}.
  Fixpoint tinsert (kv : N * V) (l : list (N * V)) : list (N * V) :=
    match l with
    | [] => [kv]
    | kv' :: l' => if N.leb (fst kv) (fst kv') then kv :: l else kv' :: tinsert kv l'
    end.
  Fixpoint tsort (l : list (N * V)) : list (N * V) :=
    match l with [] => [] | kv :: l' => tinsert kv (tsort l') end.
End TSort.
Definition sd_order (s : sdict) : sdict :=
  match order_tree (Dict (sd_data s)) with
  | Dict d => mkSD d (tsort (sd_lc s)) (tsort (sd_bc s)) (tsort (sd_inc s)) (tsort (sd_expr s))
  | _ => s
  end.

(* ---- operation histories (the dict API + merge) ------------------------------------------------ *)
Inductive sdop :=
  | OSet (k : key) (v : tree)
  | ODel (k : key)
  | OUpdate (m : list (key * tree)) (o : option sdict)   (* update(m) / |= m ; o = tables when m is an SDict *)
  | OOr (m : list (key * tree)) (o : option sdict)       (* self = self | m *)
  | ORor (m : list (key * tree))                         (* self = m | self, m a plain dict *)
  | OPop (k : key)
  | OSetdefault (k : key) (v : tree)
  | OClear
  | OCopy                                                (* self = self.copy() *)
  | OCtor                                                (* self = SDict(self) : data only *)
  | OMerge (m : list (key * tree)) (o : option sdict).

Definition sd_step (s : sdict) (op : sdop) : res sdict :=
  match op with
  | OSet k v => Ok (sd_setitem s k v)
  | ODel k => sd_delitem s k
  | OUpdate m o => Ok (sd_update s m o)
  | OOr m o => Ok (sd_or s m o)
  | ORor m => Ok (sd_ror m s)
  | OPop k => sd_delitem s k
  | OSetdefault k v => Ok (sd_setdefault s k v)
  | OClear => Ok (sd_clear s)
  | OCopy => Ok (sd_clean s)
  | OCtor => Ok (mkSD (sd_data s) [] [] [] [])
  | OMerge m o => Ok (sd_merge s m o)
  end.

(* a raising operation leaves the state unchanged; the history continues *)
Definition sd_step' (s : sdict) (op : sdop) : sdict :=
  match sd_step s op with Ok s' => s' | Raise _ => s end.
Definition sd_run (s : sdict) (ops : list sdop) : sdict := fold_left sd_step' ops s.
(* states after every step *)
Fixpoint sd_trace (s : sdict) (ops : list sdop) : list (res sdict) :=
  match ops with
  | [] => []
  | op :: ops' => let r := sd_step s op in
                  r :: sd_trace (match r with Ok s' => s' | Raise _ => s end) ops'
  end.
