(* String utilities mirroring the few Python str / re operations the library uses. *)
From Coq Require Import NArith ZArith List Bool.
From DictIO Require Import Chars.
Import ListNotations.
Open Scope N_scope.

Fixpoint starts_with (p s : str) : bool :=
  match p, s with
  | [], _ => true
  | x :: p', y :: s' => N.eqb x y && starts_with p' s'
  | _ :: _, [] => false
  end.

Fixpoint drop_n {A} (n : nat) (l : list A) : list A :=
  match n, l with
  | O, _ => l
  | S n', [] => []
  | S n', _ :: l' => drop_n n' l'
  end.

(* Python s.replace(old, new) for non-empty old: leftmost, non-overlapping.  Structural on s:
   [skip] counts characters of a match still to be swallowed. *)
Fixpoint replace_go (old new : str) (skip : nat) (s : str) : str :=
  match s with
  | [] => []
  | c :: s' =>
      match skip with
      | S k => replace_go old new k s'
      | O => if starts_with old s
             then new ++ replace_go old new (Nat.pred (length old)) s'
             else c :: replace_go old new O s'
      end
  end.
Definition replace_all (old new s : str) : str :=
  match old with [] => s | _ => replace_go old new O s end.

(* first occurrence only (count=1) *)
Fixpoint replace_first (old new s : str) : str :=
  match s with
  | [] => []
  | c :: s' => if starts_with old s then new ++ drop_n (length old) s
               else c :: replace_first old new s'
  end.

Fixpoint contains (p s : str) : bool :=
  match s with
  | [] => match p with [] => true | _ => false end
  | _ :: s' => starts_with p s || contains p s'
  end.

Definition has_char (c : cp) (s : str) : bool := existsb (N.eqb c) s.

Fixpoint lstrip (s : str) : str :=
  match s with
  | c :: s' => if is_space c then lstrip s' else s
  | [] => []
  end.
Definition rstrip (s : str) : str := rev (lstrip (rev s)).
Definition strip (s : str) : str := rstrip (lstrip s).
Definition lower (s : str) : str := map to_lower s.

Fixpoint span (p : cp -> bool) (s : str) : str * str :=
  match s with
  | c :: s' => if p c then let (a, b) := span p s' in (c :: a, b) else ([], s)
  | [] => ([], [])
  end.

(* re.split(r"\s", s) : every white-space character separates (empty fields kept) *)
Fixpoint split_ws_go (cur : str) (s : str) : list str :=
  match s with
  | [] => [rev cur]
  | c :: s' => if is_space c then rev cur :: split_ws_go [] s' else split_ws_go (c :: cur) s'
  end.
Definition split_ws (s : str) : list str := split_ws_go [] s.

Fixpoint join (sep : str) (l : list str) : str :=
  match l with
  | [] => []
  | [x] => x
  | x :: l' => x ++ sep ++ join sep l'
  end.

(* decimal rendering of numbers (Python str(int)) *)
Fixpoint pos_digits_fuel (fuel : nat) (n : N) (acc : str) : str :=
  match fuel with
  | O => acc
  | S f => let d := 48 + n mod 10 in
           let q := n / 10 in
           if q =? 0 then d :: acc else pos_digits_fuel f q (d :: acc)
  end.
Definition N_to_dec (n : N) : str := pos_digits_fuel (S (N.to_nat (N.log2 n))) n [].
Definition Z_to_dec (z : Z) : str :=
  match z with
  | Z0 => [48]
  | Zpos p => N_to_dec (Npos p)
  | Zneg p => c_minus :: N_to_dec (Npos p)
  end.
Definition dec_to_N (s : str) : N := fold_left (fun acc c => 10 * acc + digit_val c) s 0.

Definition Z_of_dec (s : str) : Z :=
  match s with
  | c :: r => if c =? c_minus then Z.opp (Z.of_N (dec_to_N r))
              else if c =? c_plus then Z.of_N (dec_to_N r) else Z.of_N (dec_to_N s)
  | [] => 0%Z
  end.

(* zero padded, width 6 (f"{i:06d}") *)
Definition pad6 (n : N) : str :=
  let d := N_to_dec n in
  repeat 48 (6 - length d) ++ d.
