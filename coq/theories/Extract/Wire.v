(* The wire format of ocaml/driver.ml, printer side, written in Gallina.
   Used by the extraction cross-check (harness/coqeval.py): a sample of the cases every check sends to the extracted
   OCaml model is evaluated a second time INSIDE Coq (vm_compute on the model's own definitions, no extraction, no
   hand-written OCaml glue) and must print the very line the extracted program printed.  Not extracted, not part of the
   model; nothing is proved about it. *)
From Coq Require Import String.
From Coq Require Import NArith ZArith List Bool.
From DictIO Require Import Chars Str Value Scalar KeyPath SDict Layout Lexer TokParser Reader Expr Eval Cli Parse Paths Xml.
Import ListNotations.
Open Scope N_scope.

Definition sp : str := [32].
Fixpoint cps (l : str) : str :=
  match l with
  | [] => []
  | [c] => N_to_dec c
  | c :: r => N_to_dec c ++ [44] ++ cps r
  end.
Definition w_str (l : str) : str := [115] ++ cps l.                       (* s *)
Definition w_int (z : Z) : str := [105] ++ Z_to_dec z.                     (* i *)
Definition w_n (n : N) : str := [117] ++ N_to_dec n.                       (* u *)
Definition w_nat (n : nat) : str := w_n (N.of_nat n).
Definition w_bool (b : bool) : str := if b then of_string "b1" else of_string "b0".
Definition w_scalar (v : scalar) : str :=
  match v with
  | SInt z => w_int z
  | SFloat l => [102] ++ cps l
  | SBool b => w_bool b
  | SNone => [110]
  | SStr l => w_str l
  end.
Definition w_key (k : key) : str :=
  match k with KI z => of_string "ki" ++ Z_to_dec z | KS l => of_string "ks" ++ cps l end.
Fixpoint w_tree (t : tree) : str :=
  match t with
  | Leaf v => w_scalar v
  | Dict kvs => [68] ++ N_to_dec (N.of_nat (length kvs)) ++
                (fix go (l : list (key * tree)) : str :=
                   match l with [] => [] | (k, v) :: r => sp ++ w_key k ++ sp ++ w_tree v ++ go r end) kvs
  | Lst ts => [76] ++ N_to_dec (N.of_nat (length ts)) ++
              (fix go (l : list tree) : str := match l with [] => [] | v :: r => sp ++ w_tree v ++ go r end) ts
  end.
Definition w_list {A} (f : A -> str) (l : list A) : str :=
  [108] ++ N_to_dec (N.of_nat (length l)) ++ flat_map (fun x => sp ++ f x) l.
Definition w_opt {A} (f : A -> str) (o : option A) : str :=
  match o with None => of_string "none" | Some x => of_string "some " ++ f x end.
Definition w_res {A} (f : A -> str) (x : res A) : str :=
  match x with Ok a => of_string "ok " ++ f a | Raise e => of_string "raise " ++ N_to_dec e end.
Definition w_tab {A} (f : A -> str) (l : list (N * A)) : str :=
  [84] ++ N_to_dec (N.of_nat (length l)) ++ flat_map (fun iv => sp ++ w_n (fst iv) ++ sp ++ f (snd iv)) l.
Definition w_sdict (s : sdict) : str :=
  of_string "SD " ++ w_tree (Dict (sd_data s)) ++ sp ++
  w_tab w_str (sd_lc s) ++ sp ++ w_tab w_str (sd_bc s) ++ sp ++
  w_tab (fun e : include_entry => let '(a, b, c) := e in w_str a ++ sp ++ w_str b ++ sp ++ w_str c) (sd_inc s) ++ sp ++
  w_tab (fun e : expr_entry => let '(a, b) := e in w_str a ++ sp ++ w_str b) (sd_expr s).
Definition w_sd_count (x : sdict * Z) : str := w_sdict (fst x) ++ sp ++ w_int (snd x).
Definition w_parsed (p : parsed) : str := w_sdict (pr_sd p) ++ sp ++ w_int (pr_count p).
Definition w_outside {A} (f : A -> str) (o : option A) : str :=
  match o with None => of_string "outside" | Some x => f x end.
Definition w_lexed (lx : lexed) : str :=
  w_list w_str (lxd_tokens lx) ++ sp ++ w_int (lxd_count lx) ++ sp ++ w_tab w_str (lxd_lit lx).
Definition w_pyeval (r : Eval.evres) : str :=
  match r with
  | Eval.EvInt z => of_string "int " ++ w_int z
  | Eval.EvSyntax => of_string "syntax"
  | Eval.EvOutside => of_string "outside"
  end.
Definition w_resolved (r : Expr.rres) : str :=
  match r with
  | Expr.RNone => of_string "none"
  | Expr.RVal t => of_string "some " ++ w_tree t
  | Expr.ROutside => of_string "outside"
  | Expr.RFuel => of_string "fuel"
  end.
Fixpoint w_elem (e : elem) : str :=
  match e with
  | Elem tag attrs text kids =>
      of_string "E " ++ w_str tag ++ sp ++ w_list (fun ab : str * str => w_str (fst ab) ++ sp ++ w_str (snd ab)) attrs ++ sp ++
      w_opt w_str text ++ sp ++
      [108] ++ N_to_dec (N.of_nat (length kids)) ++
      (fix go (l : list elem) : str := match l with [] => [] | k :: r => sp ++ w_elem k ++ go r end) kids
  end.
