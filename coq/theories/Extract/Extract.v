(* Extraction of the executable model to OCaml (ExtrOcamlBasic only; N, Z, positive, nat stay datatypes). *)
Require Extraction.
Require Import ExtrOcamlBasic.
From DictIO Require Import Chars Str Value Scalar KeyPath SDict Layout Lexer TokParser Reader Expr Eval Cli Parse Paths Xml.
Extraction Blacklist String List Nat Bool Str.
Cd "../ocaml/extracted".
Separate Extraction
  Chars.of_string Str.Z_to_dec Str.Z_of_dec Str.dec_to_N Str.N_to_dec
  Value.tree_eqb
  Scalar.parse_value Scalar.parse_scalar Scalar.remove_quotes Scalar.format_scalar Scalar.foam_format_scalar
  Scalar.format_key Scalar.py_float_ok Scalar.py_int_ok Scalar.scalar_to_key
  KeyPath.find_global_key KeyPath.set_global_key KeyPath.key_exists KeyPath.reduce_scope KeyPath.order_tree
  KeyPath.get_path KeyPath.py_str
  SDict.sd_trace SDict.sd_clean SDict.sd_order SDict.sd_merge SDict.sd_update
  Layout.to_string_plain Layout.foam_to_string_plain Layout.to_string_sd Layout.foam_to_string_sd
  Lexer.lex TokParser.parse_tokens TokParser.parse_string TokParser.levels
  Reader.read_plain Reader.json_parse Reader.norm_path Reader.write_text Reader.writer_run
  Expr.variables_of Expr.resolve_reference Expr.subst_refs Expr.py_str_tree
  Eval.read_full Eval.pyeval
  Parse.parse_model Parse.read_opts
  Cli.cli_kwargs Cli.validate_scope Cli.target_file_name
  Paths.relative_path Paths.norm_join Paths.common_prefix_all Paths.include_directive_text Paths.directive_name Paths.sd_include
  Xml.xml_parse Xml.populate Xml.parse_doc Xml.format_doc.
Cd "../../coq".
