(* placeholder until the proofs are integrated *)
From DictIO Require Import Chars Str Value Scalar.
Theorem C05_placeholder : True. Proof. exact I. Qed.
Print Assumptions C05_placeholder.
