(* C05  References and expressions: token-wise substitution, prefix safety, termination of reference resolution. *)
From Coq Require Import String.
From Coq Require Import NArith ZArith List Bool.
From DictIO Require Import Chars Str Value Scalar SDict Expr TreeSpec MiscSpec LayoutSpec SemProofs.
Import ListNotations.

(* for the non-vacuity examples: [word_name] of a concrete name, a concrete [<] on nat *)
Ltac word_name_tac := split; [discriminate | repeat (constructor; [reflexivity|]); constructor].
Ltac lt_tac := apply PeanoNat.Nat.ltb_lt; vm_compute; reflexivity.

(* a reference is replaced as a whole token and the value is inserted literally *)
Theorem C05_subst_whole_token : forall name val post fuel, word_name name ->
  (match post with c :: _ => is_word c = false /\ c <> c_lbrk | [] => True end) ->
  (length (ref_of name ++ post) < fuel)%nat ->
  subst_token fuel (ref_of name) val (ref_of name ++ post) =
  val ++ subst_token (fuel - 1) (ref_of name) val post.
Proof. exact subst_whole_token. Qed.
Print Assumptions C05_subst_whole_token.

(* non-vacuity: the reference $ab in front of an expression that also mentions the longer name $abc and the indexed
   $ab[0]; the fuel is the one subst_refs uses (length + 1).  The second part evaluates the whole substitution. *)
Example C05_subst_whole_token_nonvacuous :
  let name := of_string "ab" in let val := of_string "[1, 2]" in let post := of_string " + $abc * $ab[0] - $ab" in
  let fuel := S (length (ref_of name ++ post)) in
  word_name name /\
  (match post with c :: _ => is_word c = false /\ c <> c_lbrk | [] => True end) /\
  (length (ref_of name ++ post) < fuel)%nat /\
  subst_token fuel (ref_of name) val (ref_of name ++ post) = val ++ subst_token (fuel - 1) (ref_of name) val post /\
  subst_token fuel (ref_of name) val (ref_of name ++ post) = of_string "[1, 2] + $abc * $ab[0] - [1, 2]".
Proof.
  intros name val post fuel.
  assert (H1 : word_name name) by word_name_tac.
  assert (H2 : match post with c :: _ => is_word c = false /\ c <> c_lbrk | [] => True end)
    by (split; [reflexivity | discriminate]).
  assert (H3 : (length (ref_of name ++ post) < fuel)%nat) by lt_tac.
  refine (conj H1 (conj H2 (conj H3 (conj (C05_subst_whole_token name val post fuel H1 H2 H3) _)))).
  vm_compute. reflexivity.
Qed.

(* a variable name that is a prefix of another one is not substituted inside the longer reference *)
Theorem C05_prefix_safe : forall a more val fuel, word_name a -> word_name more ->
  (length (ref_of (a ++ more)) < fuel)%nat ->
  subst_token fuel (ref_of a) val (ref_of (a ++ more)) = ref_of (a ++ more).
Proof. exact subst_prefix_safe. Qed.
Print Assumptions C05_prefix_safe.

Example C05_prefix_safe_nonvacuous :
  let a := of_string "ab" in let more := of_string "c_1" in let val := of_string "7" in
  let fuel := S (length (ref_of (a ++ more))) in
  word_name a /\ word_name more /\ (length (ref_of (a ++ more)) < fuel)%nat /\
  subst_token fuel (ref_of a) val (ref_of (a ++ more)) = of_string "$abc_1".
Proof.
  intros a more val fuel.
  assert (H1 : word_name a) by word_name_tac. assert (H2 : word_name more) by word_name_tac.
  assert (H3 : (length (ref_of (a ++ more)) < fuel)%nat) by lt_tac.
  exact (conj H1 (conj H2 (conj H3 (C05_prefix_safe a more val fuel H1 H2 H3)))).
Qed.

(* text without the reference is left alone *)
Theorem C05_subst_absent : forall r val e fuel, r <> [] -> contains r e = false -> subst_token fuel r val e = e.
Proof. exact subst_absent. Qed.
Print Assumptions C05_subst_absent.

Example C05_subst_absent_nonvacuous :
  let r := of_string "$x" in let e := of_string "1 + $y * x$ - $ x" in
  r <> [] /\ contains r e = false /\ subst_token (S (length e)) r (of_string "7") e = e.
Proof.
  intros r e. assert (H1 : r <> []) by discriminate. assert (H2 : contains r e = false) by (vm_compute; reflexivity).
  exact (conj H1 (conj H2 (C05_subst_absent r _ e _ H1 H2))).
Qed.

(* reference resolution terminates on every variable table, including self- and mutually-referential ones
   (repaired resolver: the inner while-loop remembers the reference texts it has tried, follows plain references
   only, and an index applies to the value the chain ends in) *)
Theorem C05_resolve_terminates : forall vars r, resolve_reference vars r <> RFuel.
Proof. exact resolve_terminates. Qed.
Print Assumptions C05_resolve_terminates.

(* the table on which the unrepaired resolver looped for ever (resolving b[0] hands back "$b[0]" again) is now
   simply unresolved *)
Example C05_former_loop :
  let vars := [(KS (of_string "a"), Leaf (SStr (of_string "$b[0]")));
               (KS (of_string "b"), Leaf (SStr (of_string "$c")));
               (KS (of_string "c"), Lst [Leaf (SStr (of_string "$b[0]"))])] in
  resolve_reference vars (of_string "$a") = RNone.
Proof. vm_compute. reflexivity. Qed.

(* an unevaluated expression is not a value: x = [5, 6], a = "$x[0] + 1" *)
Example C05_expression_not_followed :
  let vars := [(KS (of_string "x"), Lst [Leaf (SInt 5); Leaf (SInt 6)]);
               (KS (of_string "a"), Leaf (SStr (of_string "$x[0] + 1")))] in
  resolve_reference vars (of_string "$a") = RNone.
Proof. vm_compute. reflexivity. Qed.

(* the index applies to the value the chain ends in: x = [5, 6], ab = "$x", abc = "$ab" *)
Example C05_index_end_of_chain :
  let vars := [(KS (of_string "x"), Lst [Leaf (SInt 5); Leaf (SInt 6)]);
               (KS (of_string "ab"), Leaf (SStr (of_string "$x")));
               (KS (of_string "abc"), Leaf (SStr (of_string "$ab")))] in
  resolve_reference vars (of_string "$abc[1]") = RVal (Leaf (SInt 6)).
Proof. vm_compute. reflexivity. Qed.

(* an undeclared name is unresolved *)
Theorem C05_undeclared : forall vars r, alookup (KS (ref_name r)) vars = None -> resolve_reference vars r = RNone.
Proof. exact resolve_undeclared. Qed.
Print Assumptions C05_undeclared.

Example C05_undeclared_nonvacuous :
  let vars := [(KS (of_string "x"), Lst [Leaf (SInt 5); Leaf (SInt 6)]); (KS (of_string "ab"), Leaf (SStr (of_string "$x")))] in
  let r := of_string "$a[0]" in
  alookup (KS (ref_name r)) vars = None /\ resolve_reference vars r = RNone.
Proof.
  intros vars r. assert (H : alookup (KS (ref_name r)) vars = None) by (vm_compute; reflexivity).
  exact (conj H (C05_undeclared vars r H)).
Qed.

Example C05_cycle :
  let vars := [(KS (of_string "b"), Leaf (SStr (of_string "$c"))); (KS (of_string "c"), Leaf (SStr (of_string "$b")))] in
  resolve_reference vars (of_string "$b") = RNone /\ resolve_reference vars (of_string "$c") = RNone.
Proof. vm_compute. split; reflexivity. Qed.

(* ================================================================================================ *)
(* Expressions: the evaluator, the loop, flat documents                                             *)
(* ================================================================================================ *)
From Coq Require Import Permutation.
From DictIO Require Import KeyPath SDict Layout Lexer TokParser Reader Eval EvalSpec FlatSpec ArithProofs EvalProofs.

(* ---- 1. the evaluator means arithmetic --------------------------------------------------------------- *)
(* [render_in rho g a]: the expression a written with the blanks g, every reference replaced by the decimal text of
   its (possibly negative) value; eval of that text is the arithmetic value *)
Theorem C05_pyeval_arith : forall (g : nat -> str) (rho : str -> option Z) (env : str -> Z) (a : aexp),
  blank_fn g -> (forall x, In x (avars a) -> rho x = Some (env x)) ->
  pyeval (render_in rho g a) = EvInt (aeval env a).
Proof. exact pyeval_render_in. Qed.
Print Assumptions C05_pyeval_arith.

Definition ex_rv (s : string) : aexp := AVar (of_string s).
(* 2 * ($a + 3) - -($ab * 10)  with a = -4, ab = 7; two blanks (a space and a tab) in front of every odd token *)
Definition ex_a : aexp :=
  ASub (AMul (ANum 2) (AAdd (ex_rv "a") (ANum 3))) (ANeg (APar (AMul (ex_rv "ab") (ANum 10)))).
Definition ex_rho : str -> option Z := fun x =>
  if str_eqb x (of_string "a") then Some (-4)%Z else if str_eqb x (of_string "ab") then Some 7%Z else None.
Definition ex_g : nat -> str := fun i => if Nat.even i then [] else [c_sp; c_tab].

Example C05_pyeval_arith_nonvacuous :
  let env := fun x => match ex_rho x with Some v => v | None => 0%Z end in
  blank_fn ex_g /\ (forall x, In x (avars ex_a) -> ex_rho x = Some (env x)) /\
  render g_tight ex_a = of_string "2*($a+3)--($ab*10)" /\
  render_in ex_rho g_tight ex_a = of_string "2*(-4+3)--(7*10)" /\
  pyeval (render_in ex_rho g_tight ex_a) = EvInt (aeval env ex_a) /\
  pyeval (render_in ex_rho ex_g ex_a) = EvInt (aeval env ex_a) /\
  aeval env ex_a = 68%Z.
Proof.
  intro env.
  assert (H1 : blank_fn ex_g) by (intro i; unfold ex_g; destruct (Nat.even i); reflexivity).
  assert (H0 : blank_fn g_tight) by (intro i; reflexivity).
  assert (H2 : forall x, In x (avars ex_a) -> ex_rho x = Some (env x)).
  { intros x Hx. unfold ex_a, ex_rv in Hx. cbn [avars app In] in Hx.
    destruct Hx as [Hx|[Hx|[]]]; subst x; reflexivity. }
  refine (conj H1 (conj H2 (conj _ (conj _ (conj (C05_pyeval_arith g_tight ex_rho env ex_a H0 H2)
                                                 (conj (C05_pyeval_arith ex_g ex_rho env ex_a H1 H2) _)))))).
  - vm_compute. reflexivity.
  - vm_compute. reflexivity.
  - vm_compute. reflexivity.
Qed.

(* without references *)
Theorem C05_pyeval_arith_closed : forall g env a, blank_fn g -> avars a = [] -> pyeval (render g a) = EvInt (aeval env a).
Proof. exact pyeval_render_closed. Qed.
Print Assumptions C05_pyeval_arith_closed.

Example C05_pyeval_arith_closed_nonvacuous :
  let a := AMul (ASub (ANum 1) (ANum 12)) (APos (ANeg (ANum 3))) in
  blank_fn g_spaced /\ avars a = [] /\ render g_spaced a = of_string "( 1 - 12 ) * + - 3 " /\
  pyeval (render g_spaced a) = EvInt 33.
Proof.
  intro a. assert (H1 : blank_fn g_spaced) by (intro i; destruct i; reflexivity).
  assert (H2 : avars a = []) by reflexivity.
  refine (conj H1 (conj H2 (conj _ (C05_pyeval_arith_closed g_spaced (fun _ => 0%Z) a H1 H2)))).
  vm_compute. reflexivity.
Qed.

(* the evaluator never stops for lack of fuel: [pyevalG d1 d2 k] is pyeval with d1 more fuel for the lexer, d2 more
   for the parser and k more for each of its inner loops (peG is pe with that extra inner fuel) *)
Theorem C05_pyeval_total : forall d1 d2 k s, pyevalG d1 d2 k s = pyeval s.
Proof. exact pyeval_total. Qed.
Print Assumptions C05_pyeval_total.

Example C05_pyeval_total_nonvacuous :
  pyevalG 3 5 2 (of_string "1 + 2 * (3 - -4)") = EvInt 15 /\ pyevalG 0 0 0 (of_string "1 +") = EvSyntax /\
  pyevalG 7 0 1 (of_string "2 ** 3") = EvOutside.
Proof. rewrite !C05_pyeval_total. vm_compute. repeat split; reflexivity. Qed.

(* ---- 2. the loop ---------------------------------------------------------------------------------------- *)
(* more fuel than (unresolved + 1) changes nothing, and the answer is the one of the fuel-free loop [loop_rel] *)
Theorem C05_loop_terminates : forall f s resolved u, (S u <= f)%nat ->
  eval_loop f s resolved u = eval_loop (S u) s resolved u /\ loop_rel s resolved u (eval_loop f s resolved u).
Proof. exact loop_terminates. Qed.
Print Assumptions C05_loop_terminates.

(* an exception that eval_expressions answers -- E_Fuel included -- was raised by an insert_result call *)
Theorem C05_loop_raise : forall s e, eval_expressions s = Some (Raise e) ->
  exists fuel ph v d, insert_result fuel ph v d = Raise e.
Proof. exact eval_expressions_raise. Qed.
Print Assumptions C05_loop_raise.

(* c = "$ab * ( $a - 5 )"  a = 3  ab = "$a+2*$a"  e = "- $c - $ab"  n = -4  m = "$n*$n" *)
Definition ex_doc : fdoc :=
  [ (of_string "c", FExp 1 g_spaced (AMul (ex_rv "ab") (APar (ASub (ex_rv "a") (ANum 5)))));
    (of_string "a", FInt 3);
    (of_string "ab", FExp 2 g_tight (AAdd (ex_rv "a") (AMul (ANum 2) (ex_rv "a"))));
    (of_string "e", FExp 3 g_spaced (ASub (ANeg (ex_rv "c")) (ex_rv "ab")));
    (of_string "n", FInt (-4));
    (of_string "m", FExp 4 g_tight (AMul (ex_rv "n") (ex_rv "n"))) ].
(* ... and  u = "$zz + $a"  with zz undeclared *)
Definition ex_doc_u : fdoc := ex_doc ++ [ (of_string "u", FExp 5 g_spaced (AAdd (ex_rv "zz") (ex_rv "a"))) ].

Example C05_loop_terminates_nonvacuous :
  let s := flat_sdict ex_doc_u [] [] [] in
  exists resolved u s',
    resolve_all s = Some (resolved, u) /\ (S u <= 40)%nat /\
    eval_loop 40 s resolved u = eval_loop (S u) s resolved u /\ eval_loop (S u) s resolved u = Some (Ok s') /\
    length (sd_expr s) = 5%nat /\ length (sd_expr s') = 1%nat.
Proof.
  intro s. destruct (resolve_all s) as [[resolved u]|] eqn:Er; [|vm_compute in Er; discriminate].
  assert (Hu : u = 3%nat) by (vm_compute in Er; inversion Er; reflexivity).
  assert (Hle : (S u <= 40)%nat) by (rewrite Hu; repeat constructor).
  destruct (eval_loop (S u) s resolved u) as [[s'|e]|] eqn:El.
  - exists resolved, u, s'. split; [first [exact Er | reflexivity]|]. split; [exact Hle|].
    split; [apply (C05_loop_terminates 40 s resolved u Hle)|]. split; [first [exact El | reflexivity]|].
    split; [vm_compute; reflexivity|].
    vm_compute in Er. inversion Er; subst resolved u. vm_compute in El. inversion El; subst s'. vm_compute. reflexivity.
  - vm_compute in Er. inversion Er; subst resolved u. vm_compute in El. discriminate.
  - vm_compute in Er. inversion Er; subst resolved u. vm_compute in El. discriminate.
Qed.

(* the document on which the unrepaired library did not terminate: an unresolvable expression that mentions its own
   placeholder.  The repaired write-back loop (insert_result) stops after the insertion; the text is written back. *)
Example C05_former_hang :
  let s := mkSD [(KS (of_string "a"), Leaf (SStr (ph_of 0)))] [] [] []
                [(0%N, (of_string "$EXPRESSION000000 + 1", ph_of 0))] in
  eval_expressions s =
  Some (Ok (mkSD [(KS (of_string "a"), Leaf (SStr (of_string "$EXPRESSION000000 + 1")))] [] [] [] [])) /\
  (let fs : fsys := [(of_string "/w/root", FNative (of_string "a ""$EXPRESSION000000 + 1"";
"))] in
   read_full fs (of_string "/w/root") true (-1) =
   Some (Ok (mkSD [(KS (of_string "a"), Leaf (SStr (of_string "$EXPRESSION000000 + 1")))] [] [] [] [], 0%Z))).
Proof. vm_compute. split; reflexivity. Qed.

(* ---- 3. references that cannot be resolved ------------------------------------------------------------- *)
(* every pending expression has a dollar sign and refers to undeclared names only: the result is the input with every
   placeholder overwritten by the original text of its expression (back_insert of the input itself) *)
Theorem C05_unresolved_kept : forall s,
  NoDup (map fst (sd_expr s)) ->
  Forall (fun e => has_char c_dollar (fst (snd e)) = true) (sd_expr s) ->
  Forall (undeclared_in s) (all_refs (sd_expr s)) ->
  eval_expressions s = Some (back_insert s).
Proof. exact unresolved_kept_all. Qed.
Print Assumptions C05_unresolved_kept.

(* one pending expression: [inserted d .. ph v] is the data d with the placeholder ph overwritten by v *)
Theorem C05_unresolved_kept_one : forall d lc bc inc key e ph,
  has_char c_dollar e = true ->
  Forall (fun r => alookup (KS (ref_name r)) (variables_of (mkSD d lc bc inc [(key, (e, ph))])) = None) (expr_refs_of e) ->
  eval_expressions (mkSD d lc bc inc [(key, (e, ph))]) =
  Some (match insert_result (S (count_leaves (Dict d))) ph (Leaf (SStr e)) (Dict d) with
        | Ok (Dict d') => Ok (mkSD d' lc bc inc [])
        | Ok _ => Ok (mkSD d lc bc inc [])
        | Raise er => Raise er
        end).
Proof. exact unresolved_kept_one. Qed.
Print Assumptions C05_unresolved_kept_one.

(* nested data, two expressions, references to undeclared names, to a name that exists only as a list index, and an
   indexed one; a self reference is "undeclared" as well (variables_of drops the circular entry) *)
Example C05_unresolved_kept_nonvacuous :
  let d := [(KS (of_string "a"), Leaf (SStr (ph_of 0)));
            (KS (of_string "sub"), Dict [(KS (of_string "b"), Leaf (SStr (ph_of 1))); (KS (of_string "k"), Leaf (SInt 1))]);
            (KS (of_string "l"), Lst [Leaf (SInt 5)])] in
  let s := mkSD d [] [] [] [(0%N, (of_string "$zz + $a * 2", ph_of 0)); (1%N, (of_string "$yy[0]", ph_of 1))] in
  NoDup (map fst (sd_expr s)) /\
  Forall (fun e => has_char c_dollar (fst (snd e)) = true) (sd_expr s) /\
  Forall (undeclared_in s) (all_refs (sd_expr s)) /\
  eval_expressions s = Some (back_insert s) /\
  back_insert s = Ok (mkSD [(KS (of_string "a"), Leaf (SStr (of_string "$zz + $a * 2")));
                            (KS (of_string "sub"), Dict [(KS (of_string "b"), Leaf (SStr (of_string "$yy[0]")));
                                                         (KS (of_string "k"), Leaf (SInt 1))]);
                            (KS (of_string "l"), Lst [Leaf (SInt 5)])] [] [] [] []).
Proof.
  intros d s.
  assert (H1 : NoDup (map fst (sd_expr s))).
  { cbn. constructor; [intros [H|[]]; discriminate H|]. constructor; [intros []|constructor]. }
  assert (H2 : Forall (fun e => has_char c_dollar (fst (snd e)) = true) (sd_expr s)).
  { cbn [s sd_expr]. repeat (constructor; [vm_compute; reflexivity|]). constructor. }
  assert (H3 : Forall (undeclared_in s) (all_refs (sd_expr s))).
  { assert (E : all_refs (sd_expr s) = [of_string "$zz"; of_string "$a"; of_string "$yy[0]"]) by (vm_compute; reflexivity).
    rewrite E. repeat (constructor; [vm_compute; reflexivity|]). constructor. }
  refine (conj H1 (conj H2 (conj H3 (conj (C05_unresolved_kept s H1 H2 H3) _)))).
  vm_compute. reflexivity.
Qed.

(* ---- a single reference / a single expression in arbitrary data -------------------------------------------- *)
(* a plain (possibly indexed) reference takes the value -- of whatever type -- the reference resolves to *)
Theorem C05_plain_reference : forall d lc bc inc key e ph resolved u t,
  resolve_all (mkSD d lc bc inc [(key, (e, ph))]) = Some (resolved, u) ->
  is_plain_reference (strip e) = true ->
  rlookup (strip e) resolved = Some t ->
  eval_expressions (mkSD d lc bc inc [(key, (e, ph))]) = Some (inserted d lc bc inc ph t).
Proof. exact plain_reference_one. Qed.
Print Assumptions C05_plain_reference.

Example C05_plain_reference_nonvacuous :
  let d := [(KS (of_string "x"), Lst [Leaf (SInt 5); Lst [Leaf (SStr (of_string "six")); Leaf (SBool true)]]);
            (KS (of_string "sub"), Dict [(KS (of_string "b"), Leaf (SStr (ph_of 3)))])] in
  let e := of_string " $x[1] " in
  let t := Lst [Leaf (SStr (of_string "six")); Leaf (SBool true)] in
  let resolved := [(of_string "$x[1]", t)] in
  resolve_all (mkSD d [] [] [] [(3%N, (e, ph_of 3))]) = Some (resolved, 0%nat) /\
  is_plain_reference (strip e) = true /\ rlookup (strip e) resolved = Some t /\
  eval_expressions (mkSD d [] [] [] [(3%N, (e, ph_of 3))]) = Some (inserted d [] [] [] (ph_of 3) t) /\
  inserted d [] [] [] (ph_of 3) t =
    Ok (mkSD [(KS (of_string "x"), Lst [Leaf (SInt 5); Lst [Leaf (SStr (of_string "six")); Leaf (SBool true)]]);
              (KS (of_string "sub"), Dict [(KS (of_string "b"), t)])] [] [] [] []).
Proof.
  intros d e t resolved.
  assert (H1 : resolve_all (mkSD d [] [] [] [(3%N, (e, ph_of 3))]) = Some (resolved, 0%nat)) by (vm_compute; reflexivity).
  assert (H2 : is_plain_reference (strip e) = true) by (vm_compute; reflexivity).
  assert (H3 : rlookup (strip e) resolved = Some t) by (vm_compute; reflexivity).
  refine (conj H1 (conj H2 (conj H3 (conj (C05_plain_reference d [] [] [] 3%N e (ph_of 3) resolved 0%nat t H1 H2 H3) _)))).
  vm_compute. reflexivity.
Qed.

(* an expression whose references are all resolved takes the value of the substituted text *)
Theorem C05_expression_value : forall d lc bc inc key e ph resolved u z,
  resolve_all (mkSD d lc bc inc [(key, (e, ph))]) = Some (resolved, u) ->
  (if is_plain_reference (strip e) then rlookup (strip e) resolved else None) = None ->
  has_char c_dollar (substitute resolved e) = false ->
  pyeval (substitute resolved e) = EvInt z ->
  eval_expressions (mkSD d lc bc inc [(key, (e, ph))]) = Some (inserted d lc bc inc ph (Leaf (SInt z))).
Proof. exact expression_one. Qed.
Print Assumptions C05_expression_value.

Example C05_expression_value_nonvacuous :
  let d := [(KS (of_string "x"), Lst [Leaf (SInt 5); Leaf (SInt 7)]); (KS (of_string "xa"), Leaf (SInt (-2)));
            (KS (of_string "b"), Leaf (SStr (ph_of 3)))] in
  let e := of_string "$x[1] * ($xa - $x[0]) + $xa" in
  let resolved := [(of_string "$x[1]", Leaf (SInt 7)); (of_string "$xa", Leaf (SInt (-2))); (of_string "$x[0]", Leaf (SInt 5))] in
  resolve_all (mkSD d [] [] [] [(3%N, (e, ph_of 3))]) = Some (resolved, 0%nat) /\
  substitute resolved e = of_string "7 * (-2 - 5) + -2" /\
  eval_expressions (mkSD d [] [] [] [(3%N, (e, ph_of 3))]) = Some (inserted d [] [] [] (ph_of 3) (Leaf (SInt (-51)))) /\
  inserted d [] [] [] (ph_of 3) (Leaf (SInt (-51))) =
    Ok (mkSD [(KS (of_string "x"), Lst [Leaf (SInt 5); Leaf (SInt 7)]); (KS (of_string "xa"), Leaf (SInt (-2)));
              (KS (of_string "b"), Leaf (SInt (-51)))] [] [] [] []).
Proof.
  intros d e resolved.
  assert (H1 : resolve_all (mkSD d [] [] [] [(3%N, (e, ph_of 3))]) = Some (resolved, 0%nat)) by (vm_compute; reflexivity).
  assert (H2 : (if is_plain_reference (strip e) then rlookup (strip e) resolved else None) = None) by (vm_compute; reflexivity).
  assert (H3 : has_char c_dollar (substitute resolved e) = false) by (vm_compute; reflexivity).
  assert (H4 : pyeval (substitute resolved e) = EvInt (-51)) by (vm_compute; reflexivity).
  refine (conj H1 (conj _ (conj (C05_expression_value d [] [] [] 3%N e (ph_of 3) resolved 0%nat (-51)%Z H1 H2 H3 H4) _))).
  - vm_compute. reflexivity.
  - vm_compute. reflexivity.
Qed.

(* ---- 4. flat documents: the reader computes the direct recursive evaluation ---------------------------------- *)
(* [flat_sdict d]: the SDict the parser delivers for the flat document d; [denote d x]: the value of x by direct
   recursion (depth: number of entries + 1); [total_doc d]: that recursion succeeds on every name; [fdoc_ok d]:
   distinct names, distinct ids below 10^6, every expression has blanks-only layout, word-character references,
   at least one reference, and is not a bare reference *)
Theorem C05_direct_value : forall d lc bc inc, fdoc_ok d -> total_doc d = true ->
  exists s', eval_expressions (flat_sdict d lc bc inc) = Some (Ok s') /\
             sd_expr s' = [] /\ map fst (sd_data s') = map KS (map fst d) /\
             (forall x v, In x (map fst d) -> denote d x = Some v -> alookup (KS x) (sd_data s') = Some (Leaf (SInt v))).
Proof. exact direct_value. Qed.
Print Assumptions C05_direct_value.

Ltac nodup_tac :=
  repeat (apply NoDup_cons; [cbn [In]; let H := fresh "H" in intro H; repeat (destruct H as [H|H]; [discriminate H|]); exact H|]);
  apply NoDup_nil.
Ltac words_tac := repeat (constructor; [word_name_tac|]); constructor.
Ltac fexp_tac :=
  match goal with
  | |- fexp_ok (FInt _) => exact I
  | |- fexp_ok (FExp _ _ _) =>
      unfold ex_rv; cbn [fexp_ok avars app];
      split; [reflexivity|]; split; [let i := fresh "i" in intro i; destruct i; reflexivity|];
      split; [words_tac|]; split; [discriminate|]; let x := fresh "x" in intro x; discriminate
  end.
Ltac fdoc_ok_tac :=
  split; [cbn [map fst app]; nodup_tac|];
  split; [cbn [fexp_ids flat_map snd app]; nodup_tac|];
  cbn [map snd app]; repeat (constructor; [fexp_tac|]); constructor.

Lemma ex_doc_ok : fdoc_ok ex_doc.
Proof. unfold ex_doc. fdoc_ok_tac. Qed.
Lemma ex_doc_u_ok : fdoc_ok ex_doc_u.
Proof. unfold ex_doc_u, ex_doc. fdoc_ok_tac. Qed.

(* a prefix pair of names (a, ab), forward references (c refers to ab and a declared later), depth 3 (e -> c -> ab
   -> a), a negative value that is substituted (n), two layouts *)
Example C05_direct_value_nonvacuous :
  fdoc_ok ex_doc /\ total_doc ex_doc = true /\
  exists s', eval_expressions (flat_sdict ex_doc [] [] []) = Some (Ok s') /\ sd_expr s' = [] /\
    alookup (KS (of_string "c")) (sd_data s') = Some (Leaf (SInt (-18))) /\
    alookup (KS (of_string "a")) (sd_data s') = Some (Leaf (SInt 3)) /\
    alookup (KS (of_string "ab")) (sd_data s') = Some (Leaf (SInt 9)) /\
    alookup (KS (of_string "e")) (sd_data s') = Some (Leaf (SInt 9)) /\
    alookup (KS (of_string "n")) (sd_data s') = Some (Leaf (SInt (-4))) /\
    alookup (KS (of_string "m")) (sd_data s') = Some (Leaf (SInt 16)).
Proof.
  assert (Ht : total_doc ex_doc = true) by (vm_compute; reflexivity).
  refine (conj ex_doc_ok (conj Ht _)).
  destruct (C05_direct_value ex_doc [] [] [] ex_doc_ok Ht) as [s' [He [Hx [_ Hv]]]].
  exists s'. split; [exact He|]. split; [exact Hx|].
  repeat split; apply Hv; try (vm_compute; reflexivity); cbn [ex_doc map fst In]; tauto.
Qed.

(* the same holds for the text the real front end produces: parsing the file gives exactly [flat_sdict] of the document
   (ids 0 1 2 3 in the order of appearance; the layouts reproduce the blanks of the source) *)
Definition ex_g_in (n : nat) : nat -> str := fun i => if Nat.eqb i 0 || Nat.eqb i n then [] else [c_sp].
Definition ex_doc_file : fdoc :=
  [ (of_string "c", FExp 0 (ex_g_in 7) (AMul (ex_rv "ab") (APar (ASub (ex_rv "a") (ANum 5)))));
    (of_string "a", FInt 3);
    (of_string "ab", FExp 1 g_tight (AAdd (ex_rv "a") (AMul (ANum 2) (ex_rv "a"))));
    (of_string "e", FExp 2 (ex_g_in 4) (ASub (ANeg (ex_rv "c")) (ex_rv "ab")));
    (of_string "n", FInt (-4));
    (of_string "m", FExp 3 g_tight (AMul (ex_rv "n") (ex_rv "n"))) ].
Example C05_direct_value_reader :
  let text := of_string "c ""$ab * ( $a - 5 )"";
a 3;
ab ""$a+2*$a"";
e ""- $c - $ab"";
n -4;
m ""$n*$n"";
" in
  let fs : fsys := [(of_string "/w/root", FNative text)] in
  (exists pr, parse_unit true (of_string "/w/root") (-1) (FNative text) = Ok pr /\
              merge_includes fs true (pr_sd pr) (pr_count pr) = Ok (flat_sdict ex_doc_file [] [] [], 3%Z)) /\
  exists s', read_full fs (of_string "/w/root") true (-1) = Some (Ok (s', 3%Z)) /\
    alookup (KS (of_string "e")) (sd_data s') = Some (Leaf (SInt 9)) /\
    alookup (KS (of_string "m")) (sd_data s') = Some (Leaf (SInt 16)).
Proof.
  intros text fs.
  assert (Hok : fdoc_ok ex_doc_file).
  { unfold ex_doc_file. split; [cbn [map fst app]; nodup_tac|].
    split; [cbn [fexp_ids flat_map snd app]; nodup_tac|]. cbn [map snd app].
    repeat (constructor; [first [exact I | unfold ex_rv; cbn [fexp_ok avars app]; split; [reflexivity|]; split;
      [intro i; first [reflexivity | unfold ex_g_in; destruct (Nat.eqb i 0 || Nat.eqb i _); reflexivity]|];
      split; [words_tac|]; split; [discriminate|]; intro x; discriminate]|]). constructor. }
  assert (Ht : total_doc ex_doc_file = true) by (vm_compute; reflexivity).
  destruct (parse_unit true (of_string "/w/root") (-1) (FNative text)) as [pr|er] eqn:Ep; [|vm_compute in Ep; discriminate].
  assert (Hm : merge_includes fs true (pr_sd pr) (pr_count pr) = Ok (flat_sdict ex_doc_file [] [] [], 3%Z)).
  { vm_compute in Ep. inversion Ep; subst pr. vm_compute. reflexivity. }
  split; [exists pr; split; [reflexivity | exact Hm]|].
  destruct (C05_direct_value ex_doc_file [] [] [] Hok Ht) as [s' [He [_ [_ Hv]]]].
  exists s'. split.
  - unfold read_full. change (fs_lookup (norm_path (of_string "/w/root")) fs) with (Some (FNative text)).
    cbv iota beta. rewrite Ep, Hm, He. reflexivity.
  - split; apply Hv; try (vm_compute; reflexivity); cbn [ex_doc_file map fst In]; tauto.
Qed.

(* the direct evaluation, and with it what the reader computes, is independent of the order of the declarations *)
Theorem C05_order_independent : forall d d' lc bc inc, fdoc_ok d -> fdoc_ok d' -> Permutation d d' -> total_doc d = true ->
  exists s s', eval_expressions (flat_sdict d lc bc inc) = Some (Ok s) /\
               eval_expressions (flat_sdict d' lc bc inc) = Some (Ok s') /\
               forall x, alookup (KS x) (sd_data s) = alookup (KS x) (sd_data s').
Proof. exact order_independent. Qed.
Print Assumptions C05_order_independent.

Theorem C05_denote_order : forall d d' x, NoDup (map fst d) -> Permutation d d' -> denote d x = denote d' x.
Proof. exact denote_perm. Qed.
Print Assumptions C05_denote_order.

(* the reversed document: every use now comes before / after its declaration the other way round *)
Example C05_order_independent_nonvacuous :
  let d' := rev ex_doc in
  fdoc_ok ex_doc /\ fdoc_ok d' /\ Permutation ex_doc d' /\ total_doc ex_doc = true /\
  map fst d' = [of_string "m"; of_string "n"; of_string "e"; of_string "ab"; of_string "a"; of_string "c"] /\
  exists s s', eval_expressions (flat_sdict ex_doc [] [] []) = Some (Ok s) /\
               eval_expressions (flat_sdict d' [] [] []) = Some (Ok s') /\
               forall x, alookup (KS x) (sd_data s) = alookup (KS x) (sd_data s').
Proof.
  intro d'.
  assert (Hok' : fdoc_ok d') by (unfold d', ex_doc; cbn [rev app]; fdoc_ok_tac).
  assert (Hp : Permutation ex_doc d') by apply Permutation_rev.
  assert (Ht : total_doc ex_doc = true) by (vm_compute; reflexivity).
  refine (conj ex_doc_ok (conj Hok' (conj Hp (conj Ht (conj _ (C05_order_independent ex_doc d' [] [] [] ex_doc_ok Hok' Hp Ht)))))).
  reflexivity.
Qed.

(* direct evaluation is defined on every document whose references are declared and acyclic *)
Theorem C05_acyclic_total : forall d, NoDup (map fst d) -> forall rank, acyclic_doc d rank ->
  forall x, In x (map fst d) -> denote d x <> None.
Proof. exact acyclic_total. Qed.
Print Assumptions C05_acyclic_total.

Example C05_acyclic_total_nonvacuous :
  let rank := fun x => if str_eqb x (of_string "e") then 3%nat else if str_eqb x (of_string "c") then 2%nat
                       else if str_eqb x (of_string "ab") then 1%nat else if str_eqb x (of_string "m") then 1%nat else 0%nat in
  NoDup (map fst ex_doc) /\ acyclic_doc ex_doc rank /\ forall x, In x (map fst ex_doc) -> denote ex_doc x <> None.
Proof.
  intro rank. assert (H1 : NoDup (map fst ex_doc)) by apply ex_doc_ok.
  assert (H2 : acyclic_doc ex_doc rank).
  { intros x i g a Hin y Hy. unfold ex_doc, ex_rv in Hin. cbn [In] in Hin.
    repeat (destruct Hin as [Hin|Hin];
            [inversion Hin; subst; cbn [avars app In] in Hy;
             repeat (destruct Hy as [Hy|Hy]; [subst y; split; [cbn [ex_doc map fst In]; tauto | vm_compute; repeat constructor]|]);
             contradiction|]).
    contradiction. }
  exact (conj H1 (conj H2 (C05_acyclic_total ex_doc H1 rank H2))).
Qed.

(* the general flat result: whatever cannot be evaluated is written back as its text with the references resolved by
   then replaced ([final_data]); the values are the final ones of the direct evaluation.  [names_free]: no referenced
   name contains the word EXPRESSION (else the text of one expression may contain the placeholder of another one and
   be overwritten in its place, see C05_names_free_needed; termination does not need it: C05_flat_terminates) *)
Theorem C05_flat_result : forall d lc bc inc, fdoc_ok d -> names_free d ->
  exists m, (forall n x v, know d n x = Some v -> know d (S (S m)) x = Some v) /\
    eval_expressions (flat_sdict d lc bc inc) =
    Some (Ok (mkSD (final_data (know d (S m)) (know d (S (S m))) d) lc bc inc [])).
Proof. exact flat_result. Qed.
Print Assumptions C05_flat_result.

(* an expression that refers to undeclared names only keeps its original text, also among expressions that are
   evaluated *)
Theorem C05_unresolved_kept_flat : forall d lc bc inc, fdoc_ok d -> names_free d ->
  forall x i g a, In (x, FExp i g a) d -> (forall y, In y (avars a) -> flookup y d = None) ->
  exists s', eval_expressions (flat_sdict d lc bc inc) = Some (Ok s') /\
             alookup (KS x) (sd_data s') = Some (Leaf (SStr (render g a))) /\ sd_expr s' = [].
Proof. exact flat_unresolved_kept. Qed.
Print Assumptions C05_unresolved_kept_flat.

(* ex_doc, u = "$zz + $a" (zz undeclared, a = 3: the text is written back partly substituted) and
   w = "$zz * $yy" (nothing resolvable: the original text) *)
Definition ex_doc_w : fdoc := ex_doc_u ++ [ (of_string "w", FExp 6 g_spaced (AMul (ex_rv "zz") (ex_rv "yy"))) ].
Lemma ex_doc_w_ok : fdoc_ok ex_doc_w.
Proof. unfold ex_doc_w, ex_doc_u, ex_doc. fdoc_ok_tac. Qed.
Lemma ex_doc_w_free : names_free ex_doc_w.
Proof.
  intros x i g a Hin. unfold ex_doc_w, ex_doc_u, ex_doc, ex_rv in Hin. cbn [app In] in Hin.
  repeat (destruct Hin as [Hin|Hin];
          [inversion Hin; subst; cbn [avars app]; repeat (constructor; [vm_compute; reflexivity|]); constructor|]).
  contradiction.
Qed.

Example C05_flat_result_nonvacuous :
  fdoc_ok ex_doc_w /\ names_free ex_doc_w /\
  (exists s', eval_expressions (flat_sdict ex_doc_w [] [] []) = Some (Ok s') /\
              alookup (KS (of_string "w")) (sd_data s') = Some (Leaf (SStr (of_string "$zz * $yy "))) /\ sd_expr s' = []) /\
  eval_expressions (flat_sdict ex_doc_w [] [] []) =
  Some (Ok (mkSD [(KS (of_string "c"), Leaf (SInt (-18))); (KS (of_string "a"), Leaf (SInt 3));
                  (KS (of_string "ab"), Leaf (SInt 9)); (KS (of_string "e"), Leaf (SInt 9));
                  (KS (of_string "n"), Leaf (SInt (-4))); (KS (of_string "m"), Leaf (SInt 16));
                  (KS (of_string "u"), Leaf (SStr (of_string "$zz + 3 ")));
                  (KS (of_string "w"), Leaf (SStr (of_string "$zz * $yy ")))] [] [] [] [])).
Proof.
  refine (conj ex_doc_w_ok (conj ex_doc_w_free (conj _ _))).
  - assert (Hin : In (of_string "w", FExp 6 g_spaced (AMul (ex_rv "zz") (ex_rv "yy"))) ex_doc_w).
    { unfold ex_doc_w. apply in_or_app. right. left. reflexivity. }
    assert (Hu : forall y, In y (avars (AMul (ex_rv "zz") (ex_rv "yy"))) -> flookup y ex_doc_w = None).
    { intros y Hy. cbn [ex_rv avars app In] in Hy. destruct Hy as [Hy|[Hy|[]]]; subst y; vm_compute; reflexivity. }
    destruct (C05_unresolved_kept_flat ex_doc_w [] [] [] ex_doc_w_ok ex_doc_w_free _ _ _ _ Hin Hu) as [s' [He [Ha Hx]]].
    exists s'. split; [exact He|]. split; [|exact Hx]. rewrite Ha. vm_compute. reflexivity.
  - vm_compute. reflexivity.
Qed.

(* ... and so does one whose references never get a value: undeclared, self- or mutually referential names *)
Theorem C05_cyclic_kept_flat : forall d lc bc inc, fdoc_ok d -> names_free d ->
  forall x i g a, In (x, FExp i g a) d -> (forall y, In y (avars a) -> forall n, know d n y = None) ->
  exists s', eval_expressions (flat_sdict d lc bc inc) = Some (Ok s') /\
             alookup (KS x) (sd_data s') = Some (Leaf (SStr (render g a))) /\ sd_expr s' = [].
Proof. exact flat_never_known_kept. Qed.
Print Assumptions C05_cyclic_kept_flat.

(* a = 3   p = "$q + $a"   q = "$p*2"   s = "$s + 1"   r = "$a * $a" : p and q refer to each other, s to itself; reading
   terminates, r is evaluated, q and s keep their text, p is written back with the one resolvable reference replaced *)
Definition ex_doc_cyc : fdoc :=
  [ (of_string "a", FInt 3);
    (of_string "p", FExp 1 g_spaced (AAdd (ex_rv "q") (ex_rv "a")));
    (of_string "q", FExp 2 g_tight (AMul (ex_rv "p") (ANum 2)));
    (of_string "s", FExp 3 g_spaced (AAdd (ex_rv "s") (ANum 1)));
    (of_string "r", FExp 4 g_spaced (AMul (ex_rv "a") (ex_rv "a"))) ].

Example C05_cyclic_kept_flat_nonvacuous :
  fdoc_ok ex_doc_cyc /\ names_free ex_doc_cyc /\
  (forall n, know ex_doc_cyc n (of_string "p") = None /\ know ex_doc_cyc n (of_string "q") = None /\
             know ex_doc_cyc n (of_string "s") = None) /\
  (exists s', eval_expressions (flat_sdict ex_doc_cyc [] [] []) = Some (Ok s') /\
              alookup (KS (of_string "q")) (sd_data s') = Some (Leaf (SStr (of_string "$p*2"))) /\ sd_expr s' = []) /\
  (exists s', eval_expressions (flat_sdict ex_doc_cyc [] [] []) = Some (Ok s') /\
              alookup (KS (of_string "s")) (sd_data s') = Some (Leaf (SStr (of_string "$s + 1 "))) /\ sd_expr s' = []) /\
  eval_expressions (flat_sdict ex_doc_cyc [] [] []) =
  Some (Ok (mkSD [(KS (of_string "a"), Leaf (SInt 3)); (KS (of_string "p"), Leaf (SStr (of_string "$q + 3 ")));
                  (KS (of_string "q"), Leaf (SStr (of_string "$p*2"))); (KS (of_string "s"), Leaf (SStr (of_string "$s + 1 ")));
                  (KS (of_string "r"), Leaf (SInt 9))] [] [] [] [])).
Proof.
  assert (Hok : fdoc_ok ex_doc_cyc) by (unfold ex_doc_cyc; fdoc_ok_tac).
  assert (Hfree : names_free ex_doc_cyc).
  { intros x i g a Hin. unfold ex_doc_cyc, ex_rv in Hin. cbn [In] in Hin.
    repeat (destruct Hin as [Hin|Hin];
            [inversion Hin; subst; cbn [avars app]; repeat (constructor; [vm_compute; reflexivity|]); constructor|]).
    contradiction. }
  assert (Hn : forall n, know ex_doc_cyc n (of_string "p") = None /\ know ex_doc_cyc n (of_string "q") = None /\
                         know ex_doc_cyc n (of_string "s") = None).
  { induction n as [|n [IHp [IHq IHs]]]; [repeat split; reflexivity|].
    repeat split; cbn [know]; unfold kstep.
    - change (flookup (of_string "p") ex_doc_cyc) with (Some (FExp 1 g_spaced (AAdd (ex_rv "q") (ex_rv "a")))).
      unfold eval_in, known_all. cbn [ex_rv avars app forallb]. rewrite IHq. reflexivity.
    - change (flookup (of_string "q") ex_doc_cyc) with (Some (FExp 2 g_tight (AMul (ex_rv "p") (ANum 2)))).
      unfold eval_in, known_all. cbn [ex_rv avars app forallb]. rewrite IHp. reflexivity.
    - change (flookup (of_string "s") ex_doc_cyc) with (Some (FExp 3 g_spaced (AAdd (ex_rv "s") (ANum 1)))).
      unfold eval_in, known_all. cbn [ex_rv avars app forallb]. rewrite IHs. reflexivity. }
  refine (conj Hok (conj Hfree (conj Hn (conj _ (conj _ _))))).
  - assert (Hin : In (of_string "q", FExp 2 g_tight (AMul (ex_rv "p") (ANum 2))) ex_doc_cyc) by (cbn; tauto).
    destruct (C05_cyclic_kept_flat ex_doc_cyc [] [] [] Hok Hfree _ _ _ _ Hin) as [s' [He [Ha Hx]]].
    + intros y Hy n. cbn [ex_rv avars app In] in Hy. destruct Hy as [Hy|[]]. subst y. apply Hn.
    + exists s'. split; [exact He|]. split; [|exact Hx]. rewrite Ha. vm_compute. reflexivity.
  - assert (Hin : In (of_string "s", FExp 3 g_spaced (AAdd (ex_rv "s") (ANum 1))) ex_doc_cyc) by (cbn; tauto).
    destruct (C05_cyclic_kept_flat ex_doc_cyc [] [] [] Hok Hfree _ _ _ _ Hin) as [s' [He [Ha Hx]]].
    + intros y Hy n. cbn [ex_rv avars app In] in Hy. destruct Hy as [Hy|[]]. subst y. apply Hn.
    + exists s'. split; [exact He|]. split; [|exact Hx]. rewrite Ha. vm_compute. reflexivity.
  - vm_compute. reflexivity.
Qed.

(* [peG] with no extra inner fuel is the parser of the model *)
Theorem C05_peG_is_pe : forall f lvl ts, peG 0 f lvl ts = pe f lvl ts.
Proof. exact peG_0. Qed.
Print Assumptions C05_peG_is_pe.

(* bare references ("$b", excluded by fexp_ok: the resolver follows them at once, which the proof's description of the
   intermediate states does not cover) -- on this instance the result is the direct evaluation all the same:
   z = "$b2 * 2"  b2 = "$b"  b = "$a"  a = "$c + 1"  c = 2  y = " $z " *)
Example C05_bare_reference_instance :
  let d := [ (of_string "z", FExp 1 g_spaced (AMul (ex_rv "b2") (ANum 2)));
             (of_string "b2", FExp 2 g_tight (ex_rv "b"));
             (of_string "b", FExp 3 g_tight (ex_rv "a"));
             (of_string "a", FExp 4 g_spaced (AAdd (ex_rv "c") (ANum 1)));
             (of_string "c", FInt 2);
             (of_string "y", FExp 5 g_spaced (ex_rv "z")) ] in
  eval_expressions (flat_sdict d [] [] []) =
  Some (Ok (mkSD (map (fun xv => (KS (fst xv), Leaf (SInt (match denote d (fst xv) with Some v => v | None => 0%Z end)))) d)
                 [] [] [] [])) /\
  map (fun xv => denote d (fst xv)) d = [Some 6%Z; Some 3%Z; Some 3%Z; Some 3%Z; Some 2%Z; Some 6%Z].
Proof. vm_compute. split; reflexivity. Qed.

(* ================================================================================================ *)
(* The re-insertion loop of the repaired _eval_expressions (insert_result) terminates                *)
(* ================================================================================================ *)
(* [bad ph t]: the number of leaves of t whose text contains ph.  With the fuel the model gives it insert_result never
   answers E_Fuel on well formed data (unique keys) when the value spells the placeholder (one round) or none of its
   leaves contains it (every round removes one such leaf of the data and adds none) *)
Theorem C05_insert_terminates : forall ph v d, wf d = true -> wf v = true ->
  (contains ph (py_str_tree v) = true \/ bad ph v = 0%nat) ->
  insert_result (S (count_leaves d)) ph v d <> Raise E_Fuel.
Proof. exact insert_terminates. Qed.
Print Assumptions C05_insert_terminates.

(* the condition on the value holds for every leaf value ... *)
Theorem C05_insert_terminates_leaf : forall ph s d, wf d = true ->
  insert_result (S (count_leaves d)) ph (Leaf s) d <> Raise E_Fuel.
Proof. exact insert_terminates_leaf. Qed.
Print Assumptions C05_insert_terminates_leaf.

(* ... and for every value when the placeholder consists of printable characters other than quotes and the backslash
   (repr leaves those alone, so a value with a leaf that contains the placeholder spells it) *)
Theorem C05_insert_terminates_plain : forall ph v d, wf d = true -> wf v = true -> plain_ph ph = true ->
  insert_result (S (count_leaves d)) ph v d <> Raise E_Fuel.
Proof. exact insert_terminates_plain. Qed.
Print Assumptions C05_insert_terminates_plain.

Example C05_insert_terminates_nonvacuous :
  let ph := ph_of 7 in
  let d := Dict [(KS (of_string "a"), Leaf (SStr ph)); (KS (of_string "l"), Lst [Leaf (SInt 1); Leaf (SStr (of_string "x" ++ ph))]);
                 (KS (of_string "s"), Dict [(KS (of_string "b"), Leaf (SStr ph))])] in
  let v := Lst [Leaf (SStr (of_string "p'q")); Leaf (SInt 2)] in
  let w := Leaf (SStr (of_string "$" ++ ph ++ of_string " + 1")) in
  wf d = true /\ wf v = true /\ plain_ph ph = true /\ bad ph d = 3%nat /\ bad ph v = 0%nat /\
  contains ph (py_str_tree w) = true /\
  insert_result (S (count_leaves d)) ph v d <> Raise E_Fuel /\
  insert_result (S (count_leaves d)) ph w d <> Raise E_Fuel /\
  insert_result (S (count_leaves d)) ph v d =
    Ok (Dict [(KS (of_string "a"), v); (KS (of_string "l"), Lst [Leaf (SInt 1); v]); (KS (of_string "s"), Dict [(KS (of_string "b"), v)])]) /\
  insert_result (S (count_leaves d)) ph w d =
    Ok (Dict [(KS (of_string "a"), w); (KS (of_string "l"), Lst [Leaf (SInt 1); Leaf (SStr (of_string "x" ++ ph))]);
              (KS (of_string "s"), Dict [(KS (of_string "b"), Leaf (SStr ph))])]).
Proof.
  intros ph d v w.
  assert (H1 : wf d = true) by (vm_compute; reflexivity). assert (H2 : wf v = true) by reflexivity.
  assert (H3 : plain_ph ph = true) by (vm_compute; reflexivity).
  assert (H4 : contains ph (py_str_tree w) = true) by (vm_compute; reflexivity).
  refine (conj H1 (conj H2 (conj H3 (conj _ (conj _ (conj H4 (conj (C05_insert_terminates_plain ph v d H1 H2 H3)
            (conj (C05_insert_terminates ph w d H1 eq_refl (or_introl H4)) (conj _ _))))))))); vm_compute; reflexivity.
Qed.

(* the side conditions are needed.  (1) The value is a list whose leaf contains the placeholder although its repr does
   not spell it (the placeholder is a line feed, the repr shows backslash n): every round nests the value one level
   deeper; the library ends in RecursionError (set_global_key's depth guard, E_Recursion with enough fuel), the
   model's fuel runs out first.  (2) Duplicate keys (not a Python dict): the key found is not the key written. *)
Example C05_insert_terminates_conditions :
  (let ph := [c_lf] in let v := Lst [Leaf (SStr [c_lf])] in let d := Dict [(KS (of_string "a"), Leaf (SStr [c_lf]))] in
   wf d = true /\ wf v = true /\ contains ph (py_str_tree v) = false /\ bad ph v = 1%nat /\ plain_ph ph = false /\
   insert_result (S (count_leaves d)) ph v d = Raise E_Fuel /\ insert_result 30 ph v d = Raise E_Recursion) /\
  (let ph := of_string "P" in let v := Leaf (SInt 7) in
   let d := Dict [(KS (of_string "k"), Leaf (SInt 1)); (KS (of_string "k"), Leaf (SStr (of_string "P")))] in
   wf d = false /\ insert_result (S (count_leaves d)) ph v d = Raise E_Fuel).
Proof. vm_compute. repeat split; reflexivity. Qed.

(* eval_expressions never answers E_Fuel: [good_sd s] = the data has unique keys at every level and the placeholders
   of the expressions table consist of ordinary characters.  With C05_loop_terminates (the loop's own fuel is never
   the reason for stopping) this is: on such an SDict no fuel of the model is ever exhausted. *)
Theorem C05_never_fuel : forall s, good_sd s -> eval_expressions s <> Some (Raise E_Fuel).
Proof. exact eval_expressions_no_fuel. Qed.
Print Assumptions C05_never_fuel.

Example C05_never_fuel_nonvacuous :
  let s := mkSD [(KS (of_string "a"), Leaf (SStr (ph_of 0)));
                 (KS (of_string "x"), Lst [Leaf (SInt 5); Leaf (SStr (of_string "six"))]);
                 (KS (of_string "b"), Leaf (SStr (ph_of 1))); (KS (of_string "c"), Leaf (SStr (ph_of 2)))] [] [] []
                [(0%N, (of_string "$EXPRESSION000000 + $c", ph_of 0)); (1%N, (of_string "$x", ph_of 1));
                 (2%N, (of_string "$x[0] * 2", ph_of 2))] in
  good_sd s /\ eval_expressions s <> Some (Raise E_Fuel) /\
  eval_expressions s =
  Some (Ok (mkSD [(KS (of_string "a"), Leaf (SStr (of_string "$EXPRESSION000000 + 10")));
                  (KS (of_string "x"), Lst [Leaf (SInt 5); Leaf (SStr (of_string "six"))]);
                  (KS (of_string "b"), Lst [Leaf (SInt 5); Leaf (SStr (of_string "six"))]); (KS (of_string "c"), Leaf (SInt 10))] [] [] [] [])).
Proof.
  intro s. assert (H : good_sd s).
  { split; [vm_compute; reflexivity|]. cbn [s sd_expr]. repeat (constructor; [vm_compute; reflexivity|]). constructor. }
  refine (conj H (conj (C05_never_fuel s H) _)). vm_compute. reflexivity.
Qed.

(* the line-feed placeholder again, now inside an SDict: without [good_sd] the model does answer E_Fuel *)
Example C05_never_fuel_condition :
  let s := mkSD [(KS (of_string "a"), Leaf (SStr [c_lf])); (KS (of_string "x"), Lst [Leaf (SStr [c_lf])])] [] [] []
                [(0%N, (of_string "$x", [c_lf]))] in
  wf (Dict (sd_data s)) = true /\ plain_ph [c_lf] = false /\ eval_expressions s = Some (Raise E_Fuel).
Proof. vm_compute. repeat split; reflexivity. Qed.

(* flat documents: reading terminates normally whatever the referenced names are *)
Theorem C05_flat_terminates : forall d lc bc inc, fdoc_ok d ->
  exists s', eval_expressions (flat_sdict d lc bc inc) = Some (Ok s') /\ sd_expr s' = [] /\
             map fst (sd_data s') = map KS (map fst d).
Proof. exact flat_terminates. Qed.
Print Assumptions C05_flat_terminates.

(* [names_free] is still needed for the VALUES: j = "$EXPRESSION000001 + 1" (unresolvable; its text contains the
   placeholder of the next expression), i = "$zz".  Reading terminates, but writing back i's text overwrites j as well *)
Definition ex_doc_ji : fdoc :=
  [ (of_string "j", FExp 0 g_tight (AAdd (ex_rv "EXPRESSION000001") (ANum 1)));
    (of_string "i", FExp 1 g_tight (APos (ex_rv "zz"))) ].
Example C05_names_free_needed :
  fdoc_ok ex_doc_ji /\
  (exists s', eval_expressions (flat_sdict ex_doc_ji [] [] []) = Some (Ok s') /\ sd_expr s' = [] /\
              map fst (sd_data s') = map KS (map fst ex_doc_ji)) /\
  eval_expressions (flat_sdict ex_doc_ji [] [] []) =
  Some (Ok (mkSD [(KS (of_string "j"), Leaf (SStr (of_string "+$zz"))); (KS (of_string "i"), Leaf (SStr (of_string "+$zz")))]
                 [] [] [] [])) /\
  ~ names_free ex_doc_ji.
Proof.
  assert (Hok : fdoc_ok ex_doc_ji) by (unfold ex_doc_ji; fdoc_ok_tac).
  refine (conj Hok (conj (C05_flat_terminates ex_doc_ji [] [] [] Hok) (conj _ _))).
  - vm_compute. reflexivity.
  - intro H. specialize (H (of_string "j") 0%N g_tight (AAdd (ex_rv "EXPRESSION000001") (ANum 1)) (or_introl eq_refl)).
    cbn [ex_rv avars app] in H. inversion H as [|? ? H1 _]. vm_compute in H1. discriminate.
Qed.

(* ================================================================================================== *)
(* added from Properties/C05_add.v (2026-10-01)                                              *)
(* ================================================================================================== *)
(* C05 (addition)  References into nested dicts, indexed references, bare references inside whole documents. *)
From Coq Require Import String.
From Coq Require Import NArith ZArith List Bool Permutation.
From DictIO Require Import Chars Str Value Scalar KeyPath SDict Layout Lexer TokParser Reader Expr Eval
     MiscSpec EvalSpec FlatSpec IndexSpec EvalProofs RefTextProofs FlatEngine FlatIndexProofs.
Import ListNotations.

(* ================================================================================================ *)
(* Documents: [pdoc] = top-level entries  PDyn x (FInt z) | PDyn x (FExp id layout expression) | PStat x t  with t a
   static value ([stat]: a scalar without a dollar sign and without the word EXPRESSION -- every integer, boolean, None --,
   a list of such scalars, a dict with string keys of static values).
   [psem p]: the flattened document -- every integer declared at any nesting level under its name, every element of a
   list l under the name  l[j]  ([l ++ idx j]), every expression.  References in expressions are reference names
   [rname]: a word, possibly followed by index brackets; an expression may be a bare reference [AVar y] to an integer,
   to an expression or to another bare reference.
   [pdoc_ok p]: all declared names (all levels) are distinct words, distinct expression ids below 10^6, blanks-only
   layouts.  [psdict p]: the SDict the parser delivers (C05_nested_reader).                                            *)
(* ================================================================================================ *)

(* ---- the reader computes the direct recursive evaluation of the flattened document ----------------------------- *)
Theorem C05_nested_direct_value : forall p lc bc inc, pdoc_ok p -> total_doc (psem p) = true ->
  exists s', eval_expressions (psdict p lc bc inc) = Some (Ok s') /\
             sd_expr s' = [] /\ map fst (sd_data s') = map KS (map pname p) /\
             (forall x v z, In (PDyn x v) p -> denote (psem p) x = Some z -> alookup (KS x) (sd_data s') = Some (Leaf (SInt z))) /\
             (forall x t, In (PStat x t) p -> alookup (KS x) (sd_data s') = Some t).
Proof. exact pdoc_value. Qed.
Print Assumptions C05_nested_direct_value.

(* the whole result *)
Theorem C05_nested_direct_result : forall p lc bc inc, pdoc_ok p ->
  (forall x, In x (map fst (psem p)) -> denote (psem p) x <> None) ->
  eval_expressions (psdict p lc bc inc) = Some (Ok (mkSD (pdata p (denote (psem p))) lc bc inc [])).
Proof. exact pdoc_direct_value. Qed.
Print Assumptions C05_nested_direct_result.

Definition ex_v (s : string) : aexp := AVar (of_string s).
Definition ex_ints (l : list Z) : tree := Lst (map (fun z => Leaf (SInt z)) l).
Definition ex_gi (n : nat) : nat -> str := fun i => if Nat.eqb i 0 || Nat.eqb i n then [] else [c_sp].
Definition ex_gb : nat -> str := fun _ => [c_sp].

(* a "$y + $l[1]";  sub { y 4; name pump; deep { z 5; flag true; m (7 9); } }  l (3 5 8);
   b "$z*$a";  f "$c - $l[0]";  u "$e * $h";  w " $u ";  c $m[1];  n 2;  g $n;  e $c;  h $f;
   (c: a bare indexed reference; g: a bare reference to an integer; e: a bare reference to a bare reference; h: a bare
   reference to an expression; w: a bare reference written with blanks; f, u: expressions over names that hold bare
   references) *)
Definition ex_pa : pdoc := [ PDyn (of_string "a") (FExp 0 (ex_gi 3) (AAdd (ex_v "y") (ex_v "l[1]"))) ].
Definition ex_sub : tree :=
  Dict [(KS (of_string "y"), Leaf (SInt 4)); (KS (of_string "name"), Leaf (SStr (of_string "pump")));
        (KS (of_string "deep"), Dict [(KS (of_string "z"), Leaf (SInt 5)); (KS (of_string "flag"), Leaf (SBool true));
                                      (KS (of_string "m"), ex_ints [7; 9]%Z)])].
Definition ex_pb : pdoc := [ PStat (of_string "sub") ex_sub; PStat (of_string "l") (ex_ints [3; 5; 8]%Z) ].
Definition ex_pc : pdoc :=
  [ PDyn (of_string "b") (FExp 1 g_tight (AMul (ex_v "z") (ex_v "a")));
    PDyn (of_string "f") (FExp 2 (ex_gi 3) (ASub (ex_v "c") (ex_v "l[0]")));
    PDyn (of_string "u") (FExp 3 (ex_gi 3) (AMul (ex_v "e") (ex_v "h")));
    PDyn (of_string "w") (FExp 4 ex_gb (ex_v "u"));
    PDyn (of_string "c") (FExp 5 g_tight (ex_v "m[1]"));
    PDyn (of_string "n") (FInt 2);
    PDyn (of_string "g") (FExp 6 g_tight (ex_v "n"));
    PDyn (of_string "e") (FExp 7 g_tight (ex_v "c"));
    PDyn (of_string "h") (FExp 8 g_tight (ex_v "f")) ].
Definition ex_p : pdoc := ex_pa ++ ex_pb ++ ex_pc.
Ltac ex_p_unfold := unfold ex_p, ex_pa, ex_pb, ex_pc; cbn [app].

Ltac layout_tac :=
  repeat (constructor;
          [first [ exact I
                 | let i := fresh "i" in intro i;
                   first [ reflexivity
                         | unfold ex_gi; match goal with |- context [if ?b then _ else _] => destruct b end; reflexivity ] ]|]);
  constructor.
Ltac pdoc_ok_tac := apply pdoc_check_items; [vm_compute; reflexivity | layout_tac].

Lemma ex_p_ok : pdoc_ok ex_p.
Proof. ex_p_unfold. pdoc_ok_tac. Qed.

(* references into nested dicts (y: depth 1, z: depth 2), to list elements (l at top level, m at depth 2), bare references
   of every kind, forward references *)
Example C05_nested_direct_value_nonvacuous :
  pdoc_ok ex_p /\ total_doc (psem ex_p) = true /\
  map fst (psem ex_p) = map of_string ["a"; "y"; "z"; "m[0]"; "m[1]"; "l[0]"; "l[1]"; "l[2]"; "b"; "f"; "u"; "w"; "c"; "n"; "g"; "e"; "h"]%string /\
  exists s', eval_expressions (psdict ex_p [] [] []) = Some (Ok s') /\ sd_expr s' = [] /\
    alookup (KS (of_string "a")) (sd_data s') = Some (Leaf (SInt 9)) /\
    alookup (KS (of_string "b")) (sd_data s') = Some (Leaf (SInt 45)) /\
    alookup (KS (of_string "c")) (sd_data s') = Some (Leaf (SInt 9)) /\
    alookup (KS (of_string "f")) (sd_data s') = Some (Leaf (SInt 6)) /\
    alookup (KS (of_string "g")) (sd_data s') = Some (Leaf (SInt 2)) /\
    alookup (KS (of_string "e")) (sd_data s') = Some (Leaf (SInt 9)) /\
    alookup (KS (of_string "h")) (sd_data s') = Some (Leaf (SInt 6)) /\
    alookup (KS (of_string "u")) (sd_data s') = Some (Leaf (SInt 54)) /\
    alookup (KS (of_string "w")) (sd_data s') = Some (Leaf (SInt 54)) /\
    alookup (KS (of_string "l")) (sd_data s') = Some (ex_ints [3; 5; 8]%Z).
Proof.
  assert (Ht : total_doc (psem ex_p) = true) by (vm_compute; reflexivity).
  refine (conj ex_p_ok (conj Ht (conj _ _))); [vm_compute; reflexivity|].
  destruct (C05_nested_direct_value ex_p [] [] [] ex_p_ok Ht) as [s' [He [Hx [_ [Hv Hs]]]]].
  exists s'. split; [exact He|]. split; [exact Hx|].
  repeat split; first [ eapply Hv; [ex_p_unfold; cbn [In]; tauto | vm_compute; reflexivity]
                      | apply Hs; ex_p_unfold; cbn [In]; tauto ].
Qed.

(* the same for the text the real front end produces: parsing the file gives exactly [psdict ex_p] *)
Example C05_nested_reader :
  let text := of_string "a ""$y + $l[1]"";
sub
{
    y 4;
    name pump;
    deep { z 5; flag true; m (7 9); }
}
l (3 5 8);
b ""$z*$a"";
f ""$c - $l[0]"";
u ""$e * $h"";
w "" $u "";
c $m[1];
n 2;
g $n;
e $c;
h $f;
" in
  let fs : fsys := [(of_string "/w/root", FNative text)] in
  (exists pr, parse_unit true (of_string "/w/root") (-1) (FNative text) = Ok pr /\
              merge_includes fs true (pr_sd pr) (pr_count pr) = Ok (psdict ex_p [] [] [], 8%Z)) /\
  exists s', read_full fs (of_string "/w/root") true (-1) = Some (Ok (s', 8%Z)) /\
    alookup (KS (of_string "a")) (sd_data s') = Some (Leaf (SInt 9)) /\
    alookup (KS (of_string "u")) (sd_data s') = Some (Leaf (SInt 54)).
Proof.
  intros text fs.
  assert (Ht : total_doc (psem ex_p) = true) by (vm_compute; reflexivity).
  destruct (parse_unit true (of_string "/w/root") (-1) (FNative text)) as [pr|er] eqn:Ep; [|vm_compute in Ep; discriminate].
  assert (Hm : merge_includes fs true (pr_sd pr) (pr_count pr) = Ok (psdict ex_p [] [] [], 8%Z)).
  { vm_compute in Ep. inversion Ep; subst pr. vm_compute. reflexivity. }
  split; [exists pr; split; [reflexivity | exact Hm]|].
  destruct (C05_nested_direct_value ex_p [] [] [] ex_p_ok Ht) as [s' [He [_ [_ [Hv _]]]]].
  exists s'. split.
  - unfold read_full. change (fs_lookup (norm_path (of_string "/w/root")) fs) with (Some (FNative text)).
    cbv iota beta. rewrite Ep, Hm, He. reflexivity.
  - split; (eapply Hv; [ex_p_unfold; cbn [In]; tauto | vm_compute; reflexivity]).
Qed.

(* whatever the order of the table of expressions ([d]: the entries of the flattened document in that order; the parser
   numbers the quoted expressions of a file first, then the unquoted references) *)
Theorem C05_nested_direct_value_any_table_order : forall p d lc bc inc, pdoc_ok p -> Permutation (psem p) d ->
  total_doc (psem p) = true ->
  exists s', eval_expressions (psdict_ord p d lc bc inc) = Some (Ok s') /\
             sd_expr s' = [] /\ map fst (sd_data s') = map KS (map pname p) /\
             (forall x v z, In (PDyn x v) p -> denote (psem p) x = Some z -> alookup (KS x) (sd_data s') = Some (Leaf (SInt z))) /\
             (forall x t, In (PStat x t) p -> alookup (KS x) (sd_data s') = Some t).
Proof. exact pdoc_value_ord. Qed.
Print Assumptions C05_nested_direct_value_any_table_order.

(* g $n;  n 2;  c $m[1];  a "$c + $g";  box { m (7 9); }  -- the unquoted references g and c come first in the file but last
   in the table (ids 1 and 2; the quoted expression a has id 0) *)
Definition ex_q : pdoc :=
  [ PDyn (of_string "g") (FExp 1 g_tight (ex_v "n"));
    PDyn (of_string "n") (FInt 2);
    PDyn (of_string "c") (FExp 2 g_tight (ex_v "m[1]"));
    PDyn (of_string "a") (FExp 0 (ex_gi 3) (AAdd (ex_v "c") (ex_v "g")));
    PStat (of_string "box") (Dict [(KS (of_string "m"), ex_ints [7; 9]%Z)]) ].
Definition ex_q_table : fdoc :=
  [ (of_string "a", FExp 0 (ex_gi 3) (AAdd (ex_v "c") (ex_v "g")));
    (of_string "g", FExp 1 g_tight (ex_v "n")); (of_string "n", FInt 2); (of_string "c", FExp 2 g_tight (ex_v "m[1]"));
    (of_string "m[0]", FInt 7); (of_string "m[1]", FInt 9) ].

Example C05_nested_direct_value_any_table_order_nonvacuous :
  let text := of_string "g $n;
n 2;
c $m[1];
a ""$c + $g"";
box { m (7 9); }
" in
  let fs : fsys := [(of_string "/w/root", FNative text)] in
  pdoc_ok ex_q /\ Permutation (psem ex_q) ex_q_table /\ total_doc (psem ex_q) = true /\
  (exists pr, parse_unit true (of_string "/w/root") (-1) (FNative text) = Ok pr /\
              merge_includes fs true (pr_sd pr) (pr_count pr) = Ok (psdict_ord ex_q ex_q_table [] [] [], 2%Z)) /\
  map fst (sd_expr (psdict_ord ex_q ex_q_table [] [] [])) = [0; 1; 2]%N /\
  map fst (sd_expr (psdict ex_q [] [] [])) = [1; 2; 0]%N /\
  exists s', read_full fs (of_string "/w/root") true (-1) = Some (Ok (s', 2%Z)) /\
    alookup (KS (of_string "a")) (sd_data s') = Some (Leaf (SInt 11)) /\
    alookup (KS (of_string "c")) (sd_data s') = Some (Leaf (SInt 9)).
Proof.
  intros text fs.
  assert (Hok : pdoc_ok ex_q) by (unfold ex_q; pdoc_ok_tac).
  assert (Hp : Permutation (psem ex_q) ex_q_table).
  { change (psem ex_q) with ([(of_string "g", FExp 1 g_tight (ex_v "n")); (of_string "n", FInt 2);
                              (of_string "c", FExp 2 g_tight (ex_v "m[1]"))] ++
                             (of_string "a", FExp 0 (ex_gi 3) (AAdd (ex_v "c") (ex_v "g"))) ::
                             [(of_string "m[0]", FInt 7); (of_string "m[1]", FInt 9)]).
    apply Permutation_sym. apply Permutation_cons_app. cbn [app]. apply Permutation_refl. }
  assert (Ht : total_doc (psem ex_q) = true) by (vm_compute; reflexivity).
  refine (conj Hok (conj Hp (conj Ht _))).
  destruct (parse_unit true (of_string "/w/root") (-1) (FNative text)) as [pr|er] eqn:Ep; [|vm_compute in Ep; discriminate].
  assert (Hm : merge_includes fs true (pr_sd pr) (pr_count pr) = Ok (psdict_ord ex_q ex_q_table [] [] [], 2%Z)).
  { vm_compute in Ep. inversion Ep; subst pr. vm_compute. reflexivity. }
  split; [exists pr; split; [reflexivity | exact Hm]|].
  split; [vm_compute; reflexivity|]. split; [vm_compute; reflexivity|].
  destruct (C05_nested_direct_value_any_table_order ex_q ex_q_table [] [] [] Hok Hp Ht) as [s' [He [_ [_ [Hv _]]]]].
  exists s'. split.
  - unfold read_full. change (fs_lookup (norm_path (of_string "/w/root")) fs) with (Some (FNative text)).
    cbv iota beta. rewrite Ep, Hm, He. reflexivity.
  - split; (eapply Hv; [unfold ex_q; cbn [In]; tauto | vm_compute; reflexivity]).
Qed.

(* ---- (3) the place of a declaration does not matter ---------------------------------------------------------------- *)
(* integer declarations spread over nested dicts: every expression gets the value it gets in the flattened document
   (all declarations at top level; [flat_sdict (psem p)] is the SDict of C05_direct_value).  No list elements here:
   every name of the flattened document is a word *)
Theorem C05_nested_declaration_independent : forall p lc bc inc, pdoc_ok p -> Forall word_name (map fst (psem p)) ->
  total_doc (psem p) = true ->
  exists s s', eval_expressions (psdict p lc bc inc) = Some (Ok s) /\
               eval_expressions (flat_sdict (psem p) lc bc inc) = Some (Ok s') /\
               forall x v, In (PDyn x v) p -> alookup (KS x) (sd_data s) = alookup (KS x) (sd_data s').
Proof. exact nested_declaration_independent. Qed.
Print Assumptions C05_nested_declaration_independent.

(* a "$y + 1";  sub { y 4; deep { z 5; } }  b "$z*$y";  n 2;  g $n; *)
Definition ex_pn : pdoc :=
  [ PDyn (of_string "a") (FExp 0 (ex_gi 3) (AAdd (ex_v "y") (ANum 1)));
    PStat (of_string "sub") (Dict [(KS (of_string "y"), Leaf (SInt 4));
                                   (KS (of_string "deep"), Dict [(KS (of_string "z"), Leaf (SInt 5))])]);
    PDyn (of_string "b") (FExp 1 g_tight (AMul (ex_v "z") (ex_v "y")));
    PDyn (of_string "n") (FInt 2);
    PDyn (of_string "g") (FExp 2 g_tight (ex_v "n")) ].

Example C05_nested_declaration_independent_nonvacuous :
  pdoc_ok ex_pn /\ Forall word_name (map fst (psem ex_pn)) /\ total_doc (psem ex_pn) = true /\
  (* the flattened document:  a "$y + 1"; y 4; z 5; b "$z*$y"; n 2; g $n; *)
  psem ex_pn = [ (of_string "a", FExp 0 (ex_gi 3) (AAdd (ex_v "y") (ANum 1))); (of_string "y", FInt 4); (of_string "z", FInt 5);
                 (of_string "b", FExp 1 g_tight (AMul (ex_v "z") (ex_v "y"))); (of_string "n", FInt 2);
                 (of_string "g", FExp 2 g_tight (ex_v "n")) ] /\
  exists s s', eval_expressions (psdict ex_pn [] [] []) = Some (Ok s) /\
               eval_expressions (flat_sdict (psem ex_pn) [] [] []) = Some (Ok s') /\
               alookup (KS (of_string "a")) (sd_data s) = alookup (KS (of_string "a")) (sd_data s') /\
               alookup (KS (of_string "b")) (sd_data s) = alookup (KS (of_string "b")) (sd_data s') /\
               alookup (KS (of_string "g")) (sd_data s) = alookup (KS (of_string "g")) (sd_data s') /\
               alookup (KS (of_string "b")) (sd_data s) = Some (Leaf (SInt 20)) /\
               alookup (KS (of_string "y")) (sd_data s) = None /\
               alookup (KS (of_string "y")) (sd_data s') = Some (Leaf (SInt 4)).
Proof.
  assert (Hok : pdoc_ok ex_pn) by (unfold ex_pn; pdoc_ok_tac).
  assert (Hw : Forall word_name (map fst (psem ex_pn))).
  { apply Forall_forall. intros x Hx. apply word_nameb_sound. revert x Hx. apply forallb_forall. vm_compute. reflexivity. }
  assert (Ht : total_doc (psem ex_pn) = true) by (vm_compute; reflexivity).
  refine (conj Hok (conj Hw (conj Ht (conj eq_refl _)))).
  destruct (C05_nested_declaration_independent ex_pn [] [] [] Hok Hw Ht) as [s [s' [He [He' Hv]]]].
  exists s, s'. split; [exact He|]. split; [exact He'|].
  split; [eapply Hv; unfold ex_pn; cbn [In]; tauto|]. split; [eapply Hv; unfold ex_pn; cbn [In]; tauto|].
  split; [eapply Hv; unfold ex_pn; cbn [In]; tauto|].
  rewrite (C05_nested_direct_result ex_pn [] [] [] Hok (total_doc_spec _ Ht)) in He. inversion He; subst s.
  assert (Hf : eval_expressions (flat_sdict (psem ex_pn) [] [] []) =
               Some (Ok (mkSD (pdata (pflat ex_pn) (denote (psem (pflat ex_pn)))) [] [] [] []))).
  { rewrite <- psdict_pflat. apply C05_nested_direct_result; [apply (pflat_ok ex_pn Hok Hw)|].
    unfold pflat. rewrite psem_dyns. apply (total_doc_spec _ Ht). }
  rewrite Hf in He'. inversion He'; subst s'. vm_compute. repeat split; reflexivity.
Qed.

(* in general: two documents that declare the same names with the same integers / expressions -- at whatever nesting
   level, as a list element or on its own, in whatever order -- give every expression the same value *)
Theorem C05_declaration_place_independent : forall p p' lc bc inc, pdoc_ok p -> pdoc_ok p' ->
  Permutation (psem p) (psem p') -> total_doc (psem p) = true ->
  exists s s', eval_expressions (psdict p lc bc inc) = Some (Ok s) /\
               eval_expressions (psdict p' lc bc inc) = Some (Ok s') /\
               forall x v v', In (PDyn x v) p -> In (PDyn x v') p' ->
                 alookup (KS x) (sd_data s) = alookup (KS x) (sd_data s').
Proof. exact place_independent. Qed.
Print Assumptions C05_declaration_place_independent.

(* ex_p with the expressions first, y now at top level, z and the list m in a dict "box", the list l inside "box/inner" *)
Definition ex_pb' : pdoc :=
  [ PDyn (of_string "y") (FInt 4);
    PStat (of_string "box") (Dict [(KS (of_string "z"), Leaf (SInt 5)); (KS (of_string "m"), ex_ints [7; 9]%Z);
                                   (KS (of_string "inner"), Dict [(KS (of_string "l"), ex_ints [3; 5; 8]%Z)])]) ].
Definition ex_p' : pdoc := ex_pc ++ ex_pa ++ ex_pb'.

Example C05_declaration_place_independent_nonvacuous :
  ex_p = ex_pa ++ ex_pb ++ ex_pc /\ pdoc_ok ex_p /\ pdoc_ok ex_p' /\ Permutation (psem ex_p) (psem ex_p') /\
  total_doc (psem ex_p) = true /\
  exists s s', eval_expressions (psdict ex_p [] [] []) = Some (Ok s) /\
               eval_expressions (psdict ex_p' [] [] []) = Some (Ok s') /\
               alookup (KS (of_string "a")) (sd_data s) = alookup (KS (of_string "a")) (sd_data s') /\
               alookup (KS (of_string "b")) (sd_data s) = alookup (KS (of_string "b")) (sd_data s') /\
               alookup (KS (of_string "f")) (sd_data s) = alookup (KS (of_string "f")) (sd_data s').
Proof.
  assert (Hok' : pdoc_ok ex_p') by (unfold ex_p', ex_pa, ex_pb', ex_pc; cbn [app]; pdoc_ok_tac).
  assert (Hp : Permutation (psem ex_p) (psem ex_p')).
  { unfold ex_p, ex_p'. rewrite !psem_app.
    change (psem ex_pb') with (psem ex_pb).
    eapply Permutation_trans; [apply Permutation_app_comm|]. rewrite <- app_assoc.
    eapply Permutation_trans; [apply Permutation_app_comm|]. rewrite <- app_assoc. apply Permutation_refl. }
  assert (Ht : total_doc (psem ex_p) = true) by (vm_compute; reflexivity).
  refine (conj eq_refl (conj ex_p_ok (conj Hok' (conj Hp (conj Ht _))))).
  destruct (C05_declaration_place_independent ex_p ex_p' [] [] [] ex_p_ok Hok' Hp Ht) as [s [s' [He [He' Hv]]]].
  exists s, s'. split; [exact He|]. split; [exact He'|].
  repeat split; eapply Hv; unfold ex_p, ex_p', ex_pa, ex_pb, ex_pb', ex_pc; cbn [In app]; tauto.
Qed.

(* ---- (2) indexed references: the addressed list element ------------------------------------------------------------ *)
(* in the flattened document the name l[j] of a list declared at any nesting level ([sbinds_item it]: the static bindings
   of the top-level entry it) denotes the j-th element: this is the value an expression "... $l[j] ..." computes with *)
Theorem C05_index_denotes_element : forall p it l ts j z, pdoc_ok p -> In it p -> In (l, Lst ts) (sbinds_item it) ->
  nth_error ts j = Some (Leaf (SInt z)) ->
  denote (psem p) (l ++ idx (N.of_nat j)) = Some z.
Proof. exact denote_index. Qed.
Print Assumptions C05_index_denotes_element.

(* ... and an entry that is the bare indexed reference $l[j] holds that element *)
Theorem C05_indexed_reference : forall p lc bc inc, pdoc_ok p -> total_doc (psem p) = true ->
  exists s', eval_expressions (psdict p lc bc inc) = Some (Ok s') /\
    forall x i g it l ts j z, In (PDyn x (FExp i g (AVar (l ++ idx (N.of_nat j))))) p ->
      In it p -> In (l, Lst ts) (sbinds_item it) -> nth_error ts j = Some (Leaf (SInt z)) ->
      alookup (KS x) (sd_data s') = Some (Leaf (SInt z)).
Proof. exact indexed_reference_value. Qed.
Print Assumptions C05_indexed_reference.

Example C05_indexed_reference_nonvacuous :
  let sub := PStat (of_string "sub") ex_sub in
  of_string "m" ++ idx (N.of_nat 1) = of_string "m[1]" /\
  In sub ex_p /\ In (of_string "m", ex_ints [7; 9]%Z) (sbinds_item sub) /\
  nth_error [Leaf (SInt 7); Leaf (SInt 9)] 1 = Some (Leaf (SInt 9)) /\
  denote (psem ex_p) (of_string "m[1]") = Some 9%Z /\
  denote (psem ex_p) (of_string "l[1]") = Some 5%Z /\
  exists s', eval_expressions (psdict ex_p [] [] []) = Some (Ok s') /\
             alookup (KS (of_string "c")) (sd_data s') = Some (Leaf (SInt 9)).
Proof.
  intro sub.
  assert (H0 : of_string "m" ++ idx (N.of_nat 1) = of_string "m[1]") by (vm_compute; reflexivity).
  assert (H1 : In sub ex_p) by (ex_p_unfold; unfold sub; cbn [In]; tauto).
  assert (H2 : In (of_string "m", ex_ints [7; 9]%Z) (sbinds_item sub)) by (vm_compute; tauto).
  assert (H3 : nth_error [Leaf (SInt 7); Leaf (SInt 9)] 1 = Some (Leaf (SInt 9))) by reflexivity.
  assert (Ht : total_doc (psem ex_p) = true) by (vm_compute; reflexivity).
  refine (conj H0 (conj H1 (conj H2 (conj H3 (conj _ (conj _ _)))))).
  - rewrite <- H0. apply (C05_index_denotes_element ex_p sub (of_string "m") _ 1 9%Z ex_p_ok H1 H2 H3).
  - assert (Hl : In (PStat (of_string "l") (ex_ints [3; 5; 8]%Z)) ex_p) by (ex_p_unfold; cbn [In]; tauto).
    assert (E : of_string "l" ++ idx (N.of_nat 1) = of_string "l[1]") by (vm_compute; reflexivity). rewrite <- E.
    apply (C05_index_denotes_element ex_p _ (of_string "l") _ 1 5%Z ex_p_ok Hl (sbinds_top _ _)). reflexivity.
  - destruct (C05_indexed_reference ex_p [] [] [] ex_p_ok Ht) as [s' [He Hv]]. exists s'. split; [exact He|].
    apply (Hv (of_string "c") 5%N g_tight sub (of_string "m") [Leaf (SInt 7); Leaf (SInt 9)] 1%nat 9%Z); [|exact H1 | exact H2 | exact H3].
    rewrite H0. ex_p_unfold. unfold ex_v. cbn [In]. tauto.
Qed.

(* FIXED (repo 805a1f6; found here as the finding C05_index_out_of_range_finding).  An index that is out of range, or an
   index on a value that is not a list, used NOT to make the reference unresolvable: the exception of the subscript was
   suppressed (contextlib.suppress in _resolve_reference) and the reference resolved to the WHOLE referenced value
   (d $l[5] gave [3, 5, 8]; f $q[0] gave 5, "$q[0] + 1" gave 6; inside "$l[1]+$l[10]" the list was substituted as text and
   eval raised a TypeError the library does not catch).  Now such a reference is unresolvable and keeps its original text,
   as the property says; the in-range element next to it is still found.  The theorems above never meet the case: only
   in-range elements are names of psem p, so total_doc excludes such references. *)
Example C05_index_out_of_range_fixed :
  let rd := fun t => read_full [(of_string "/w/root", FNative (of_string t))] (of_string "/w/root") true (-1) in
  let data := fun t => match rd t with Some (Ok (s, _)) => Some (sd_data s) | _ => None end in
  (* l (3 5 8); d $l[5];          ->  d keeps its text *)
  data "l (3 5 8); d $l[5];"%string =
    Some [(KS (of_string "l"), ex_ints [3; 5; 8]%Z); (KS (of_string "d"), Leaf (SStr (of_string "$l[5]")))] /\
  (* q 5; f $q[0]; h "$q[0] + 1";  ->  both keep their text *)
  data "q 5; f $q[0]; h ""$q[0] + 1"";"%string =
    Some [(KS (of_string "q"), Leaf (SInt 5)); (KS (of_string "f"), Leaf (SStr (of_string "$q[0]")));
          (KS (of_string "h"), Leaf (SStr (of_string "$q[0] + 1")))] /\
  (* l (3 5 8); g "$l[1]+$l[10]";   ->  the resolvable reference is substituted, the other one stays: no TypeError *)
  data "l (3 5 8); g ""$l[1]+$l[10]"";"%string =
    Some [(KS (of_string "l"), ex_ints [3; 5; 8]%Z); (KS (of_string "g"), Leaf (SStr (of_string "5+$l[10]")))] /\
  (* the resolver itself *)
  resolve_reference [(KS (of_string "l"), ex_ints [3; 5; 8]%Z)] (of_string "$l[5]") = RNone /\
  resolve_reference [(KS (of_string "q"), Leaf (SInt 5))] (of_string "$q[0]") = RNone /\
  resolve_reference [(KS (of_string "l"), ex_ints [3; 5; 8]%Z)] (of_string "$l[1]") = RVal (Leaf (SInt 5)).
Proof. vm_compute. repeat split; reflexivity. Qed.

(* ---- (1) bare references inside whole documents --------------------------------------------------------------------- *)
(* the direct evaluation gives a bare reference "$y" the value of y ... *)
Theorem C05_denote_bare : forall d x i g y z, NoDup (map fst d) -> In (x, FExp i g (AVar y)) d ->
  denote d x = Some z -> denote d y = Some z.
Proof. exact denote_bare. Qed.
Print Assumptions C05_denote_bare.

(* ... and so does the reader: a bare reference to an integer (declared at any nesting level, or a list element), to an
   expression, or to another bare reference *)
Theorem C05_bare_reference : forall p lc bc inc, pdoc_ok p -> total_doc (psem p) = true ->
  exists s', eval_expressions (psdict p lc bc inc) = Some (Ok s') /\
    forall x i g y, In (PDyn x (FExp i g (AVar y))) p ->
      exists z, denote (psem p) y = Some z /\ alookup (KS x) (sd_data s') = Some (Leaf (SInt z)).
Proof. exact bare_reference_value. Qed.
Print Assumptions C05_bare_reference.

(* g $n (n an integer),  c $m[1] (a list element),  e $c (c a bare reference),  h $f (f an expression),  w " $u " *)
Example C05_bare_reference_nonvacuous :
  pdoc_ok ex_p /\ total_doc (psem ex_p) = true /\
  exists s', eval_expressions (psdict ex_p [] [] []) = Some (Ok s') /\
    (exists z, denote (psem ex_p) (of_string "n") = Some z /\ alookup (KS (of_string "g")) (sd_data s') = Some (Leaf (SInt z))) /\
    (exists z, denote (psem ex_p) (of_string "m[1]") = Some z /\ alookup (KS (of_string "c")) (sd_data s') = Some (Leaf (SInt z))) /\
    (exists z, denote (psem ex_p) (of_string "c") = Some z /\ alookup (KS (of_string "e")) (sd_data s') = Some (Leaf (SInt z))) /\
    (exists z, denote (psem ex_p) (of_string "f") = Some z /\ alookup (KS (of_string "h")) (sd_data s') = Some (Leaf (SInt z))) /\
    (exists z, denote (psem ex_p) (of_string "u") = Some z /\ alookup (KS (of_string "w")) (sd_data s') = Some (Leaf (SInt z))) /\
    denote (psem ex_p) (of_string "n") = Some 2%Z /\ denote (psem ex_p) (of_string "m[1]") = Some 9%Z /\
    denote (psem ex_p) (of_string "c") = Some 9%Z /\ denote (psem ex_p) (of_string "f") = Some 6%Z.
Proof.
  assert (Ht : total_doc (psem ex_p) = true) by (vm_compute; reflexivity).
  refine (conj ex_p_ok (conj Ht _)).
  destruct (C05_bare_reference ex_p [] [] [] ex_p_ok Ht) as [s' [He Hv]]. exists s'. split; [exact He|].
  split; [apply (Hv (of_string "g") 6%N g_tight (of_string "n")); ex_p_unfold; unfold ex_v; cbn [In]; tauto|].
  split; [apply (Hv (of_string "c") 5%N g_tight (of_string "m[1]")); ex_p_unfold; unfold ex_v; cbn [In]; tauto|].
  split; [apply (Hv (of_string "e") 7%N g_tight (of_string "c")); ex_p_unfold; unfold ex_v; cbn [In]; tauto|].
  split; [apply (Hv (of_string "h") 8%N g_tight (of_string "f")); ex_p_unfold; unfold ex_v; cbn [In]; tauto|].
  split; [apply (Hv (of_string "w") 4%N ex_gb (of_string "u")); ex_p_unfold; unfold ex_v; cbn [In]; tauto|].
  repeat split; vm_compute; reflexivity.
Qed.

(* bare references that never get a value (totality fails): a reference to itself with an index -- the library's
   own-name test (_value_contains_circular_reference) drops the entry from the variables table --, and two bare
   references that refer to each other: reading terminates, the texts are kept (the library answers the same) *)
Example C05_bare_reference_cycles :
  let rd := fun t => read_full [(of_string "/w/root", FNative (of_string t))] (of_string "/w/root") true (-1) in
  let data := fun t => match rd t with Some (Ok (s, _)) => Some (sd_data s) | _ => None end in
  data "a $a[0]; b $a;"%string =
    Some [(KS (of_string "a"), Leaf (SStr (of_string "$a[0]"))); (KS (of_string "b"), Leaf (SStr (of_string "$a")))] /\
  data "a $b; b $a; c ""$a + 1"";"%string =
    Some [(KS (of_string "a"), Leaf (SStr (of_string "$b"))); (KS (of_string "b"), Leaf (SStr (of_string "$a")));
          (KS (of_string "c"), Leaf (SStr (of_string "$a + 1")))].
Proof. vm_compute. split; reflexivity. Qed.

(* ================================================================================================== *)
(* non-vacuity examples added after the reviewer's audit (Properties/C05_nv.v, 2026-10-01)         *)
(* ================================================================================================== *)

(* ==== non-vacuity instances obtained BY APPLYING the theorems above (added after review) ================== *)

(* C05_resolve_terminates on the tables on which the unrepaired resolver looped (a chain through a list element back to
   itself, two names that refer to each other, a name that refers to itself) and on a chain that ends in a list *)
Example C05_resolve_terminates_nonvacuous :
  let v1 := [(KS (of_string "a"), Leaf (SStr (of_string "$b[0]"))); (KS (of_string "b"), Leaf (SStr (of_string "$c")));
             (KS (of_string "c"), Lst [Leaf (SStr (of_string "$b[0]"))])] in
  let v2 := [(KS (of_string "b"), Leaf (SStr (of_string "$c"))); (KS (of_string "c"), Leaf (SStr (of_string "$b")));
             (KS (of_string "s"), Leaf (SStr (of_string "$s")))] in
  let v3 := [(KS (of_string "x"), Lst [Leaf (SInt 5); Leaf (SInt 6)]); (KS (of_string "ab"), Leaf (SStr (of_string "$x")));
             (KS (of_string "abc"), Leaf (SStr (of_string "$ab")))] in
  (resolve_reference v1 (of_string "$a") <> RFuel /\ resolve_reference v2 (of_string "$b") <> RFuel /\
   resolve_reference v2 (of_string "$s") <> RFuel /\ resolve_reference v3 (of_string "$abc[1]") <> RFuel) /\
  resolve_reference v1 (of_string "$a") = RNone /\ resolve_reference v2 (of_string "$b") = RNone /\
  resolve_reference v2 (of_string "$s") = RNone /\ resolve_reference v3 (of_string "$abc[1]") = RVal (Leaf (SInt 6)).
Proof.
  intros v1 v2 v3. split.
  - exact (conj (C05_resolve_terminates _ _) (conj (C05_resolve_terminates _ _) (conj (C05_resolve_terminates _ _) (C05_resolve_terminates _ _)))).
  - vm_compute. repeat split; reflexivity.
Qed.

(* C05_loop_raise: the hypothesis is met by an ordinary document -- the expression "$x + 1" stored eleven keys deep: the
   write-back of its value raises RecursionError (set_global_key's depth guard) -- and by the line-feed placeholder of
   C05_never_fuel_condition (E_Fuel) *)
Fixpoint ex_nest (n : nat) (t : tree) : tree := match n with O => t | S n' => Dict [(KS (of_string "k"), ex_nest n' t)] end.
Example C05_loop_raise_nonvacuous :
  let s := mkSD [(KS (of_string "x"), Leaf (SInt 5)); (KS (of_string "a"), ex_nest 10 (Leaf (SStr (ph_of 0))))] [] [] []
                [(0%N, (of_string "$x + 1", ph_of 0))] in
  let s' := mkSD [(KS (of_string "a"), Leaf (SStr [c_lf])); (KS (of_string "x"), Lst [Leaf (SStr [c_lf])])] [] [] []
                [(0%N, (of_string "$x", [c_lf]))] in
  eval_expressions s = Some (Raise E_Recursion) /\ (exists fuel ph v d, insert_result fuel ph v d = Raise E_Recursion) /\
  eval_expressions s' = Some (Raise E_Fuel) /\ (exists fuel ph v d, insert_result fuel ph v d = Raise E_Fuel).
Proof.
  intros s s'.
  assert (H : eval_expressions s = Some (Raise E_Recursion)) by (vm_compute; reflexivity).
  assert (H' : eval_expressions s' = Some (Raise E_Fuel)) by (vm_compute; reflexivity).
  exact (conj H (conj (C05_loop_raise s _ H) (conj H' (C05_loop_raise s' _ H')))).
Qed.

(* C05_unresolved_kept_one: one expression whose three references (a plain one, an indexed one, one to a name that exists
   only inside a sub-dict) are undeclared; its placeholder -- the last six-digit id -- occurs twice, two keys deep (under a
   string key and, inside a list, under an integer key); non-empty comment tables *)
Example C05_unresolved_kept_one_nonvacuous :
  let ph := ph_of 999999 in
  let d := [(KS (of_string "a"), Leaf (SInt 3));
            (KS (of_string "sub"), Dict [(KS (of_string "b"), Leaf (SStr ph)); (KI 2, Lst [Leaf (SStr ph); Leaf (SInt 1)])]);
            (KS (of_string "l"), Lst [Leaf (SInt 5)])] in
  let e := of_string "$zz + $yy[1] * 2 - $b" in
  let lc := [(9%N, of_string "// nine")] in let bc := [(2%N, of_string "/* two */")] in
  let s := mkSD d lc bc [] [(999999%N, (e, ph))] in
  has_char c_dollar e = true /\
  expr_refs_of e = [of_string "$zz"; of_string "$yy[1]"; of_string "$b"] /\
  Forall (fun r => alookup (KS (ref_name r)) (variables_of s) = None) (expr_refs_of e) /\
  eval_expressions s =
  Some (match insert_result (S (count_leaves (Dict d))) ph (Leaf (SStr e)) (Dict d) with
        | Ok (Dict d') => Ok (mkSD d' lc bc [] []) | Ok _ => Ok (mkSD d lc bc [] []) | Raise er => Raise er end) /\
  insert_result (S (count_leaves (Dict d))) ph (Leaf (SStr e)) (Dict d) =
  Ok (Dict [(KS (of_string "a"), Leaf (SInt 3));
            (KS (of_string "sub"), Dict [(KS (of_string "b"), Leaf (SStr e)); (KI 2, Lst [Leaf (SStr e); Leaf (SInt 1)])]);
            (KS (of_string "l"), Lst [Leaf (SInt 5)])]).
Proof.
  intros ph d e lc bc s.
  assert (H1 : has_char c_dollar e = true) by (vm_compute; reflexivity).
  assert (E : expr_refs_of e = [of_string "$zz"; of_string "$yy[1]"; of_string "$b"]) by (vm_compute; reflexivity).
  assert (H2 : Forall (fun r => alookup (KS (ref_name r)) (variables_of s) = None) (expr_refs_of e)).
  { rewrite E. repeat (constructor; [vm_compute; reflexivity|]). constructor. }
  refine (conj H1 (conj E (conj H2 (conj (C05_unresolved_kept_one d lc bc [] 999999%N e ph H1 H2) _)))).
  vm_compute. reflexivity.
Qed.

(* C05_denote_order: the eight-entry document ex_doc_w and its reversal (every use before / after its declaration the other
   way round); defined and undefined names alike *)
Example C05_denote_order_nonvacuous :
  let d := ex_doc_w in let d' := rev ex_doc_w in
  NoDup (map fst d) /\ Permutation d d' /\
  (forall x, denote d x = denote d' x) /\
  map (denote d) (map fst d) = [Some (-18); Some 3; Some 9; Some 9; Some (-4); Some 16; None; None]%Z /\
  map fst d' = map of_string ["w"; "u"; "m"; "n"; "e"; "ab"; "a"; "c"]%string.
Proof.
  intros d d'.
  assert (H1 : NoDup (map fst d)) by exact (proj1 ex_doc_w_ok).
  assert (H2 : Permutation d d') by apply Permutation_rev.
  refine (conj H1 (conj H2 (conj (fun x => C05_denote_order d d' x H1 H2) _))). vm_compute. split; reflexivity.
Qed.

(* C05_flat_result on ex_doc_w (six entries that evaluate, one that is written back partly substituted, one that keeps its
   text) with non-empty comment tables: the theorem gives the round number m and the result; compared with the computed
   result it says what [final_data] is *)
Example C05_flat_result_applied :
  let d := ex_doc_w in let lc := [(9%N, of_string "// nine")] in let bc := [(2%N, of_string "/* two */")] in
  fdoc_ok d /\ names_free d /\
  exists m, (forall n x v, know d n x = Some v -> know d (S (S m)) x = Some v) /\
    eval_expressions (flat_sdict d lc bc []) = Some (Ok (mkSD (final_data (know d (S m)) (know d (S (S m))) d) lc bc [] [])) /\
    final_data (know d (S m)) (know d (S (S m))) d =
      [(KS (of_string "c"), Leaf (SInt (-18))); (KS (of_string "a"), Leaf (SInt 3));
       (KS (of_string "ab"), Leaf (SInt 9)); (KS (of_string "e"), Leaf (SInt 9));
       (KS (of_string "n"), Leaf (SInt (-4))); (KS (of_string "m"), Leaf (SInt 16));
       (KS (of_string "u"), Leaf (SStr (of_string "$zz + 3 ")));
       (KS (of_string "w"), Leaf (SStr (of_string "$zz * $yy ")))].
Proof.
  intros d lc bc. refine (conj ex_doc_w_ok (conj ex_doc_w_free _)).
  destruct (C05_flat_result d lc bc [] ex_doc_w_ok ex_doc_w_free) as [m [Hm He]].
  exists m. split; [exact Hm|]. split; [exact He|].
  assert (Hc : eval_expressions (flat_sdict d lc bc []) =
    Some (Ok (mkSD [(KS (of_string "c"), Leaf (SInt (-18))); (KS (of_string "a"), Leaf (SInt 3));
       (KS (of_string "ab"), Leaf (SInt 9)); (KS (of_string "e"), Leaf (SInt 9));
       (KS (of_string "n"), Leaf (SInt (-4))); (KS (of_string "m"), Leaf (SInt 16));
       (KS (of_string "u"), Leaf (SStr (of_string "$zz + 3 ")));
       (KS (of_string "w"), Leaf (SStr (of_string "$zz * $yy ")))] lc bc [] []))) by (vm_compute; reflexivity).
  rewrite Hc in He.
  pose proof (f_equal (fun o => match o with Some (Ok s) => sd_data s | _ => [] end) He) as P.
  cbv beta iota delta [sd_data] in P. symmetry. exact P.
Qed.

(* C05_peG_is_pe: a token list with unary minus, nested parentheses and both operators, with ample fuel, with too little
   fuel, a syntax error, a call *)
Example C05_peG_is_pe_nonvacuous :
  let ts := [TMinus; TLp; TInt 1; TPlus; TInt 2; TRp; TStar; TLp; TInt 3; TMinus; TMinus; TInt 4; TRp; TStar; TInt 2] in
  elex 40 (of_string "-(1 + 2) * (3 - -4) * 2") = Some ts /\
  (peG 0 30 0 ts = pe 30 0 ts /\ peG 0 5 0 ts = pe 5 0 ts /\ peG 0 30 0 [TInt 1; TPlus] = pe 30 0 [TInt 1; TPlus] /\
   peG 0 30 0 [TInt 2; TLp; TInt 3; TRp] = pe 30 0 [TInt 2; TLp; TInt 3; TRp]) /\
  pe 30 0 ts = POk (-42) [] /\ pe 5 0 ts = POutside /\ pe 30 0 [TInt 1; TPlus] = PSyntax /\
  pe 30 0 [TInt 2; TLp; TInt 3; TRp] = POutside.
Proof.
  intros ts. split; [vm_compute; reflexivity|]. split.
  - exact (conj (C05_peG_is_pe _ _ _) (conj (C05_peG_is_pe _ _ _) (conj (C05_peG_is_pe _ _ _) (C05_peG_is_pe _ _ _)))).
  - vm_compute. repeat split; reflexivity.
Qed.

(* C05_insert_terminates_leaf: three leaves of the data contain the placeholder (one of them inside a list, one in a
   sub-dict); the value inserted is a string leaf that itself contains the placeholder (one round, then the loop stops),
   and an integer leaf (every occurrence is overwritten) *)
Example C05_insert_terminates_leaf_nonvacuous :
  let ph := ph_of 7 in
  let d := Dict [(KS (of_string "a"), Leaf (SStr ph)); (KS (of_string "l"), Lst [Leaf (SInt 1); Leaf (SStr (of_string "x" ++ ph))]);
                 (KS (of_string "s"), Dict [(KS (of_string "b"), Leaf (SStr ph))])] in
  let w := SStr (of_string "x" ++ ph ++ of_string "y") in
  wf d = true /\ bad ph d = 3%nat /\
  insert_result (S (count_leaves d)) ph (Leaf w) d <> Raise E_Fuel /\
  insert_result (S (count_leaves d)) ph (Leaf (SInt 7)) d <> Raise E_Fuel /\
  insert_result (S (count_leaves d)) ph (Leaf w) d =
    Ok (Dict [(KS (of_string "a"), Leaf w); (KS (of_string "l"), Lst [Leaf (SInt 1); Leaf (SStr (of_string "x" ++ ph))]);
              (KS (of_string "s"), Dict [(KS (of_string "b"), Leaf (SStr ph))])]) /\
  insert_result (S (count_leaves d)) ph (Leaf (SInt 7)) d =
    Ok (Dict [(KS (of_string "a"), Leaf (SInt 7)); (KS (of_string "l"), Lst [Leaf (SInt 1); Leaf (SInt 7)]);
              (KS (of_string "s"), Dict [(KS (of_string "b"), Leaf (SInt 7))])]).
Proof.
  intros ph d w. assert (H : wf d = true) by (vm_compute; reflexivity).
  refine (conj H (conj _ (conj (C05_insert_terminates_leaf ph w d H) (conj (C05_insert_terminates_leaf ph (SInt 7) d H) (conj _ _)))));
  vm_compute; reflexivity.
Qed.

(* C05_denote_bare in the flattened document of ex_p: e is the bare reference $c, c the bare indexed reference $m[1] (m a list
   two dicts deep), w the bare reference " $u " (written with blanks) to an expression: the value is handed down the chain *)
Example C05_denote_bare_nonvacuous :
  let d := psem ex_p in
  NoDup (map fst d) /\
  In (of_string "e", FExp 7 g_tight (AVar (of_string "c"))) d /\ In (of_string "c", FExp 5 g_tight (AVar (of_string "m[1]"))) d /\
  In (of_string "w", FExp 4 ex_gb (AVar (of_string "u"))) d /\
  denote d (of_string "e") = Some 9%Z /\ denote d (of_string "w") = Some 54%Z /\
  denote d (of_string "c") = Some 9%Z /\ denote d (of_string "m[1]") = Some 9%Z /\ denote d (of_string "u") = Some 54%Z.
Proof.
  intros d.
  assert (H0 : NoDup (map fst d)) by exact (proj1 (proj2 (proj2 (proj2 ex_p_ok)))).
  assert (I1 : In (of_string "e", FExp 7 g_tight (AVar (of_string "c"))) d)
    by (unfold d; ex_p_unfold; cbn [psem flat_map app]; unfold ex_v; cbn; tauto).
  assert (I2 : In (of_string "c", FExp 5 g_tight (AVar (of_string "m[1]"))) d)
    by (unfold d; ex_p_unfold; cbn [psem flat_map app]; unfold ex_v; cbn; tauto).
  assert (I3 : In (of_string "w", FExp 4 ex_gb (AVar (of_string "u"))) d)
    by (unfold d; ex_p_unfold; cbn [psem flat_map app]; unfold ex_v; cbn; tauto).
  assert (D1 : denote d (of_string "e") = Some 9%Z) by (vm_compute; reflexivity).
  assert (D2 : denote d (of_string "w") = Some 54%Z) by (vm_compute; reflexivity).
  pose proof (C05_denote_bare d _ _ _ _ _ H0 I1 D1) as D3.
  pose proof (C05_denote_bare d _ _ _ _ _ H0 I2 D3) as D4.
  pose proof (C05_denote_bare d _ _ _ _ _ H0 I3 D2) as D5.
  exact (conj H0 (conj I1 (conj I2 (conj I3 (conj D1 (conj D2 (conj D3 (conj D4 D5)))))))).
Qed.

(* ================================================================================================== *)
(* added from Properties/C05_add.v (2026-10-01)                                              *)
(* ================================================================================================== *)
(* C05 (addition)  The missing link: the parser really delivers the SDict the C05 theorems speak about. *)
From Coq Require Import String.
From Coq Require Import NArith ZArith List Bool Permutation.
From DictIO Require Import Chars Str Value Scalar KeyPath SDict Layout Lexer TokParser Reader Expr Eval
     E2ESpec MiscSpec EvalSpec FlatSpec IndexSpec EvalProofs E2EHoles E2EKeyTok JsonNativeExpr RefTextProofs FlatEngine
     FlatIndexProofs FlatParseProofs.
Import ListNotations.

(* ================================================================================================ *)
(* [render_pdoc p] (FlatParseProofs.v): the native text of a document p : pdoc.  One statement per entry, statements
   separated (and the file ended) by a line feed; inside a statement the tokens are separated by one blank, nothing in
   front of a semicolon:
        x 5;             an integer                       PDyn x (FInt 5)
        x "$y + $l[1]";  an expression, the text is  render g a  (the layout g of the document)   PDyn x (FExp _ g a)
        x $y;   x $m[1]; a bare reference: an expression whose text is a reference (is_ref_str (render g a) = true)
        sub { y 4; name pump; deep { z 5; m ( 7 9 ); } }     l ( 3 5 8 );      static entries   PStat x t
   It is  dtxt ltSrc key_text c_lf (psrc p) ++ [c_lf]  where psrc p is the dict with the expression strings as leaves.
   [pnumbered c p]: p with the expression ids the parser hands out when its counter stands at c: the QUOTED expressions
   in document order first (ids c (#quoted)), then the BARE references (the next ids).
   [ptab q]: the flattened document psem q in the order of the parser's table: quoted, bare (, integers).
   [pparsed c p] = mkParsed (psdict_ord q (ptab q) [] [] []) c'   with q = pnumbered c p, c' the counter after #quoted + #bare
   steps: exactly the SDict of C05_nested_direct_value_any_table_order.
   Side conditions (both boolean):
   [pdoc_plain p]: every top-level name is a key that reads back as itself (simple_key: not "7", not "true", no reserved
     word ...), the leaves of the static entries are written bare and read back as themselves (is_plain_leaf: integers,
     booleans, None, floats and single words that the classifier does not re-type), their keys are simple;
   [nodupb (qexps p)]: the texts of the quoted expressions are pairwise different.                                      *)
(* ================================================================================================ *)

(* ---- (2) the parser delivers psdict_ord ------------------------------------------------------------------------------ *)
Theorem C05_parser_delivers_psdict : forall com dir c p, pdoc_ok p -> pdoc_plain p = true -> nodupb (qexps p) = true ->
  (-1 <= c)%Z -> (Z.of_nat (length (qexps p) + length (bexps p)) <= 1000000)%Z ->
  parse_string com dir c (render_pdoc p) = Ok (pparsed c p).
Proof. exact parser_delivers_psdict_b. Qed.
Print Assumptions C05_parser_delivers_psdict.

(* what pparsed is, and that it composes with C05_nested_direct_value_any_table_order: the numbered document is
   well-formed, its table order is a permutation of its flattened document, it has the same text, the same names and the
   same meaning as p *)
Theorem C05_parser_numbering : forall c p, pdoc_ok p -> (-1 <= c)%Z ->
  (Z.of_nat (length (qexps p) + length (bexps p)) <= 1000000)%Z ->
  pparsed c p = mkParsed (psdict_ord (pnumbered c p) (ptab (pnumbered c p)) [] [] [])
                         (cafter (cafter c (length (qexps p))) (length (bexps p))) /\
  pdoc_ok (pnumbered c p) /\ Permutation (psem (pnumbered c p)) (ptab (pnumbered c p)) /\
  render_pdoc (pnumbered c p) = render_pdoc p /\ map pname (pnumbered c p) = map pname p /\
  (forall x, denote (psem (pnumbered c p)) x = denote (psem p) x) /\
  total_doc (psem (pnumbered c p)) = total_doc (psem p).
Proof. intros c p Hok Hc Hm. split; [exact (pparsed_eq c p)|exact (numbering_composes c p Hok Hc Hm)]. Qed.
Print Assumptions C05_parser_numbering.

(* the document of C05_nested_direct_value_nonvacuous: its text, the side conditions, the parse; its ids are the ones the
   parser hands out from -1 (quoted a b f u w: 0..4, bare c g e h: 5..8) *)
Example C05_parser_delivers_psdict_nonvacuous :
  render_pdoc ex_p = of_string "a ""$y + $l[1]"";
sub { y 4; name pump; deep { z 5; flag true; m ( 7 9 ); } }
l ( 3 5 8 );
b ""$z*$a"";
f ""$c - $l[0]"";
u ""$e * $h"";
w "" $u "";
c $m[1];
n 2;
g $n;
e $c;
h $f;
" /\
  pdoc_ok ex_p /\ pdoc_plain ex_p = true /\ nodupb (qexps ex_p) = true /\
  length (qexps ex_p) = 5%nat /\ length (bexps ex_p) = 4%nat /\
  pnumbered (-1) ex_p = ex_p /\
  parse_string true (of_string "/w") (-1) (render_pdoc ex_p) = Ok (mkParsed (psdict_ord ex_p (ptab ex_p) [] [] []) 8%Z) /\
  map fst (sd_expr (psdict_ord ex_p (ptab ex_p) [] [] [])) = [0; 1; 2; 3; 4; 5; 6; 7; 8]%N.
Proof.
  split; [vm_compute; reflexivity|]. split; [exact ex_p_ok|]. split; [vm_compute; reflexivity|]. split; [vm_compute; reflexivity|].
  split; [vm_compute; reflexivity|]. split; [vm_compute; reflexivity|].
  assert (En : pnumbered (-1) ex_p = ex_p) by (vm_compute; reflexivity).
  split; [exact En|]. split; [|vm_compute; reflexivity].
  assert (Hc : (-1 <= -1)%Z) by (vm_compute; discriminate).
  assert (Hm : (Z.of_nat (length (qexps ex_p) + length (bexps ex_p)) <= 1000000)%Z) by (vm_compute; discriminate).
  assert (Hpl : pdoc_plain ex_p = true) by (vm_compute; reflexivity).
  assert (Hnd : nodupb (qexps ex_p) = true) by (vm_compute; reflexivity).
  rewrite (C05_parser_delivers_psdict true (of_string "/w") (-1) ex_p ex_p_ok Hpl Hnd Hc Hm).
  destruct (C05_parser_numbering (-1) ex_p ex_p_ok Hc Hm) as [E _]. rewrite E, En. reflexivity.
Qed.

(* a document whose ids are NOT the parser's (all 0 would not even be pdoc_ok; here: reversed), bare references first in the
   file: the parser renumbers -- ex_q of C05_nested_direct_value_any_table_order_nonvacuous with other ids *)
Definition ex_t_q : pdoc :=
  [ PDyn (of_string "g") (FExp 7 g_tight (ex_v "n"));
    PDyn (of_string "n") (FInt 2);
    PDyn (of_string "c") (FExp 5 g_tight (ex_v "m[1]"));
    PDyn (of_string "a") (FExp 9 (ex_gi 3) (AAdd (ex_v "c") (ex_v "g")));
    PStat (of_string "box") (Dict [(KS (of_string "m"), ex_ints [7; 9]%Z)]) ].

Example C05_parser_numbering_nonvacuous :
  pdoc_ok ex_t_q /\ pdoc_plain ex_t_q = true /\ nodupb (qexps ex_t_q) = true /\
  render_pdoc ex_t_q = of_string "g $n;
n 2;
c $m[1];
a ""$c + $g"";
box { m ( 7 9 ); }
" /\
  pnumbered 16 ex_t_q = [ PDyn (of_string "g") (FExp 18 g_tight (ex_v "n")); PDyn (of_string "n") (FInt 2);
                          PDyn (of_string "c") (FExp 19 g_tight (ex_v "m[1]"));
                          PDyn (of_string "a") (FExp 17 (ex_gi 3) (AAdd (ex_v "c") (ex_v "g")));
                          PStat (of_string "box") (Dict [(KS (of_string "m"), ex_ints [7; 9]%Z)]) ] /\
  map fst (ptab (pnumbered 16 ex_t_q)) = map of_string ["a"; "g"; "c"; "n"; "m[0]"; "m[1]"]%string /\
  parse_string false (of_string "/w") 16 (render_pdoc ex_t_q) = Ok (pparsed 16 ex_t_q) /\
  pr_count (pparsed 16 ex_t_q) = 19%Z /\
  pdoc_ok (pnumbered 16 ex_t_q) /\ denote (psem (pnumbered 16 ex_t_q)) (of_string "a") = Some 11%Z.
Proof.
  assert (Hok : pdoc_ok ex_t_q) by (unfold ex_t_q; pdoc_ok_tac).
  split; [exact Hok|]. split; [vm_compute; reflexivity|]. split; [vm_compute; reflexivity|]. split; [vm_compute; reflexivity|].
  split; [vm_compute; reflexivity|]. split; [vm_compute; reflexivity|].
  assert (Hc : (-1 <= 16)%Z) by (vm_compute; discriminate).
  assert (Hm : (Z.of_nat (length (qexps ex_t_q) + length (bexps ex_t_q)) <= 1000000)%Z) by (vm_compute; discriminate).
  split; [apply (C05_parser_delivers_psdict false (of_string "/w") 16 ex_t_q Hok); try assumption; vm_compute; reflexivity|].
  split; [vm_compute; reflexivity|].
  destruct (C05_parser_numbering 16 ex_t_q Hok Hc Hm) as (_ & Hq & _ & _ & _ & Hd & _).
  split; [exact Hq|]. rewrite Hd. vm_compute. reflexivity.
Qed.

(* ---- Corollary: reading the file.  Every dynamic entry holds the directly computed value ------------------------------ *)
Theorem C05_text_direct_value : forall p fs root c, pdoc_ok p -> pdoc_plain p = true -> nodupb (qexps p) = true -> (-1 <= c)%Z ->
  (Z.of_nat (length (qexps p) + length (bexps p)) <= 1000000)%Z -> total_doc (psem p) = true ->
  fs_lookup (norm_path root) fs = Some (FNative (render_pdoc p)) ->
  exists s', read_full fs root true c = Some (Ok (s', cafter (cafter c (length (qexps p))) (length (bexps p)))) /\
    sd_expr s' = [] /\ map fst (sd_data s') = map KS (map pname p) /\
    (forall x v z, In (PDyn x v) p -> denote (psem p) x = Some z -> alookup (KS x) (sd_data s') = Some (Leaf (SInt z))) /\
    (forall x t, In (PStat x t) p -> alookup (KS x) (sd_data s') = Some t).
Proof. exact text_direct_value_b. Qed.
Print Assumptions C05_text_direct_value.

(* the document of C05_nested_direct_value_nonvacuous, through its text *)
Example C05_text_direct_value_nonvacuous :
  let fs : fsys := [(of_string "/w/root", FNative (render_pdoc ex_p))] in
  pdoc_ok ex_p /\ pdoc_plain ex_p = true /\ nodupb (qexps ex_p) = true /\ total_doc (psem ex_p) = true /\
  exists s', read_full fs (of_string "/w/root") true (-1) = Some (Ok (s', 8%Z)) /\ sd_expr s' = [] /\
    alookup (KS (of_string "a")) (sd_data s') = Some (Leaf (SInt 9)) /\
    alookup (KS (of_string "b")) (sd_data s') = Some (Leaf (SInt 45)) /\
    alookup (KS (of_string "c")) (sd_data s') = Some (Leaf (SInt 9)) /\
    alookup (KS (of_string "f")) (sd_data s') = Some (Leaf (SInt 6)) /\
    alookup (KS (of_string "g")) (sd_data s') = Some (Leaf (SInt 2)) /\
    alookup (KS (of_string "e")) (sd_data s') = Some (Leaf (SInt 9)) /\
    alookup (KS (of_string "h")) (sd_data s') = Some (Leaf (SInt 6)) /\
    alookup (KS (of_string "u")) (sd_data s') = Some (Leaf (SInt 54)) /\
    alookup (KS (of_string "w")) (sd_data s') = Some (Leaf (SInt 54)) /\
    alookup (KS (of_string "l")) (sd_data s') = Some (ex_ints [3; 5; 8]%Z).
Proof.
  intros fs.
  assert (Hpl : pdoc_plain ex_p = true) by (vm_compute; reflexivity).
  assert (Hnd : nodupb (qexps ex_p) = true) by (vm_compute; reflexivity).
  assert (Ht : total_doc (psem ex_p) = true) by (vm_compute; reflexivity).
  refine (conj ex_p_ok (conj Hpl (conj Hnd (conj Ht _)))).
  assert (Hc : (-1 <= -1)%Z) by (vm_compute; discriminate).
  assert (Hm : (Z.of_nat (length (qexps ex_p) + length (bexps ex_p)) <= 1000000)%Z) by (vm_compute; discriminate).
  assert (Hfs : fs_lookup (norm_path (of_string "/w/root")) fs = Some (FNative (render_pdoc ex_p))) by (vm_compute; reflexivity).
  destruct (C05_text_direct_value ex_p fs (of_string "/w/root") (-1) ex_p_ok Hpl Hnd Hc Hm Ht Hfs) as (s' & Hr & Hx & _ & Hv & Hs).
  exists s'. split; [exact Hr|]. split; [exact Hx|].
  repeat split; first [ eapply Hv; [ex_p_unfold; cbn [In]; tauto | vm_compute; reflexivity]
                      | apply Hs; ex_p_unfold; cbn [In]; tauto ].
Qed.

(* ---- findings: what the side conditions exclude --------------------------------------------------------------------- *)
Definition ex_t_y1 : aexp := AAdd (ex_v "y") (ANum 1).

(* (a) names that the classifier re-types (word_name allows them, simple_key does not): the key 7 comes back as the integer
   key 7, the key true makes the parser raise (bool keys are outside the model; the library delivers the key True) *)
Example C05_parser_key_finding :
  let p7 : pdoc := [PDyn (of_string "7") (FInt 1)] in
  let pt : pdoc := [PDyn (of_string "true") (FInt 1)] in
  pdoc_ok p7 /\ pdoc_plain p7 = false /\
  parse_string true (of_string "/w") (-1) (render_pdoc p7) = Ok (mkParsed (mkSD [(KI 7, Leaf (SInt 1))] [] [] [] []) (-1)%Z) /\
  sd_data (pr_sd (pparsed (-1) p7)) = [(KS (of_string "7"), Leaf (SInt 1))] /\
  pdoc_ok pt /\ pdoc_plain pt = false /\
  parse_string true (of_string "/w") (-1) (render_pdoc pt) = Raise E_Outside.
Proof.
  intros p7 pt. split; [unfold p7; pdoc_ok_tac|]. split; [vm_compute; reflexivity|]. split; [vm_compute; reflexivity|].
  split; [vm_compute; reflexivity|]. split; [unfold pt; pdoc_ok_tac|]. split; vm_compute; reflexivity.
Qed.

(* (b) a static string leaf that the classifier re-types: the string "5" comes back as the integer 5 *)
Example C05_parser_static_leaf_finding :
  let p : pdoc := [PStat (of_string "s") (Leaf (SStr (of_string "5")))] in
  pdoc_ok p /\ pdoc_plain p = false /\
  parse_string true (of_string "/w") (-1) (render_pdoc p) = Ok (mkParsed (mkSD [(KS (of_string "s"), Leaf (SInt 5))] [] [] [] []) (-1)%Z) /\
  sd_data (pr_sd (pparsed (-1) p)) = [(KS (of_string "s"), Leaf (SStr (of_string "5")))].
Proof. intros p. split; [unfold p; pdoc_ok_tac|]. repeat split; vm_compute; reflexivity. Qed.

(* (c) a static string that needs quotes: the string literals of a file are numbered BEFORE its expressions (one counter),
   so the ids of the expressions are shifted by the number of literals (here a gets id 1, the counter ends at 1; pparsed
   says id 0, counter 0).  Not covered by pdoc_plain: the statement would have to start the numbering behind the literals *)
Example C05_parser_quoted_static_finding :
  let p : pdoc := [PStat (of_string "s") (Leaf (SStr (of_string "a b"))); PDyn (of_string "y") (FInt 4);
                   PDyn (of_string "a") (FExp 0 g_tight ex_t_y1)] in
  pdoc_ok p /\ pdoc_plain p = false /\
  render_pdoc p = of_string "s 'a b';
y 4;
a ""$y+1"";
" /\
  (exists pr, parse_string true (of_string "/w") (-1) (render_pdoc p) = Ok pr /\ pr_count pr = 1%Z /\
              map fst (sd_expr (pr_sd pr)) = [1%N] /\
              sd_data (pr_sd pr) = [(KS (of_string "s"), Leaf (SStr (of_string "a b"))); (KS (of_string "y"), Leaf (SInt 4));
                                    (KS (of_string "a"), Leaf (SStr (ph_of 1)))]) /\
  pr_count (pparsed (-1) p) = 0%Z /\ map fst (sd_expr (pr_sd (pparsed (-1) p))) = [0%N].
Proof.
  intros p. split; [unfold p; pdoc_ok_tac|]. split; [vm_compute; reflexivity|]. split; [vm_compute; reflexivity|].
  split; [|split; vm_compute; reflexivity].
  destruct (parse_string true (of_string "/w") (-1) (render_pdoc p)) as [pr|e] eqn:E; [|vm_compute in E; discriminate E].
  exists pr. split; [reflexivity|]. vm_compute in E. inversion E; subst pr. repeat split; vm_compute; reflexivity.
Qed.

(* (d) two quoted expressions with the same text: the lexer replaces EVERY occurrence of the first text by the first
   placeholder; both leaves hold EXPRESSION000000, the second table entry (id 1) is never referred to.  (The values the
   reader computes are still the direct ones: a = b = 5.)  Bare references may repeat. *)
Example C05_parser_duplicate_expression_finding :
  let p : pdoc := [PDyn (of_string "y") (FInt 4); PDyn (of_string "a") (FExp 0 g_tight ex_t_y1);
                   PDyn (of_string "b") (FExp 1 g_tight ex_t_y1)] in
  let fs : fsys := [(of_string "/w/root", FNative (render_pdoc p))] in
  pdoc_ok p /\ pdoc_plain p = true /\ nodupb (qexps p) = false /\
  render_pdoc p = of_string "y 4;
a ""$y+1"";
b ""$y+1"";
" /\
  (exists pr, parse_string true (of_string "/w") (-1) (render_pdoc p) = Ok pr /\
              sd_data (pr_sd pr) = [(KS (of_string "y"), Leaf (SInt 4)); (KS (of_string "a"), Leaf (SStr (ph_of 0)));
                                    (KS (of_string "b"), Leaf (SStr (ph_of 0)))] /\
              sd_expr (pr_sd pr) = sd_expr (pr_sd (pparsed (-1) p))) /\
  sd_data (pr_sd (pparsed (-1) p)) = [(KS (of_string "y"), Leaf (SInt 4)); (KS (of_string "a"), Leaf (SStr (ph_of 0)));
                                      (KS (of_string "b"), Leaf (SStr (ph_of 1)))] /\
  (exists s', read_full fs (of_string "/w/root") true (-1) = Some (Ok (s', 1%Z)) /\
              sd_data s' = [(KS (of_string "y"), Leaf (SInt 4)); (KS (of_string "a"), Leaf (SInt 5)); (KS (of_string "b"), Leaf (SInt 5))]).
Proof.
  intros p fs. split; [unfold p, ex_t_y1; pdoc_ok_tac|]. split; [vm_compute; reflexivity|]. split; [vm_compute; reflexivity|].
  split; [vm_compute; reflexivity|]. split; [|split; [vm_compute; reflexivity|]].
  - destruct (parse_string true (of_string "/w") (-1) (render_pdoc p)) as [pr|e] eqn:E; [|vm_compute in E; discriminate E].
    exists pr. split; [reflexivity|]. vm_compute in E. inversion E; subst pr. split; vm_compute; reflexivity.
  - destruct (read_full fs (of_string "/w/root") true (-1)) as [[[s' c']|e]|] eqn:E; try (vm_compute in E; discriminate E).
    vm_compute in E. inversion E; subst s' c'. eexists. split; reflexivity.
Qed.

(* bare references may repeat (each occurrence gets its own id) *)
Example C05_parser_repeated_bare_reference :
  let p : pdoc := [PDyn (of_string "y") (FInt 4); PDyn (of_string "a") (FExp 0 g_tight (ex_v "y"));
                   PDyn (of_string "b") (FExp 1 g_tight (ex_v "y"))] in
  pdoc_ok p /\ pdoc_plain p = true /\ nodupb (qexps p) = true /\ bexps p = [of_string "$y"; of_string "$y"] /\
  parse_string true (of_string "/w") (-1) (render_pdoc p) = Ok (pparsed (-1) p) /\ pnumbered (-1) p = p.
Proof.
  intros p. assert (Hok : pdoc_ok p) by (unfold p; pdoc_ok_tac).
  split; [exact Hok|]. split; [vm_compute; reflexivity|]. split; [vm_compute; reflexivity|]. split; [vm_compute; reflexivity|].
  split; [|vm_compute; reflexivity].
  apply (C05_parser_delivers_psdict true (of_string "/w") (-1) p Hok); vm_compute; try reflexivity; discriminate.
Qed.


(* (e) the counter below -1 (the finding of C01: Z.to_N (-1) = Z.to_N 0 = 0, both expressions get the id 0, the second table
   entry overwrites the first): the parser delivers ONE table entry, a is evaluated with the text of b.  Hence (-1 <= c). *)
Example C05_parser_counter_finding :
  let p : pdoc := [PDyn (of_string "y") (FInt 4); PDyn (of_string "a") (FExp 0 g_tight ex_t_y1);
                   PDyn (of_string "b") (FExp 1 g_tight (AAdd (ex_v "y") (ANum 2)))] in
  let fs : fsys := [(of_string "/w/root", FNative (render_pdoc p))] in
  pdoc_ok p /\ pdoc_plain p = true /\ nodupb (qexps p) = true /\
  (exists pr, parse_string true (of_string "/w") (-2) (render_pdoc p) = Ok pr /\
              sd_expr (pr_sd pr) = [(0%N, (of_string "$y+2", ph_of 0))]) /\
  map fst (sd_expr (pr_sd (pparsed (-2) p))) = [0%N; 0%N] /\
  denote (psem p) (of_string "a") = Some 5%Z /\
  (exists s', read_full fs (of_string "/w/root") true (-2) = Some (Ok (s', 0%Z)) /\
              alookup (KS (of_string "a")) (sd_data s') = Some (Leaf (SInt 6))).
Proof.
  intros p fs. split; [unfold p, ex_t_y1; pdoc_ok_tac|]. split; [vm_compute; reflexivity|]. split; [vm_compute; reflexivity|].
  split; [|split; [vm_compute; reflexivity|split; [vm_compute; reflexivity|]]].
  - destruct (parse_string true (of_string "/w") (-2) (render_pdoc p)) as [pr|e] eqn:E; [|vm_compute in E; discriminate E].
    exists pr. split; [reflexivity|]. vm_compute in E. inversion E; subst pr. vm_compute. reflexivity.
  - destruct (read_full fs (of_string "/w/root") true (-2)) as [[[s' c']|e]|] eqn:E; try (vm_compute in E; discriminate E).
    vm_compute in E. inversion E; subst s' c'. eexists. split; reflexivity.
Qed.

(* ================================================================================================== *)
(* added from Properties/C05_add.v, job pj_fix (2026-10-01)                                   *)
(* ================================================================================================== *)
(* C05 (addition): which side conditions of C05_text_direct_value are needed for the VALUES.  Findings only (machine checked
   by evaluation); the weaker corollary C05_text_direct_value_weak is NOT proved here, see the note at the end.
   To be appended to Properties/C05.v. *)
From Coq Require Import String.
From Coq Require Import NArith ZArith List Bool Permutation.
From DictIO Require Import Chars Str Value Scalar KeyPath SDict Layout Lexer TokParser Reader Expr Eval
     E2ESpec MiscSpec EvalSpec FlatSpec IndexSpec EvalProofs E2EHoles E2EKeyTok JsonNativeExpr RefTextProofs FlatEngine
     FlatIndexProofs FlatParseProofs.
Import ListNotations.

Definition c05w_read (p : pdoc) (c : Z) : option (list (key * tree) * Z) :=
  match read_full [(of_string "/w/root", FNative (render_pdoc p))] (of_string "/w/root") true c with
  | Some (Ok (s, k)) => Some (sd_data s, k)
  | _ => None
  end.

(* (1) the KEY half of pdoc_plain (simple_key of every top-level name) IS needed for the values: the name 7 is read back as
   the integer key 7, the entry is not found under the string key, and the expression "$7+1" that refers to it stays
   unresolved although the document denotes 2 for it.  Same on the library (dictIO 0.4.1: DictReader.read of the two
   lines  7 1;  a "$7+1";  returns {7: 1, 'a': '$7+1'}). *)
Example C05_text_direct_value_key_finding :
  let p : pdoc := [PDyn (of_string "7") (FInt 1); PDyn (of_string "a") (FExp 0 g_tight (AAdd (ex_v "7") (ANum 1)))] in
  pdoc_ok p /\ pdoc_plain p = false /\ nodupb (qexps p) = true /\ total_doc (psem p) = true /\
  render_pdoc p = of_string "7 1;
a ""$7+1"";
" /\
  denote (psem p) (of_string "7") = Some 1%Z /\ denote (psem p) (of_string "a") = Some 2%Z /\
  c05w_read p (-1) = Some ([(KI 7, Leaf (SInt 1)); (KS (of_string "a"), Leaf (SStr (of_string "$7+1")))], 0%Z).
Proof.
  intros p. split; [unfold p; pdoc_ok_tac|]. repeat split; vm_compute; reflexivity.
Qed.

(* (2) the LEAF half of pdoc_plain (static leaves written bare and read back as themselves) is not needed for the values of
   the DYNAMIC entries in these instances, but it is needed for two other conclusions of the theorem:
   - a static string that needs quotes draws an id of the one counter before the expressions: the values are the direct
     ones (a = 5, b = 6), the counter the read ends with is 2, not  cafter (cafter c #quoted) #bare = 1;
   - a static string that the classifier re-types ("5") comes back as the integer 5: the conclusion about static entries
     (alookup (KS x) = Some t) fails, the dynamic values are the direct ones. *)
Example C05_text_direct_value_static_leaf_finding :
  let pq : pdoc := [PStat (of_string "s") (Leaf (SStr (of_string "a b"))); PDyn (of_string "y") (FInt 4);
                    PDyn (of_string "a") (FExp 0 g_tight ex_t_y1); PDyn (of_string "b") (FExp 1 g_tight (AAdd (ex_v "a") (ANum 1)))] in
  let ps : pdoc := [PStat (of_string "s") (Leaf (SStr (of_string "5"))); PDyn (of_string "y") (FInt 4);
                    PDyn (of_string "a") (FExp 0 g_tight ex_t_y1)] in
  (pdoc_ok pq /\ pdoc_plain pq = false /\ nodupb (qexps pq) = true /\ total_doc (psem pq) = true /\
   denote (psem pq) (of_string "a") = Some 5%Z /\ denote (psem pq) (of_string "b") = Some 6%Z /\
   cafter (cafter (-1) (length (qexps pq))) (length (bexps pq)) = 1%Z /\
   c05w_read pq (-1) = Some ([(KS (of_string "s"), Leaf (SStr (of_string "a b"))); (KS (of_string "y"), Leaf (SInt 4));
                              (KS (of_string "a"), Leaf (SInt 5)); (KS (of_string "b"), Leaf (SInt 6))], 2%Z)) /\
  (pdoc_ok ps /\ pdoc_plain ps = false /\ total_doc (psem ps) = true /\ denote (psem ps) (of_string "a") = Some 5%Z /\
   c05w_read ps (-1) = Some ([(KS (of_string "s"), Leaf (SInt 5)); (KS (of_string "y"), Leaf (SInt 4));
                              (KS (of_string "a"), Leaf (SInt 5))], 0%Z)).
Proof.
  intros pq ps. split.
  - split; [unfold pq, ex_t_y1; pdoc_ok_tac|]. repeat split; vm_compute; reflexivity.
  - split; [unfold ps, ex_t_y1; pdoc_ok_tac|]. repeat split; vm_compute; reflexivity.
Qed.

(* (3) nodupb (qexps p) is not needed for ANY conclusion of the theorem in this instance: three quoted expressions, two with
   the same text, the third referring to both.  The parser's SDict differs from pparsed (C05_parser_duplicate_expression_finding:
   both leaves hold the first placeholder, the second table entry is never referred to), but every value is the direct one,
   the keys are the names and the counter is  cafter (cafter c #quoted) #bare.  Same on the library ({'y': 4, 'a': 5, 'b': 5,
   'c': 10}).  No counterexample to the theorem without nodupb was found. *)
Example C05_text_direct_value_duplicates_evidence :
  let p : pdoc := [PDyn (of_string "y") (FInt 4); PDyn (of_string "a") (FExp 0 g_tight ex_t_y1);
                   PDyn (of_string "b") (FExp 1 g_tight ex_t_y1); PDyn (of_string "c") (FExp 2 g_tight (AAdd (ex_v "b") (ex_v "a")))] in
  pdoc_ok p /\ pdoc_plain p = true /\ nodupb (qexps p) = false /\ total_doc (psem p) = true /\
  denote (psem p) (of_string "a") = Some 5%Z /\ denote (psem p) (of_string "b") = Some 5%Z /\ denote (psem p) (of_string "c") = Some 10%Z /\
  cafter (cafter (-1) (length (qexps p))) (length (bexps p)) = 2%Z /\
  c05w_read p (-1) = Some ([(KS (of_string "y"), Leaf (SInt 4)); (KS (of_string "a"), Leaf (SInt 5));
                            (KS (of_string "b"), Leaf (SInt 5)); (KS (of_string "c"), Leaf (SInt 10))], 2%Z).
Proof.
  intros p. split; [unfold p, ex_t_y1; pdoc_ok_tac|]. repeat split; vm_compute; reflexivity.
Qed.

(* NOT PROVED (C05_text_direct_value_weak):
     the statement of C05_text_direct_value without  nodupb (qexps p) = true  (all five conclusions), and with pdoc_plain
     weakened to its key half for the fourth conclusion (the values of the dynamic entries).
   Why it is not a corollary: text_direct_value rewrites the parse of the text to  pparsed c p  (parser_delivers_psdict) and
   applies the evaluation theorem pdoc_value_ord to the document  pnumbered c p.  With duplicate texts the parse is not
   pparsed of any pdoc_ok document (pdoc_ok asks for pairwise distinct ids, the parse has two leaves with one id and a table
   entry nobody refers to); with a quoted static literal the ids start behind the literals.  Both need the evaluation
   theorem (Proofs/FlatIndexProofs.v / FlatEngine.v) for SDicts whose leaves share table entries resp. whose table has
   unreferenced entries, and the lexer / parser sections of Proofs/FlatParseProofs.v for sources with repeated texts. *)

(* ================================================================================================== *)
(* added from Properties/C05_add2.v (2026-10-01)                                              *)
(* ================================================================================================== *)
(* C05, additions (2): plain references to values of ANY type -- strings (any characters), floats, booleans, None,
   lists, nested dicts --, whole documents, chains of references, any order of the entries; and a reference to a key
   that is declared in an included file only.
   Vocabulary (Proofs/RefAnyProofs.v):
     rdoc            a document: list of (name, VLit tree | VRef id target)   -- "name value;" / "name $target;"
     ref_sdict d     the SDict the parser delivers for d: every reference is an EXPRESSIONnnnnnn placeholder leaf, the
                     table of expressions holds ("$target", placeholder) in document order
     denote_ref d y  the literal the chain of references starting at y ends in (depth: number of entries); None when
                     the chain reaches an undeclared name or runs in a cycle
     ref_value d y   denote_ref d y, except that the literal None counts as unresolved (the library leaves "$y")
     ref_result d    the data after reading: literals unchanged, a reference holds [ref_value], else its text "$target"
     rdoc_okb d      the side conditions, a boolean (see the _finding examples below) *)
From Coq Require Import String.
From Coq Require Import NArith ZArith List Bool Permutation.
From DictIO Require Import Chars Str Value Scalar KeyPath SDict Layout Lexer TokParser Reader Expr Eval
     MiscSpec EvalSpec FlatSpec IndexSpec RefAnyProofs.
Import ListNotations.
Local Open Scope string_scope.

(* ---- 1. whole documents of plain references, values of any type ----------------------------------------------- *)
(* the reader answers; literals are unchanged; every reference whose chain ends in a literal holds exactly that tree
   (no re-typing, no evaluation); a dangling or cyclic reference -- and a reference to None -- keeps its text; the
   order of the entries is kept; the table of expressions is empty *)
Theorem C05_reference_document_any_type : forall d lc bc inc, rdoc_okb d = true ->
  eval_expressions (ref_sdict d lc bc inc) = Some (Ok (mkSD (ref_result d) lc bc inc [])).
Proof. exact reference_document_any_type. Qed.
Print Assumptions C05_reference_document_any_type.

(* the same, read key by key *)
Theorem C05_reference_value_any_type : forall d lc bc inc, rdoc_okb d = true ->
  exists s', eval_expressions (ref_sdict d lc bc inc) = Some (Ok s') /\ sd_expr s' = [] /\
    map fst (sd_data s') = map KS (map fst d) /\
    (forall x t, In (x, VLit t) d -> alookup (KS x) (sd_data s') = Some t) /\
    (forall x i y t, In (x, VRef i y) d -> denote_ref d y = Some t -> t <> Leaf SNone ->
       alookup (KS x) (sd_data s') = Some t) /\
    (forall x i y, In (x, VRef i y) d -> denote_ref d y = None \/ denote_ref d y = Some (Leaf SNone) ->
       alookup (KS x) (sd_data s') = Some (Leaf (SStr (ref_of y)))).
Proof. exact reference_value_any_type. Qed.
Print Assumptions C05_reference_value_any_type.

Definition ra_s (s : string) : str := of_string s.
Definition ra_str (s : string) : tree := Leaf (SStr (of_string s)).
(* b $a; a "x 'y' ""z"" #;{"; c $b; l (1 2.5 ('q')); m $l; n NULL; o $n; t true; u $t; f 2.50; g $f;
   sub { k 5; s ( { kk NULL; } ); } h $sub; z $zz; p $q; q $p; self $self; toself $self; cc $c;
   -- forward and backward references, chains of depth 3 (cc -> c -> b -> a), a string with blanks, both quotes and
   structure characters, float, bool, None, nested list, dict with a list of dicts, dangling, cycle, self reference *)
Definition ra_doc : rdoc :=
  [ (ra_s "b", VRef 5 (ra_s "a")); (ra_s "a", VLit (ra_str "x 'y' ""z"" #;{"));
    (ra_s "c", VRef 6 (ra_s "b"));
    (ra_s "l", VLit (Lst [Leaf (SInt 1); Leaf (SFloat (ra_s "2.5")); Lst [ra_str "q"]]));
    (ra_s "m", VRef 7 (ra_s "l")); (ra_s "n", VLit (Leaf SNone)); (ra_s "o", VRef 8 (ra_s "n"));
    (ra_s "t", VLit (Leaf (SBool true))); (ra_s "u", VRef 9 (ra_s "t"));
    (ra_s "f", VLit (Leaf (SFloat (ra_s "2.50")))); (ra_s "g", VRef 17 (ra_s "f"));
    (ra_s "sub", VLit (Dict [(KS (ra_s "k"), Leaf (SInt 5)); (KS (ra_s "s"), Lst [Dict [(KS (ra_s "kk"), Leaf SNone)]])]));
    (ra_s "h", VRef 10 (ra_s "sub")); (ra_s "z", VRef 11 (ra_s "zz")); (ra_s "p", VRef 12 (ra_s "q"));
    (ra_s "q", VRef 13 (ra_s "p")); (ra_s "self", VRef 14 (ra_s "self")); (ra_s "toself", VRef 15 (ra_s "self"));
    (ra_s "cc", VRef 16 (ra_s "c")) ].

Example C05_reference_document_any_type_nonvacuous :
  rdoc_okb ra_doc = true /\
  eval_expressions (ref_sdict ra_doc [] [] []) = Some (Ok (mkSD (ref_result ra_doc) [] [] [] [])) /\
  length (sd_expr (ref_sdict ra_doc [] [] [])) = 13%nat /\
  ref_result ra_doc =
  [ (KS (ra_s "b"), ra_str "x 'y' ""z"" #;{"); (KS (ra_s "a"), ra_str "x 'y' ""z"" #;{");
    (KS (ra_s "c"), ra_str "x 'y' ""z"" #;{");
    (KS (ra_s "l"), Lst [Leaf (SInt 1); Leaf (SFloat (ra_s "2.5")); Lst [ra_str "q"]]);
    (KS (ra_s "m"), Lst [Leaf (SInt 1); Leaf (SFloat (ra_s "2.5")); Lst [ra_str "q"]]);
    (KS (ra_s "n"), Leaf SNone); (KS (ra_s "o"), ra_str "$n");
    (KS (ra_s "t"), Leaf (SBool true)); (KS (ra_s "u"), Leaf (SBool true));
    (KS (ra_s "f"), Leaf (SFloat (ra_s "2.50"))); (KS (ra_s "g"), Leaf (SFloat (ra_s "2.50")));
    (KS (ra_s "sub"), Dict [(KS (ra_s "k"), Leaf (SInt 5)); (KS (ra_s "s"), Lst [Dict [(KS (ra_s "kk"), Leaf SNone)]])]);
    (KS (ra_s "h"), Dict [(KS (ra_s "k"), Leaf (SInt 5)); (KS (ra_s "s"), Lst [Dict [(KS (ra_s "kk"), Leaf SNone)]])]);
    (KS (ra_s "z"), ra_str "$zz"); (KS (ra_s "p"), ra_str "$q"); (KS (ra_s "q"), ra_str "$p");
    (KS (ra_s "self"), ra_str "$self"); (KS (ra_s "toself"), ra_str "$self");
    (KS (ra_s "cc"), ra_str "x 'y' ""z"" #;{") ].
Proof.
  assert (H : rdoc_okb ra_doc = true) by (vm_compute; reflexivity).
  refine (conj H (conj (C05_reference_document_any_type ra_doc [] [] [] H) _)).
  split; vm_compute; reflexivity.
Qed.

Example C05_reference_value_any_type_nonvacuous :
  exists s', eval_expressions (ref_sdict ra_doc [] [] []) = Some (Ok s') /\ sd_expr s' = [] /\
    alookup (KS (ra_s "cc")) (sd_data s') = Some (ra_str "x 'y' ""z"" #;{") /\
    alookup (KS (ra_s "g")) (sd_data s') = Some (Leaf (SFloat (ra_s "2.50"))) /\
    alookup (KS (ra_s "u")) (sd_data s') = Some (Leaf (SBool true)) /\
    alookup (KS (ra_s "q")) (sd_data s') = Some (ra_str "$p") /\
    alookup (KS (ra_s "o")) (sd_data s') = Some (ra_str "$n") /\
    alookup (KS (ra_s "l")) (sd_data s') = Some (Lst [Leaf (SInt 1); Leaf (SFloat (ra_s "2.5")); Lst [ra_str "q"]]).
Proof.
  assert (H : rdoc_okb ra_doc = true) by (vm_compute; reflexivity).
  destruct (C05_reference_value_any_type ra_doc [] [] [] H) as [s' [He [Hx [_ [Hl [Hr Hu]]]]]].
  exists s'. split; [exact He|]. split; [exact Hx|].
  split; [apply (Hr (ra_s "cc") 16%N (ra_s "c")); [unfold ra_doc; cbn [In]; tauto | vm_compute; reflexivity | discriminate]|].
  split; [apply (Hr (ra_s "g") 17%N (ra_s "f")); [unfold ra_doc; cbn [In]; tauto | vm_compute; reflexivity | discriminate]|].
  split; [apply (Hr (ra_s "u") 9%N (ra_s "t")); [unfold ra_doc; cbn [In]; tauto | vm_compute; reflexivity | discriminate]|].
  split; [apply (Hu (ra_s "q") 13%N (ra_s "p")); [unfold ra_doc; cbn [In]; tauto | left; vm_compute; reflexivity]|].
  split; [apply (Hu (ra_s "o") 8%N (ra_s "n")); [unfold ra_doc; cbn [In]; tauto | right; vm_compute; reflexivity]|].
  apply Hl. unfold ra_doc; cbn [In]; tauto.
Qed.

(* the real front end delivers [ref_sdict] of a document (ids in the order of appearance, after the three quoted
   strings that take the numbers 0 1 2), and read_full gives the
   result of the theorem: strings, float, bool, None, list, nested dict, chain, forward reference, dangling, cycle *)
Definition ra_file_doc : rdoc :=
  [ (ra_s "b", VRef 3 (ra_s "a")); (ra_s "a", VLit (ra_str "x y"));
    (ra_s "c", VRef 4 (ra_s "b"));
    (ra_s "l", VLit (Lst [Leaf (SInt 1); Leaf (SFloat (ra_s "2.5")); ra_str "q"]));
    (ra_s "m", VRef 5 (ra_s "l")); (ra_s "n", VLit (Leaf SNone)); (ra_s "o", VRef 6 (ra_s "n"));
    (ra_s "t", VLit (Leaf (SBool true))); (ra_s "u", VRef 7 (ra_s "t"));
    (ra_s "f", VLit (Leaf (SFloat (ra_s "2.50")))); (ra_s "g", VRef 8 (ra_s "f"));
    (ra_s "sub", VLit (Dict [(KS (ra_s "k"), Leaf (SInt 5)); (KS (ra_s "s"), ra_str "it")]));
    (ra_s "h", VRef 9 (ra_s "sub")); (ra_s "z", VRef 10 (ra_s "zz")); (ra_s "p", VRef 11 (ra_s "q"));
    (ra_s "q", VRef 12 (ra_s "p")) ].
Example C05_reference_document_any_type_reader :
  let text := of_string "b $a; a 'x y'; c $b; l (1 2.5 'q'); m $l; n NULL; o $n; t true; u $t; f 2.50; g $f; sub { k 5; s 'it'; } h $sub; z $zz; p $q; q $p;
" in
  let fs : fsys := [(of_string "/w/root", FNative text)] in
  rdoc_okb ra_file_doc = true /\
  (match fs_lookup (norm_path (of_string "/w/root")) fs with
   | Some u => match parse_unit false (of_string "/w/root") (-1) u with
               | Ok pr => pr_sd pr = ref_sdict ra_file_doc [] [] []
               | Raise _ => False
               end
   | None => False
   end) /\
  read_full fs (of_string "/w/root") false (-1) = Some (Ok (mkSD (ref_result ra_file_doc) [] [] [] [], 12%Z)).
Proof. vm_compute. repeat split; reflexivity. Qed.

(* ---- the side conditions, each forced by a document on which the conclusion fails ---------------------------- *)
Definition ra_get (x : string) (d : rdoc) : option tree * option tree :=
  (match eval_expressions (ref_sdict d [] [] []) with
   | Some (Ok s) => alookup (KS (ra_s x)) (sd_data s)
   | _ => None
   end, alookup (KS (ra_s x)) (ref_result d)).

(* no side condition, part of the statement: a reference to the literal None keeps its text (a NULL; b $a;  gives
   b = '$a' in the library as well) *)
Example C05_reference_none_finding :
  let d := [(ra_s "a", VLit (Leaf SNone)); (ra_s "b", VRef 0 (ra_s "a"))] in
  rdoc_okb d = true /\ ra_get "b" d = (Some (ra_str "$a"), Some (ra_str "$a")).
Proof. vm_compute. split; reflexivity. Qed.

(* a target that is also a key inside a nested dict: SDict.variables is one flat table, the later binding wins, so
   the value depends on the order of the entries:  k 1; sub {k 5;} b $k;  gives 5,  sub {k 5;} k 1; b $k;  gives 1
   (the library agrees on both) *)
Example C05_reference_nested_key_finding :
  let d1 := [(ra_s "k", VLit (Leaf (SInt 1))); (ra_s "sub", VLit (Dict [(KS (ra_s "k"), Leaf (SInt 5))])); (ra_s "b", VRef 0 (ra_s "k"))] in
  let d2 := [(ra_s "sub", VLit (Dict [(KS (ra_s "k"), Leaf (SInt 5))])); (ra_s "k", VLit (Leaf (SInt 1))); (ra_s "b", VRef 0 (ra_s "k"))] in
  rdoc_okb d1 = false /\ ra_get "b" d1 = (Some (Leaf (SInt 5)), Some (Leaf (SInt 1))) /\
  rdoc_okb d2 = false /\ ra_get "b" d2 = (Some (Leaf (SInt 1)), Some (Leaf (SInt 1))).
Proof. vm_compute. repeat split; reflexivity. Qed.

(* a literal that spells a placeholder in use is overwritten by the write-back of that expression
   (a 'EXPRESSION000001 x'; c $zz; b $zz2;  read in a fresh process: the library gives a = '$zz') *)
Example C05_reference_placeholder_literal_finding :
  let d := [(ra_s "a", VLit (ra_str "EXPRESSION000001 x")); (ra_s "c", VRef 0 (ra_s "zz")); (ra_s "b", VRef 1 (ra_s "zz2"))] in
  rdoc_okb d = false /\ ra_get "a" d = (Some (ra_str "$zz2"), Some (ra_str "EXPRESSION000001 x")).
Proof. vm_compute. split; reflexivity. Qed.

(* a reference whose name spells a placeholder in use: its written-back text is taken for that placeholder
   (a $EXPRESSION000001; b $zz;  read in a fresh process: the library gives a = '$zz' as well) *)
Example C05_reference_placeholder_name_finding :
  let d := [(ra_s "a", VRef 0 (ra_s "EXPRESSION000001")); (ra_s "b", VRef 1 (ra_s "zz"))] in
  rdoc_okb d = false /\ ra_get "a" d = (Some (ra_str "$zz"), Some (ra_str "$EXPRESSION000001")).
Proof. vm_compute. split; reflexivity. Qed.

(* a referenced value whose text contains the word EXPRESSION (a string, or a key of a dict) counts as unresolved:
   a 'EXPRESSIONx'; b $a;  leaves b = '$a'  (the library agrees) *)
Example C05_reference_expression_word_finding :
  let d := [(ra_s "a", VLit (ra_str "EXPRESSIONx")); (ra_s "b", VRef 0 (ra_s "a"))] in
  let d' := [(ra_s "a", VLit (Dict [(KS (ra_s "EXPRESSIONS"), Leaf (SInt 1))])); (ra_s "b", VRef 0 (ra_s "a"))] in
  rdoc_okb d = false /\ ra_get "b" d = (Some (ra_str "$a"), Some (ra_str "EXPRESSIONx")) /\
  rdoc_okb d' = false /\ fst (ra_get "b" d') = Some (ra_str "$a").
Proof. vm_compute. repeat split; reflexivity. Qed.

(* a key named like a placeholder (capitals + six digits) whose value is its own name is taken for a circular entry
   and is not a variable:  ABC123456 ABC123456; b $ABC123456;  leaves b = '$ABC123456'  (the library agrees) *)
Example C05_reference_self_named_finding :
  let d := [(ra_s "ABC123456", VLit (ra_str "ABC123456")); (ra_s "b", VRef 0 (ra_s "ABC123456"))] in
  rdoc_okb d = false /\ ra_get "b" d = (Some (ra_str "$ABC123456"), Some (ra_str "ABC123456")).
Proof. vm_compute. split; reflexivity. Qed.

(* a referenced string with a dollar sign is no literal (the parser makes it an expression); as a literal it would be
   followed as a reference / left unresolved *)
Example C05_reference_dollar_literal_finding :
  let d := [(ra_s "a", VLit (ra_str "1 $ 2")); (ra_s "b", VRef 0 (ra_s "a"))] in
  rdoc_okb d = false /\ ra_get "b" d = (Some (ra_str "$a"), Some (ra_str "1 $ 2")).
Proof. vm_compute. split; reflexivity. Qed.

(* targets are names (word characters): an indexed reference is resolved by the library to the element -- outside this
   document type (C05_indexed_reference treats lists of integers) *)
Example C05_reference_indexed_finding :
  let d := [(ra_s "l", VLit (Lst [Leaf (SInt 1); Leaf (SInt 2)])); (ra_s "b", VRef 0 (ra_s "l[1]"))] in
  rdoc_okb d = false /\ ra_get "b" d = (Some (Leaf (SInt 2)), Some (ra_str "$l[1]")).
Proof. vm_compute. split; reflexivity. Qed.

(* distinct ids (the parser numbers the expressions) and distinct names (the data is a dict) *)
Example C05_reference_ids_names_finding :
  let d := [(ra_s "a", VLit (Leaf (SInt 1))); (ra_s "b", VRef 0 (ra_s "a")); (ra_s "c", VRef 0 (ra_s "zz"))] in
  let d' := [(ra_s "a", VLit (Leaf (SInt 1))); (ra_s "a", VLit (Leaf (SInt 2))); (ra_s "b", VRef 0 (ra_s "a"))] in
  rdoc_okb d = false /\ ra_get "c" d = (Some (Leaf (SInt 1)), Some (ra_str "$zz")) /\
  rdoc_okb d' = false /\ ra_get "b" d' = (Some (Leaf (SInt 2)), Some (Leaf (SInt 1))).
Proof. vm_compute. repeat split; reflexivity. Qed.

(* ---- 2. the order of the entries ------------------------------------------------------------------------------ *)
(* the denotation does not depend on the order; the reader answers on every permutation of the document, and every
   key holds the same value *)
Theorem C05_reference_order_independent_any_type : forall d d' lc bc inc, rdoc_okb d = true -> Permutation d d' ->
  (forall y, denote_ref d y = denote_ref d' y) /\
  exists s s', eval_expressions (ref_sdict d lc bc inc) = Some (Ok s) /\
               eval_expressions (ref_sdict d' lc bc inc) = Some (Ok s') /\
               map fst (sd_data s) = map KS (map fst d) /\ map fst (sd_data s') = map KS (map fst d') /\
               forall x, alookup (KS x) (sd_data s) = alookup (KS x) (sd_data s').
Proof. exact reference_order_independent_any_type. Qed.
Print Assumptions C05_reference_order_independent_any_type.

Example C05_reference_order_independent_any_type_nonvacuous :
  rdoc_okb ra_doc = true /\ Permutation ra_doc (rev ra_doc) /\
  exists s s', eval_expressions (ref_sdict ra_doc [] [] []) = Some (Ok s) /\
               eval_expressions (ref_sdict (rev ra_doc) [] [] []) = Some (Ok s') /\
               map fst (sd_data s') = rev (map fst (sd_data s)) /\
               alookup (KS (ra_s "cc")) (sd_data s) = Some (ra_str "x 'y' ""z"" #;{") /\
               alookup (KS (ra_s "cc")) (sd_data s') = Some (ra_str "x 'y' ""z"" #;{") /\
               alookup (KS (ra_s "h")) (sd_data s') = alookup (KS (ra_s "sub")) (sd_data s).
Proof.
  assert (H : rdoc_okb ra_doc = true) by (vm_compute; reflexivity).
  assert (Hp : Permutation ra_doc (rev ra_doc)) by apply Permutation_rev.
  refine (conj H (conj Hp _)).
  destruct (C05_reference_order_independent_any_type ra_doc (rev ra_doc) [] [] [] H Hp) as [_ [s [s' [H1 [H2 [K1 [K2 Hx]]]]]]].
  exists s, s'. split; [exact H1|]. split; [exact H2|].
  split; [rewrite K1, K2, map_rev, map_rev; reflexivity|].
  assert (E1 : eval_expressions (ref_sdict ra_doc [] [] []) = Some (Ok (mkSD (ref_result ra_doc) [] [] [] [])))
    by (apply C05_reference_document_any_type; exact H).
  rewrite H1 in E1. inversion E1; subst s.
  split; [vm_compute; reflexivity|]. split; [rewrite <- Hx; vm_compute; reflexivity|].
  rewrite <- Hx. vm_compute. reflexivity.
Qed.

(* ================================================================================================== *)
(* added from Properties/C05_add3.v (2026-10-01)                                              *)
(* ================================================================================================== *)
(* C05, additions (3): a reference to a key that is declared in an INCLUDED file only.  (Needs Proofs/AuditFix.v and
   Proofs/RereadRead.v: this fragment has to stay behind them in _CoqProject.)
   Vocabulary: rdoc / ref_sdict / ref_result / rdoc_okb as in C05_add2 (Proofs/RefAnyProofs.v);
     plain_kvs dinc   the data of the included file: the entries (name, tree) as a dict
     rlit_doc dinc    the same entries as literal entries of a reference document
     st_plain_of m    the SDict with data m and empty side tables (Proofs/RereadRead.v) *)
From Coq Require Import String.
From Coq Require Import NArith ZArith List Bool Permutation.
From DictIO Require Import Chars Str Value Scalar KeyPath SDict Layout Lexer TokParser Reader Expr Eval
     MiscSpec EvalSpec FlatSpec IndexSpec E2EKeyTok CleanInvariant RereadRead RefAnyProofs RefAnyInclude.
Import ListNotations.

(* the root parses to a reference document with ONE include entry, the included file to a plain dict (no comments, no
   expressions, no includes of its own) whose keys are not keys of the root; DictReader.read answers the result of the
   concatenated document: every reference of the root is resolved against the declarations of BOTH files *)
Theorem C05_include_declared_reference_document : forall fs root c u0 i dtext n path u droot dinc lc bc cnt0 cnt,
  fs_lookup (norm_path root) fs = Some u0 ->
  parse_unit true root c u0 = Ok (mkParsed (ref_sdict droot lc bc [(i, (dtext, n, path))]) cnt0) ->
  fs_lookup (norm_path path) fs = Some u ->
  parse_unit true path cnt0 u = Ok (mkParsed (st_plain_of (plain_kvs dinc)) cnt) ->
  clean_state (ref_sdict droot lc bc [(i, (dtext, n, path))]) = true ->
  wf (Dict (plain_kvs dinc)) = true -> ktree (fun _ => true) (Dict (plain_kvs dinc)) = true ->
  rdoc_okb (droot ++ rlit_doc dinc) = true ->
  read_full fs root true c =
  Some (Ok (mkSD (ref_result (droot ++ rlit_doc dinc)) lc bc [(i, (dtext, n, path))] [], cnt)).
Proof. exact include_declared_reference_document. Qed.
Print Assumptions C05_include_declared_reference_document.

(* one reference  k $y;  of the root, y declared in the included file only: k holds the included file's value of y *)
Theorem C05_include_declared_reference : forall fs root c u0 i dtext n path u droot dinc lc bc cnt0 cnt k j y v,
  fs_lookup (norm_path root) fs = Some u0 ->
  parse_unit true root c u0 = Ok (mkParsed (ref_sdict droot lc bc [(i, (dtext, n, path))]) cnt0) ->
  fs_lookup (norm_path path) fs = Some u ->
  parse_unit true path cnt0 u = Ok (mkParsed (st_plain_of (plain_kvs dinc)) cnt) ->
  clean_state (ref_sdict droot lc bc [(i, (dtext, n, path))]) = true ->
  wf (Dict (plain_kvs dinc)) = true -> ktree (fun _ => true) (Dict (plain_kvs dinc)) = true ->
  rdoc_okb (droot ++ rlit_doc dinc) = true ->
  In (k, VRef j y) droot -> In (y, v) dinc -> v <> Leaf SNone ->
  ~ In y (map fst droot) /\
  exists s', read_full fs root true c = Some (Ok (s', cnt)) /\ sd_expr s' = [] /\
             alookup (KS y) (sd_data s') = Some v /\ alookup (KS k) (sd_data s') = Some v.
Proof. exact include_declared_reference. Qed.
Print Assumptions C05_include_declared_reference.

Definition ri_s (s : string) : str := of_string s.
Definition ri_root_u : funit := FNative (of_string "#include 'inc'
k $y; a 1; kk $k; u $nowhere; m $l;
").
Definition ri_inc_u : funit := FNative (of_string "y 'v w'; z 2.5; l (1 2);
").
Definition ri_fs : fsys := [ (of_string "/w/root", ri_root_u); (of_string "/w/inc", ri_inc_u) ].
(* what the parser delivers for the two files *)
Definition ri_root : rdoc :=
  [ (ri_s "INCLUDE000000", VLit (Leaf (SStr (ri_s "INCLUDE000000"))));
    (ri_s "k", VRef 1 (ri_s "y")); (ri_s "a", VLit (Leaf (SInt 1))); (ri_s "kk", VRef 2 (ri_s "k"));
    (ri_s "u", VRef 3 (ri_s "nowhere")); (ri_s "m", VRef 4 (ri_s "l")) ].
Definition ri_inc : list (str * tree) :=
  [ (ri_s "y", Leaf (SStr (ri_s "v w"))); (ri_s "z", Leaf (SFloat (ri_s "2.5")));
    (ri_s "l", Lst [Leaf (SInt 1); Leaf (SInt 2)]) ].
Definition ri_dtext : str := of_string "#include 'inc'".

Lemma ri_h1 : fs_lookup (norm_path (of_string "/w/root")) ri_fs = Some ri_root_u.
Proof. vm_compute. reflexivity. Qed.
Lemma ri_h2 : parse_unit true (of_string "/w/root") (-1) ri_root_u =
              Ok (mkParsed (ref_sdict ri_root [] [] [(0%N, (ri_dtext, of_string "inc", of_string "/w/inc"))]) 4%Z).
Proof. vm_compute. reflexivity. Qed.
Lemma ri_h3 : fs_lookup (norm_path (of_string "/w/inc")) ri_fs = Some ri_inc_u.
Proof. vm_compute. reflexivity. Qed.
Lemma ri_h4 : parse_unit true (of_string "/w/inc") 4 ri_inc_u = Ok (mkParsed (st_plain_of (plain_kvs ri_inc)) 5%Z).
Proof. vm_compute. reflexivity. Qed.
Lemma ri_h5 : clean_state (ref_sdict ri_root [] [] [(0%N, (ri_dtext, of_string "inc", of_string "/w/inc"))]) = true.
Proof. vm_compute. reflexivity. Qed.
Lemma ri_h6 : wf (Dict (plain_kvs ri_inc)) = true.
Proof. vm_compute. reflexivity. Qed.
Lemma ri_h7 : ktree (fun _ => true) (Dict (plain_kvs ri_inc)) = true.
Proof. vm_compute. reflexivity. Qed.
Lemma ri_h8 : rdoc_okb (ri_root ++ rlit_doc ri_inc) = true.
Proof. vm_compute. reflexivity. Qed.

(* a string with a blank and a list, both declared in the included file only; a chain through the root (kk -> k -> y);
   a dangling reference next to them *)
Example C05_include_declared_reference_nonvacuous :
  ~ In (ri_s "y") (map fst ri_root) /\
  exists s', read_full ri_fs (of_string "/w/root") true (-1) = Some (Ok (s', 5%Z)) /\ sd_expr s' = [] /\
    alookup (KS (ri_s "y")) (sd_data s') = Some (Leaf (SStr (ri_s "v w"))) /\
    alookup (KS (ri_s "k")) (sd_data s') = Some (Leaf (SStr (ri_s "v w"))).
Proof.
  apply (C05_include_declared_reference ri_fs (of_string "/w/root") (-1)%Z ri_root_u 0%N ri_dtext (of_string "inc")
           (of_string "/w/inc") ri_inc_u ri_root ri_inc [] [] 4%Z 5%Z (ri_s "k") 1%N (ri_s "y") (Leaf (SStr (ri_s "v w")))
           ri_h1 ri_h2 ri_h3 ri_h4 ri_h5 ri_h6 ri_h7 ri_h8).
  - unfold ri_root. cbn [In]. tauto.
  - unfold ri_inc. cbn [In]. tauto.
  - discriminate.
Qed.

Example C05_include_declared_reference_document_nonvacuous :
  exists s', read_full ri_fs (of_string "/w/root") true (-1) = Some (Ok (s', 5%Z)) /\
    sd_data s' =
    [ (KS (ri_s "INCLUDE000000"), Leaf (SStr (ri_s "INCLUDE000000")));
      (KS (ri_s "k"), Leaf (SStr (ri_s "v w"))); (KS (ri_s "a"), Leaf (SInt 1));
      (KS (ri_s "kk"), Leaf (SStr (ri_s "v w"))); (KS (ri_s "u"), Leaf (SStr (ri_s "$nowhere")));
      (KS (ri_s "m"), Lst [Leaf (SInt 1); Leaf (SInt 2)]);
      (KS (ri_s "y"), Leaf (SStr (ri_s "v w"))); (KS (ri_s "z"), Leaf (SFloat (ri_s "2.5")));
      (KS (ri_s "l"), Lst [Leaf (SInt 1); Leaf (SInt 2)]) ].
Proof.
  eexists. split.
  - exact (C05_include_declared_reference_document ri_fs (of_string "/w/root") (-1)%Z ri_root_u 0%N ri_dtext (of_string "inc")
             (of_string "/w/inc") ri_inc_u ri_root ri_inc [] [] 4%Z 5%Z ri_h1 ri_h2 ri_h3 ri_h4 ri_h5 ri_h6 ri_h7 ri_h8).
  - vm_compute. reflexivity.
Qed.

(* the keys of the included file must be new: a key that the root declares as well keeps the ROOT's value, and the
   reference takes that one (#include 'inc' k $y; y 1;  with  y 'v w';  in inc gives k = 1; the library agrees) *)
Example C05_include_redeclared_finding :
  let fs : fsys := [ (of_string "/w/root", FNative (of_string "#include 'inc'
k $y; y 1;
")); (of_string "/w/inc", FNative (of_string "y 'v w';
")) ] in
  let droot := [ (ri_s "INCLUDE000000", VLit (Leaf (SStr (ri_s "INCLUDE000000"))));
                 (ri_s "k", VRef 1 (ri_s "y")); (ri_s "y", VLit (Leaf (SInt 1))) ] in
  let dinc := [ (ri_s "y", Leaf (SStr (ri_s "v w"))) ] in
  rdoc_okb (droot ++ rlit_doc dinc) = false /\
  exists s' c', read_full fs (of_string "/w/root") true (-1) = Some (Ok (s', c')) /\
    alookup (KS (ri_s "k")) (sd_data s') = Some (Leaf (SInt 1)) /\
    alookup (KS (ri_s "y")) (sd_data s') = Some (Leaf (SInt 1)).
Proof. vm_compute. split; [reflexivity|]. eexists. eexists. repeat split; reflexivity. Qed.
