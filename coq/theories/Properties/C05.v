(* C05  References and expressions: token-wise substitution, prefix safety, termination of reference resolution. *)
From Coq Require Import String.
From Coq Require Import NArith ZArith List Bool.
From DictIO Require Import Chars Str Value Scalar SDict Expr TreeSpec MiscSpec LayoutSpec SemProofs.
Import ListNotations.

(* a reference is replaced as a whole token and the value is inserted literally *)
Theorem C05_subst_whole_token : forall name val post fuel, word_name name ->
  (match post with c :: _ => is_word c = false /\ c <> c_lbrk | [] => True end) ->
  (length (ref_of name ++ post) < fuel)%nat ->
  subst_token fuel (ref_of name) val (ref_of name ++ post) =
  val ++ subst_token (fuel - 1) (ref_of name) val post.
Proof. exact subst_whole_token. Qed.
Print Assumptions C05_subst_whole_token.

(* a variable name that is a prefix of another one is not substituted inside the longer reference *)
Theorem C05_prefix_safe : forall a more val fuel, word_name a -> word_name more ->
  (length (ref_of (a ++ more)) < fuel)%nat ->
  subst_token fuel (ref_of a) val (ref_of (a ++ more)) = ref_of (a ++ more).
Proof. exact subst_prefix_safe. Qed.
Print Assumptions C05_prefix_safe.

(* text without the reference is left alone *)
Theorem C05_subst_absent : forall r val e fuel, r <> [] -> contains r e = false -> subst_token fuel r val e = e.
Proof. exact subst_absent. Qed.
Print Assumptions C05_subst_absent.

(* reference resolution terminates on every variable table, including self- and mutually-referential ones
   (repaired resolver: the inner while-loop remembers the reference texts it has tried, follows plain references
   only, and an index applies to the value the chain ends in) *)
Theorem C05_resolve_terminates : forall vars r, resolve_reference vars r <> RFuel.
Proof. exact resolve_terminates. Qed.
Print Assumptions C05_resolve_terminates.

(* the table on which the unrepaired resolver looped for ever (resolving b[0] hands back "$b[0]" again) is now
   simply unresolved *)
Example C05_former_loop :
  let vars := [(KS (of_string "a"), Leaf (SStr (of_string "$b[0]")));
               (KS (of_string "b"), Leaf (SStr (of_string "$c")));
               (KS (of_string "c"), Lst [Leaf (SStr (of_string "$b[0]"))])] in
  resolve_reference vars (of_string "$a") = RNone.
Proof. vm_compute. reflexivity. Qed.

(* an unevaluated expression is not a value: x = [5, 6], a = "$x[0] + 1" *)
Example C05_expression_not_followed :
  let vars := [(KS (of_string "x"), Lst [Leaf (SInt 5); Leaf (SInt 6)]);
               (KS (of_string "a"), Leaf (SStr (of_string "$x[0] + 1")))] in
  resolve_reference vars (of_string "$a") = RNone.
Proof. vm_compute. reflexivity. Qed.

(* the index applies to the value the chain ends in: x = [5, 6], ab = "$x", abc = "$ab" *)
Example C05_index_end_of_chain :
  let vars := [(KS (of_string "x"), Lst [Leaf (SInt 5); Leaf (SInt 6)]);
               (KS (of_string "ab"), Leaf (SStr (of_string "$x")));
               (KS (of_string "abc"), Leaf (SStr (of_string "$ab")))] in
  resolve_reference vars (of_string "$abc[1]") = RVal (Leaf (SInt 6)).
Proof. vm_compute. reflexivity. Qed.

(* an undeclared name is unresolved *)
Theorem C05_undeclared : forall vars r, alookup (KS (ref_name r)) vars = None -> resolve_reference vars r = RNone.
Proof. exact resolve_undeclared. Qed.
Print Assumptions C05_undeclared.

Example C05_cycle :
  let vars := [(KS (of_string "b"), Leaf (SStr (of_string "$c"))); (KS (of_string "c"), Leaf (SStr (of_string "$b")))] in
  resolve_reference vars (of_string "$b") = RNone /\ resolve_reference vars (of_string "$c") = RNone.
Proof. vm_compute. split; reflexivity. Qed.
