(* C05  References and expressions: token-wise substitution, prefix safety, termination of reference resolution. *)
From Coq Require Import String.
From Coq Require Import NArith ZArith List Bool.
From DictIO Require Import Chars Str Value Scalar SDict Expr TreeSpec MiscSpec LayoutSpec SemProofs.
Import ListNotations.

(* for the non-vacuity examples: [word_name] of a concrete name, a concrete [<] on nat *)
Ltac word_name_tac := split; [discriminate | repeat (constructor; [reflexivity|]); constructor].
Ltac lt_tac := apply PeanoNat.Nat.ltb_lt; vm_compute; reflexivity.

(* a reference is replaced as a whole token and the value is inserted literally *)
Theorem C05_subst_whole_token : forall name val post fuel, word_name name ->
  (match post with c :: _ => is_word c = false /\ c <> c_lbrk | [] => True end) ->
  (length (ref_of name ++ post) < fuel)%nat ->
  subst_token fuel (ref_of name) val (ref_of name ++ post) =
  val ++ subst_token (fuel - 1) (ref_of name) val post.
Proof. exact subst_whole_token. Qed.
Print Assumptions C05_subst_whole_token.

(* non-vacuity: the reference $ab in front of an expression that also mentions the longer name $abc and the indexed
   $ab[0]; the fuel is the one subst_refs uses (length + 1).  The second part evaluates the whole substitution. *)
Example C05_subst_whole_token_nonvacuous :
  let name := of_string "ab" in let val := of_string "[1, 2]" in let post := of_string " + $abc * $ab[0] - $ab" in
  let fuel := S (length (ref_of name ++ post)) in
  word_name name /\
  (match post with c :: _ => is_word c = false /\ c <> c_lbrk | [] => True end) /\
  (length (ref_of name ++ post) < fuel)%nat /\
  subst_token fuel (ref_of name) val (ref_of name ++ post) = val ++ subst_token (fuel - 1) (ref_of name) val post /\
  subst_token fuel (ref_of name) val (ref_of name ++ post) = of_string "[1, 2] + $abc * $ab[0] - [1, 2]".
Proof.
  intros name val post fuel.
  assert (H1 : word_name name) by word_name_tac.
  assert (H2 : match post with c :: _ => is_word c = false /\ c <> c_lbrk | [] => True end)
    by (split; [reflexivity | discriminate]).
  assert (H3 : (length (ref_of name ++ post) < fuel)%nat) by lt_tac.
  refine (conj H1 (conj H2 (conj H3 (conj (C05_subst_whole_token name val post fuel H1 H2 H3) _)))).
  vm_compute. reflexivity.
Qed.

(* a variable name that is a prefix of another one is not substituted inside the longer reference *)
Theorem C05_prefix_safe : forall a more val fuel, word_name a -> word_name more ->
  (length (ref_of (a ++ more)) < fuel)%nat ->
  subst_token fuel (ref_of a) val (ref_of (a ++ more)) = ref_of (a ++ more).
Proof. exact subst_prefix_safe. Qed.
Print Assumptions C05_prefix_safe.

Example C05_prefix_safe_nonvacuous :
  let a := of_string "ab" in let more := of_string "c_1" in let val := of_string "7" in
  let fuel := S (length (ref_of (a ++ more))) in
  word_name a /\ word_name more /\ (length (ref_of (a ++ more)) < fuel)%nat /\
  subst_token fuel (ref_of a) val (ref_of (a ++ more)) = of_string "$abc_1".
Proof.
  intros a more val fuel.
  assert (H1 : word_name a) by word_name_tac. assert (H2 : word_name more) by word_name_tac.
  assert (H3 : (length (ref_of (a ++ more)) < fuel)%nat) by lt_tac.
  exact (conj H1 (conj H2 (conj H3 (C05_prefix_safe a more val fuel H1 H2 H3)))).
Qed.

(* text without the reference is left alone *)
Theorem C05_subst_absent : forall r val e fuel, r <> [] -> contains r e = false -> subst_token fuel r val e = e.
Proof. exact subst_absent. Qed.
Print Assumptions C05_subst_absent.

Example C05_subst_absent_nonvacuous :
  let r := of_string "$x" in let e := of_string "1 + $y * x$ - $ x" in
  r <> [] /\ contains r e = false /\ subst_token (S (length e)) r (of_string "7") e = e.
Proof.
  intros r e. assert (H1 : r <> []) by discriminate. assert (H2 : contains r e = false) by (vm_compute; reflexivity).
  exact (conj H1 (conj H2 (C05_subst_absent r _ e _ H1 H2))).
Qed.

(* reference resolution terminates on every variable table, including self- and mutually-referential ones
   (repaired resolver: the inner while-loop remembers the reference texts it has tried, follows plain references
   only, and an index applies to the value the chain ends in) *)
Theorem C05_resolve_terminates : forall vars r, resolve_reference vars r <> RFuel.
Proof. exact resolve_terminates. Qed.
Print Assumptions C05_resolve_terminates.

(* the table on which the unrepaired resolver looped for ever (resolving b[0] hands back "$b[0]" again) is now
   simply unresolved *)
Example C05_former_loop :
  let vars := [(KS (of_string "a"), Leaf (SStr (of_string "$b[0]")));
               (KS (of_string "b"), Leaf (SStr (of_string "$c")));
               (KS (of_string "c"), Lst [Leaf (SStr (of_string "$b[0]"))])] in
  resolve_reference vars (of_string "$a") = RNone.
Proof. vm_compute. reflexivity. Qed.

(* an unevaluated expression is not a value: x = [5, 6], a = "$x[0] + 1" *)
Example C05_expression_not_followed :
  let vars := [(KS (of_string "x"), Lst [Leaf (SInt 5); Leaf (SInt 6)]);
               (KS (of_string "a"), Leaf (SStr (of_string "$x[0] + 1")))] in
  resolve_reference vars (of_string "$a") = RNone.
Proof. vm_compute. reflexivity. Qed.

(* the index applies to the value the chain ends in: x = [5, 6], ab = "$x", abc = "$ab" *)
Example C05_index_end_of_chain :
  let vars := [(KS (of_string "x"), Lst [Leaf (SInt 5); Leaf (SInt 6)]);
               (KS (of_string "ab"), Leaf (SStr (of_string "$x")));
               (KS (of_string "abc"), Leaf (SStr (of_string "$ab")))] in
  resolve_reference vars (of_string "$abc[1]") = RVal (Leaf (SInt 6)).
Proof. vm_compute. reflexivity. Qed.

(* an undeclared name is unresolved *)
Theorem C05_undeclared : forall vars r, alookup (KS (ref_name r)) vars = None -> resolve_reference vars r = RNone.
Proof. exact resolve_undeclared. Qed.
Print Assumptions C05_undeclared.

Example C05_undeclared_nonvacuous :
  let vars := [(KS (of_string "x"), Lst [Leaf (SInt 5); Leaf (SInt 6)]); (KS (of_string "ab"), Leaf (SStr (of_string "$x")))] in
  let r := of_string "$a[0]" in
  alookup (KS (ref_name r)) vars = None /\ resolve_reference vars r = RNone.
Proof.
  intros vars r. assert (H : alookup (KS (ref_name r)) vars = None) by (vm_compute; reflexivity).
  exact (conj H (C05_undeclared vars r H)).
Qed.

Example C05_cycle :
  let vars := [(KS (of_string "b"), Leaf (SStr (of_string "$c"))); (KS (of_string "c"), Leaf (SStr (of_string "$b")))] in
  resolve_reference vars (of_string "$b") = RNone /\ resolve_reference vars (of_string "$c") = RNone.
Proof. vm_compute. split; reflexivity. Qed.
