(* placeholder until the proofs are integrated *)
From DictIO Require Import Chars Str Value Scalar.
Theorem C14_placeholder : True. Proof. exact I. Qed.
Print Assumptions C14_placeholder.
