(* C14  Key paths address one place: lookup, assignment and scope reduction agree. *)
From Coq Require Import String.   (* string literals of the examples; imported first so the list names win *)
From Coq Require Import NArith ZArith List Bool.
From DictIO Require Import Chars Str Value Scalar KeyPath SDict TreeSpec KeyPathProofs.
Import ListNotations.

(* the tree of the non-vacuity examples: dicts in dicts, a list holding a leaf, a dict and a list, an int key, an
   empty dict *)
Module C14_ex.
  Definition ka := KS (of_string "a").  Definition kb := KS (of_string "b").
  Definition kc := KS (of_string "c").  Definition kd := KS (of_string "d").
  Definition kvs : list (key * tree) :=
    [(ka, Dict [(kb, Lst [Leaf (SInt 1); Dict [(kc, Leaf (SStr (of_string "hello world")))]; Lst [Leaf (SInt 2); Leaf (SFloat (of_string "3.5"))]]);
                (kd, Leaf (SBool true))]);
     (KI 5, Leaf (SStr (of_string "x")));
     (kd, Dict [])].
  Definition t := Dict kvs.
  Definition nine := Leaf (SInt 9).
End C14_ex.

(* assignment: the addressed element holds the value afterwards *)
Theorem C14_set_same : forall t p v t', p <> [] -> set_global_key t p v = Ok t' -> get_path t' p = Some v.
Proof. exact set_get_same. Qed.
Print Assumptions C14_set_same.

(* non-vacuity: replacing a leaf four levels down (through a list), addressing a list element from its end, and adding
   a new key to the empty dict *)
Example C14_set_same_nonvacuous :
  (exists t', set_global_key C14_ex.t [C14_ex.ka; C14_ex.kb; KI 1; C14_ex.kc] C14_ex.nine = Ok t' /\
              get_path t' [C14_ex.ka; C14_ex.kb; KI 1; C14_ex.kc] = Some C14_ex.nine) /\
  (exists t', set_global_key C14_ex.t [C14_ex.ka; C14_ex.kb; KI (-1); KI 0] C14_ex.nine = Ok t' /\
              get_path t' [C14_ex.ka; C14_ex.kb; KI (-1); KI 0] = Some C14_ex.nine /\
              get_path t' [C14_ex.ka; C14_ex.kb; KI 2; KI 0] = Some C14_ex.nine) /\
  (exists t', set_global_key C14_ex.t [C14_ex.kd; C14_ex.kb] (Lst [C14_ex.nine]) = Ok t' /\
              get_path t' [C14_ex.kd; C14_ex.kb] = Some (Lst [C14_ex.nine])).
Proof.
  split; [|split].
  - destruct (set_global_key C14_ex.t [C14_ex.ka; C14_ex.kb; KI 1; C14_ex.kc] C14_ex.nine) as [t'|e] eqn:E; [|vm_compute in E; discriminate E].
    exists t'. split; [reflexivity|]. refine (C14_set_same _ _ _ _ _ E); discriminate.
  - destruct (set_global_key C14_ex.t [C14_ex.ka; C14_ex.kb; KI (-1); KI 0] C14_ex.nine) as [t'|e] eqn:E; [|vm_compute in E; discriminate E].
    exists t'. split; [reflexivity|]. split; [refine (C14_set_same _ _ _ _ _ E); discriminate|].
    vm_compute in E. injection E as <-. vm_compute. reflexivity.
  - destruct (set_global_key C14_ex.t [C14_ex.kd; C14_ex.kb] (Lst [C14_ex.nine])) as [t'|e] eqn:E; [|vm_compute in E; discriminate E].
    exists t'. split; [reflexivity|]. refine (C14_set_same _ _ _ _ _ E); discriminate.
Qed.

(* ... every place on a path that parts from p is unchanged *)
Theorem C14_set_other : forall t p v t' q,
  set_global_key t p v = Ok t' -> nonneg p = true -> nonneg q = true -> diverge p q -> get_path t' q = get_path t q.
Proof. exact set_get_other. Qed.
Print Assumptions C14_set_other.

(* non-vacuity: the assigned path and the observed path part inside the list a.b *)
Example C14_set_other_nonvacuous :
  let p := [C14_ex.ka; C14_ex.kb; KI 1; C14_ex.kc] in let q := [C14_ex.ka; C14_ex.kb; KI 2; KI 1] in
  nonneg p = true /\ nonneg q = true /\ diverge p q /\
  exists t', set_global_key C14_ex.t p C14_ex.nine = Ok t' /\ t' <> C14_ex.t /\
             get_path t' q = get_path C14_ex.t q /\ get_path C14_ex.t q = Some (Leaf (SFloat (of_string "3.5"))).
Proof.
  intros p q.
  assert (H1 : nonneg p = true) by reflexivity. assert (H2 : nonneg q = true) by reflexivity.
  assert (H3 : diverge p q).
  { exists [C14_ex.ka; C14_ex.kb], (KI 1), (KI 2), [C14_ex.kc], [KI 1]. repeat split; discriminate. }
  refine (conj H1 (conj H2 (conj H3 _))).
  destruct (set_global_key C14_ex.t p C14_ex.nine) as [t'|e] eqn:E; [|vm_compute in E; discriminate E].
  exists t'. split; [reflexivity|]. split; [|split; [exact (C14_set_other _ _ _ _ _ E H1 H2 H3) | vm_compute; reflexivity]].
  vm_compute in E. injection E as <-. vm_compute. discriminate.
Qed.

(* ... and the containers above an existing element keep their keys (in order) / their length *)
Theorem C14_set_shape : forall t p v t' old r,
  set_global_key t p v = Ok t' -> get_path t p = Some old -> strict_prefix r p ->
  container_sig (get_path t' r) = container_sig (get_path t r).
Proof. exact set_keeps_shape. Qed.
Print Assumptions C14_set_shape.

Example C14_set_shape_nonvacuous :
  let p := [C14_ex.ka; C14_ex.kb; KI 1; C14_ex.kc] in
  get_path C14_ex.t p = Some (Leaf (SStr (of_string "hello world"))) /\
  strict_prefix [C14_ex.ka] p /\ strict_prefix [C14_ex.ka; C14_ex.kb] p /\
  exists t', set_global_key C14_ex.t p C14_ex.nine = Ok t' /\
             container_sig (get_path t' [C14_ex.ka]) = Some (SigDict [C14_ex.kb; C14_ex.kd]) /\
             container_sig (get_path t' [C14_ex.ka; C14_ex.kb]) = Some (SigList 3).
Proof.
  intros p.
  assert (H1 : get_path C14_ex.t p = Some (Leaf (SStr (of_string "hello world")))) by (vm_compute; reflexivity).
  assert (H2 : strict_prefix [C14_ex.ka] p) by (exists C14_ex.kb, [KI 1; C14_ex.kc]; reflexivity).
  assert (H3 : strict_prefix [C14_ex.ka; C14_ex.kb] p) by (exists (KI 1), [C14_ex.kc]; reflexivity).
  refine (conj H1 (conj H2 (conj H3 _))).
  destruct (set_global_key C14_ex.t p C14_ex.nine) as [t'|e] eqn:E; [|vm_compute in E; discriminate E].
  exists t'. split; [reflexivity|]. split.
  - rewrite (C14_set_shape _ _ _ _ _ _ E H1 H2). vm_compute. reflexivity.
  - rewrite (C14_set_shape _ _ _ _ _ _ E H1 H3). vm_compute. reflexivity.
Qed.

(* paths of length <= 10 never hit the recursion guard; a path of length 11 does *)
Theorem C14_guard : forall t p v, (length p <= 10)%nat -> set_global_key t p v <> Raise E_Recursion.
Proof. exact set_guard. Qed.
Print Assumptions C14_guard.

(* non-vacuity: a path of length 4 in the example tree; the witness at the end of the file shows 10 versus 11 *)
Example C14_guard_nonvacuous :
  (length [C14_ex.ka; C14_ex.kb; KI 1; C14_ex.kc] <= 10)%nat /\
  set_global_key C14_ex.t [C14_ex.ka; C14_ex.kb; KI 1; C14_ex.kc] C14_ex.nine <> Raise E_Recursion.
Proof.
  assert (H : (length [C14_ex.ka; C14_ex.kb; KI 1; C14_ex.kc] <= 10)%nat) by (apply PeanoNat.Nat.leb_le; reflexivity).
  exact (conj H (C14_guard C14_ex.t _ C14_ex.nine H)).
Qed.

(* search: a returned path leads to a matching leaf; None means no leaf matches *)
Theorem C14_find_sound : forall q t p, wf t = true -> find_global_key q t = Some p ->
  exists v, get_path t p = Some (Leaf v) /\ contains q (py_str v) = true.
Proof. exact find_sound. Qed.
Print Assumptions C14_find_sound.

Example C14_find_sound_nonvacuous :
  let q := of_string "lo wo" in
  wf C14_ex.t = true /\ find_global_key q C14_ex.t = Some [C14_ex.ka; C14_ex.kb; KI 1; C14_ex.kc] /\
  exists v, get_path C14_ex.t [C14_ex.ka; C14_ex.kb; KI 1; C14_ex.kc] = Some (Leaf v) /\ contains q (py_str v) = true.
Proof.
  intros q. assert (H1 : wf C14_ex.t = true) by (vm_compute; reflexivity).
  assert (H2 : find_global_key q C14_ex.t = Some [C14_ex.ka; C14_ex.kb; KI 1; C14_ex.kc]) by (vm_compute; reflexivity).
  exact (conj H1 (conj H2 (C14_find_sound q C14_ex.t _ H1 H2))).
Qed.

Theorem C14_find_complete : forall q t, is_container t = true -> find_global_key q t = None ->
  forall p v, get_path t p = Some (Leaf v) -> contains q (py_str v) = false.
Proof. exact find_complete. Qed.
Print Assumptions C14_find_complete.

Example C14_find_complete_nonvacuous :
  let q := of_string "world!" in
  is_container C14_ex.t = true /\ find_global_key q C14_ex.t = None /\
  get_path C14_ex.t [C14_ex.ka; C14_ex.kb; KI 1; C14_ex.kc] = Some (Leaf (SStr (of_string "hello world"))) /\
  contains q (py_str (SStr (of_string "hello world"))) = false.
Proof.
  intros q. assert (H1 : is_container C14_ex.t = true) by reflexivity.
  assert (H2 : find_global_key q C14_ex.t = None) by (vm_compute; reflexivity).
  assert (H3 : get_path C14_ex.t [C14_ex.ka; C14_ex.kb; KI 1; C14_ex.kc] = Some (Leaf (SStr (of_string "hello world")))) by (vm_compute; reflexivity).
  exact (conj H1 (conj H2 (conj H3 (C14_find_complete q C14_ex.t H1 H2 _ _ H3)))).
Qed.

(* existence test: true exactly for paths of dict keys that lead to a dict *)
Theorem C14_exists : forall kvs0 p, key_exists (Dict kvs0) p = true <-> exists kvs, get_dpath (Dict kvs0) p = Some (Dict kvs).
Proof. exact key_exists_iff. Qed.
Print Assumptions C14_exists.

(* (no hypotheses) both directions have instances: a path to a dict, and paths to a leaf / through a list *)
Example C14_exists_example :
  key_exists C14_ex.t [C14_ex.ka] = true /\ key_exists C14_ex.t [C14_ex.kd] = true /\
  key_exists C14_ex.t [C14_ex.ka; C14_ex.kd] = false /\ key_exists C14_ex.t [C14_ex.ka; C14_ex.kb; KI 1] = false.
Proof. vm_compute. repeat split; reflexivity. Qed.

(* scope reduction: the content of the sub-dict for an existing path, the dict itself otherwise *)
Theorem C14_scope : forall kvs scope, wf (Dict kvs) = true -> scope <> [] ->
  reduce_scope kvs scope = match get_dpath (Dict kvs) scope with Some (Dict sub) => sub | _ => kvs end.
Proof. exact reduce_scope_spec. Qed.
Print Assumptions C14_scope.

(* non-vacuity: a scope that names a sub-dict (reduced to it) and scopes that name a leaf / nothing (dict unchanged) *)
Example C14_scope_nonvacuous :
  wf (Dict C14_ex.kvs) = true /\ [C14_ex.ka] <> [] /\
  reduce_scope C14_ex.kvs [C14_ex.ka] =
    [(C14_ex.kb, Lst [Leaf (SInt 1); Dict [(C14_ex.kc, Leaf (SStr (of_string "hello world")))]; Lst [Leaf (SInt 2); Leaf (SFloat (of_string "3.5"))]]);
     (C14_ex.kd, Leaf (SBool true))] /\
  reduce_scope C14_ex.kvs [C14_ex.ka; C14_ex.kd] = C14_ex.kvs /\ reduce_scope C14_ex.kvs [C14_ex.kc] = C14_ex.kvs.
Proof.
  assert (H1 : wf (Dict C14_ex.kvs) = true) by (vm_compute; reflexivity).
  assert (H2 : [C14_ex.ka] <> []) by discriminate.
  refine (conj H1 (conj H2 (conj _ (conj _ _)))).
  - rewrite (C14_scope _ _ H1 H2). vm_compute. reflexivity.
  - rewrite (C14_scope _ [C14_ex.ka; C14_ex.kd] H1) by discriminate. vm_compute. reflexivity.
  - rewrite (C14_scope _ [C14_ex.kc] H1) by discriminate. vm_compute. reflexivity.
Qed.

(* non-vacuity / guard witness *)
Example C14_guard_witness :
  let deep := fix mk (n : nat) : tree := match n with O => Leaf SNone | S m => Dict [(KI 0, mk m)] end in
  set_global_key (deep 11%nat) (repeat (KI 0) 11) (Leaf SNone) = Raise E_Recursion /\
  exists t', set_global_key (deep 10%nat) (repeat (KI 0) 10) (Leaf SNone) = Ok t'.
Proof. split; [vm_compute; reflexivity | eexists; vm_compute; reflexivity]. Qed.

(* ================================================================================================== *)
(* added from Properties/C14_add.v (2026-10-01)                                              *)
(* ================================================================================================== *)
(* C14 (addition)  The scope as a READ OPTION: DictReader.read(.., scope=..) on the workflow model Parse.read_opts. *)
From Coq Require Import String.   (* string literals of the examples; imported first so the list names win *)
From Coq Require Import NArith ZArith List Bool.
From DictIO Require Import Chars Str Value Scalar KeyPath SDict Reader Parse TreeSpec WorkflowProofs.
Import ListNotations.

Module C14_ro_ex.
  (* a native source: nested dicts, an INT key that leads to a dict, a comment *)
  Definition root := of_string "/r/d.dict".
  Definition text := of_string "// top
a { 7 { z 0; c 1; } x 2; }
q 3;
".
  Definition fs : fsys := [(root, FNative text)].
  Definition scope := [SStr (of_string "a"); SInt 7].
  (* a JSON source: keys with a quote, brackets, blanks, double quotes; a negative int key; a key that
     _remove_include_keys takes for an include (INCLUDE + digit) inside the sub-dict *)
  Definition jroot := of_string "/r/d.json".
  Definition k1 := of_string "it's [k]".  Definition k2 := of_string "x ""y""".
  Definition js : list (key * tree) :=
    [(KS k1, Dict [(KS k2, Dict [(KS (of_string "INCLUDE1"), Leaf (SInt 5)); (KI (-3), Leaf (SStr (of_string "v")));
                                 (KS (of_string "b"), Leaf (SInt 1))]);
                   (KS (of_string "w"), Leaf (SInt 0))]);
     (KS (of_string "q"), Leaf (SInt 3))].
  Definition jfs : fsys := [(jroot, FJson js)].
  Definition jscope := [SStr k1; SStr k2].
  (* a top-level key that _remove_include_keys drops *)
  Definition mroot := of_string "/r/m.dict".
  Definition mfs : fsys := [(mroot, FNative (of_string "INCLUDE1 { a 1; }
b 2;
"))].
End C14_ro_ex.

(* includes on, order off: the scoped read is EXACTLY SDict.reduce_scope applied to the result of the unscoped read
   (scope_sd: clear, update with the sub-dict, side tables kept, clean-up), with the same counter -- or the reader exits
   (sys.exit(1) = Raise E_Exit) when the path does not lead to a dict.  No side condition; keys of any kind. *)
Theorem C14_scope_read_option_exact : forall fs root com scope sk c s k,
  read_opts fs root true false com [] c = Some (Ok (s, k)) -> scope_keys scope = Some sk -> sk <> [] ->
  read_opts fs root true false com scope c =
    if key_exists (Dict (sd_data s)) sk then Some (Ok (scope_sd s sk, k)) else Some (Raise E_Exit).
Proof. exact scope_read_option_exact. Qed.
Print Assumptions C14_scope_read_option_exact.

Example C14_scope_read_option_exact_nonvacuous :
  exists s k, read_opts C14_ro_ex.fs C14_ro_ex.root true false true [] 0 = Some (Ok (s, k)) /\
    scope_keys C14_ro_ex.scope = Some [KS (of_string "a"); KI 7] /\
    key_exists (Dict (sd_data s)) [KS (of_string "a"); KI 7] = true /\
    read_opts C14_ro_ex.fs C14_ro_ex.root true false true C14_ro_ex.scope 0 = Some (Ok (scope_sd s [KS (of_string "a"); KI 7], k)) /\
    sd_data (scope_sd s [KS (of_string "a"); KI 7]) = [(KS (of_string "z"), Leaf (SInt 0)); (KS (of_string "c"), Leaf (SInt 1))] /\
    sd_lc (scope_sd s [KS (of_string "a"); KI 7]) = sd_lc s /\ sd_lc s <> [] /\
    (* a path to a leaf, a missing path: the reader exits *)
    read_opts C14_ro_ex.fs C14_ro_ex.root true false true [SStr (of_string "a"); SStr (of_string "x")] 0 = Some (Raise E_Exit) /\
    read_opts C14_ro_ex.fs C14_ro_ex.root true false true [SStr (of_string "a"); SInt 8] 0 = Some (Raise E_Exit).
Proof.
  destruct (read_opts C14_ro_ex.fs C14_ro_ex.root true false true [] 0) as [[[s k]|e]|] eqn:E;
    [|vm_compute in E; discriminate E|vm_compute in E; discriminate E].
  exists s, k. split; [reflexivity|].
  assert (Hk : scope_keys C14_ro_ex.scope = Some [KS (of_string "a"); KI 7]) by reflexivity.
  pose proof (C14_scope_read_option_exact _ _ _ _ _ _ _ _ E Hk ltac:(discriminate)) as T.
  pose proof (C14_scope_read_option_exact _ _ _ [SStr (of_string "a"); SStr (of_string "x")] _ _ _ _ E eq_refl ltac:(discriminate)) as T2.
  pose proof (C14_scope_read_option_exact _ _ _ [SStr (of_string "a"); SInt 8] _ _ _ _ E eq_refl ltac:(discriminate)) as T3.
  set (p := [KS (of_string "a"); KI 7]) in *.
  assert (Hx : key_exists (Dict (sd_data s)) p = true) by (vm_compute in E; injection E as <- _; vm_compute; reflexivity).
  assert (Hx2 : key_exists (Dict (sd_data s)) [KS (of_string "a"); KS (of_string "x")] = false)
    by (vm_compute in E; injection E as <- _; vm_compute; reflexivity).
  assert (Hx3 : key_exists (Dict (sd_data s)) [KS (of_string "a"); KI 8] = false)
    by (vm_compute in E; injection E as <- _; vm_compute; reflexivity).
  assert (D : sd_data (scope_sd s p) = [(KS (of_string "z"), Leaf (SInt 0)); (KS (of_string "c"), Leaf (SInt 1))])
    by (vm_compute in E; injection E as <- _; vm_compute; reflexivity).
  assert (L : sd_lc (scope_sd s p) = sd_lc s) by (vm_compute in E; injection E as <- _; vm_compute; reflexivity).
  assert (L2 : sd_lc s <> []) by (vm_compute in E; injection E as <- _; vm_compute; discriminate).
  cbn [scope_keys scalar_to_key] in T2, T3. rewrite Hx in T. rewrite Hx2 in T2. rewrite Hx3 in T3.
  repeat split; assumption.
Qed.

(* any flags, no side condition: the scoped and the unscoped read go through the same stages -- one intermediate dict s1
   (parse, include merge, expression evaluation: read_core) and one counter; the unscoped read finishes s1 (order, drop
   top-level include keys: finish), the scoped read finishes SDict.reduce_scope of s1, or exits *)
Theorem C14_scope_read_option_stages : forall fs root inc order com scope sk c s k,
  scope_keys scope = Some sk -> read_opts fs root inc order com [] c = Some (Ok (s, k)) ->
  exists s1, read_core fs root inc com c = Some (Ok (s1, k)) /\ s = finish inc order s1 /\
    read_opts fs root inc order com scope c =
      match scope_stage sk s1 with Raise e => Some (Raise e) | Ok s2 => Some (Ok (finish inc order s2, k)) end.
Proof. exact read_opts_scope_stages. Qed.
Print Assumptions C14_scope_read_option_stages.

(* non-vacuity: includes off, order on, a comment INSIDE the sub-dict (not covered by plain_keys below): the scoped read
   is the finished reduce_scope of the intermediate dict *)
Example C14_scope_read_option_stages_nonvacuous :
  let fs := [(C14_ro_ex.root, FNative (of_string "a { z 0; // inside
 c 1; }
"))] in
  exists s k s1, read_opts fs C14_ro_ex.root false true true [] 0 = Some (Ok (s, k)) /\
    read_core fs C14_ro_ex.root false true 0 = Some (Ok (s1, k)) /\ s = finish false true s1 /\
    scope_stage [KS (of_string "a")] s1 = Ok (scope_sd s1 [KS (of_string "a")]) /\
    read_opts fs C14_ro_ex.root false true true [SStr (of_string "a")] 0 = Some (Ok (finish false true (scope_sd s1 [KS (of_string "a")]), k)) /\
    map fst (sd_data (finish false true (scope_sd s1 [KS (of_string "a")]))) =
      [KS (of_string "LINECOMMENT000001"); KS (of_string "c"); KS (of_string "z")] /\
    get_dpath (Dict (sd_data s)) [KS (of_string "a")] = Some (Dict (sd_data (finish false true (scope_sd s1 [KS (of_string "a")])))).
Proof.
  intros fs.
  destruct (read_opts fs C14_ro_ex.root false true true [] 0) as [[[s k]|e]|] eqn:E;
    [|vm_compute in E; discriminate E|vm_compute in E; discriminate E].
  destruct (C14_scope_read_option_stages fs C14_ro_ex.root false true true [SStr (of_string "a")] _ 0%Z s k eq_refl E)
    as (s1 & R & Es & T).
  exists s, k, s1. split; [reflexivity|]. split; [exact R|]. split; [exact Es|].
  assert (St : scope_stage [KS (of_string "a")] s1 = Ok (scope_sd s1 [KS (of_string "a")])).
  { vm_compute in R. injection R as <- _. vm_compute. reflexivity. }
  rewrite St in T. split; [exact St|]. split; [exact T|].
  split; [vm_compute in R; injection R as <- _; vm_compute; reflexivity|].
  rewrite Es. vm_compute in R. injection R as <- _. vm_compute. reflexivity.
Qed.

(* any flags: relative to the unscoped read WITH THE SAME FLAGS.  When the path k0 :: sk leads to a dict [sub] in the
   unscoped result (get_dpath: through dicts only, keys compared as data), the scoped read returns precisely [sub] as
   data -- for includes off after the top-level include-key filter, which acts on the new top level (see the finding
   below) --, the side tables and the counter of the unscoped read; otherwise the reader exits.
   Side conditions: (a) includes off: the first scope key is not itself a key that _remove_include_keys drops (finding
   C14_scope_read_option_marked_finding); (b) [sub] is well formed and holds no comment / include placeholder KEY at a
   level reachable through dicts (plain_keys), so that the clean-up after update is the identity: the general case is
   the exact theorem above with scope_sd. *)
Theorem C14_scope_read_option : forall fs root inc order com scope k0 sk c s k,
  read_opts fs root inc order com [] c = Some (Ok (s, k)) -> scope_keys scope = Some (k0 :: sk) ->
  (inc = false -> key_unmarked k0 = true) ->
  match get_dpath (Dict (sd_data s)) (k0 :: sk) with
  | Some (Dict sub) =>
      wf (Dict sub) = true -> plain_keys (Dict sub) = true ->
      read_opts fs root inc order com scope c =
        Some (Ok (mkSD (if inc then sub else remove_include_keys sub) (sd_lc s) (sd_bc s) (sd_inc s) (sd_expr s), k))
  | _ => read_opts fs root inc order com scope c = Some (Raise E_Exit)
  end.
Proof. exact scope_read_option. Qed.
Print Assumptions C14_scope_read_option.

(* non-vacuity 1: native source, includes on, order on, comments on; scope [a; 7] with the int key 7 *)
Example C14_scope_read_option_nonvacuous :
  exists s k sub,
    read_opts C14_ro_ex.fs C14_ro_ex.root true true true [] 0 = Some (Ok (s, k)) /\
    get_dpath (Dict (sd_data s)) [KS (of_string "a"); KI 7] = Some (Dict sub) /\
    sub = [(KS (of_string "c"), Leaf (SInt 1)); (KS (of_string "z"), Leaf (SInt 0))] /\
    wf (Dict sub) = true /\ plain_keys (Dict sub) = true /\
    read_opts C14_ro_ex.fs C14_ro_ex.root true true true C14_ro_ex.scope 0 =
      Some (Ok (mkSD sub (sd_lc s) (sd_bc s) (sd_inc s) (sd_expr s), k)) /\
    (* paths that do not lead to a dict *)
    read_opts C14_ro_ex.fs C14_ro_ex.root true true true [SStr (of_string "a"); SStr (of_string "x")] 0 = Some (Raise E_Exit) /\
    read_opts C14_ro_ex.fs C14_ro_ex.root true true true [SStr (of_string "b")] 0 = Some (Raise E_Exit).
Proof.
  destruct (read_opts C14_ro_ex.fs C14_ro_ex.root true true true [] 0) as [[[s k]|e]|] eqn:E;
    [|vm_compute in E; discriminate E|vm_compute in E; discriminate E].
  pose proof (C14_scope_read_option _ _ _ _ _ C14_ro_ex.scope _ _ _ _ _ E eq_refl ltac:(discriminate)) as T.
  pose proof (C14_scope_read_option _ _ _ _ _ [SStr (of_string "a"); SStr (of_string "x")] _ _ _ _ _ E eq_refl ltac:(discriminate)) as T2.
  pose proof (C14_scope_read_option _ _ _ _ _ [SStr (of_string "b")] _ _ _ _ _ E eq_refl ltac:(discriminate)) as T3.
  set (sub := [(KS (of_string "c"), Leaf (SInt 1)); (KS (of_string "z"), Leaf (SInt 0))]).
  assert (P : get_dpath (Dict (sd_data s)) [KS (of_string "a"); KI 7] = Some (Dict sub))
    by (vm_compute in E; injection E as <- _; vm_compute; reflexivity).
  assert (P2 : get_dpath (Dict (sd_data s)) [KS (of_string "a"); KS (of_string "x")] = Some (Leaf (SInt 2)))
    by (vm_compute in E; injection E as <- _; vm_compute; reflexivity).
  assert (P3 : get_dpath (Dict (sd_data s)) [KS (of_string "b")] = None)
    by (vm_compute in E; injection E as <- _; vm_compute; reflexivity).
  rewrite P in T. rewrite P2 in T2. rewrite P3 in T3.
  exists s, k, sub. repeat split; try reflexivity; try assumption.
  apply T; reflexivity.
Qed.

(* non-vacuity 2: JSON source, includes OFF, order on; keys with quotes, brackets, blanks; a negative int key inside.
   The sub-dict of the unscoped read still holds the key INCLUDE1 (the include-key filter is a top-level filter); the
   scoped read has made the sub-dict the top level and drops it: the filter and the scope reduction do not commute *)
Example C14_scope_read_option_json_nonvacuous :
  exists s k sub,
    read_opts C14_ro_ex.jfs C14_ro_ex.jroot false true true [] 0 = Some (Ok (s, k)) /\
    get_dpath (Dict (sd_data s)) [KS C14_ro_ex.k1; KS C14_ro_ex.k2] = Some (Dict sub) /\
    sub = [(KI (-3), Leaf (SStr (of_string "v"))); (KS (of_string "INCLUDE1"), Leaf (SInt 5)); (KS (of_string "b"), Leaf (SInt 1))] /\
    key_unmarked (KS C14_ro_ex.k1) = true /\ wf (Dict sub) = true /\ plain_keys (Dict sub) = true /\
    read_opts C14_ro_ex.jfs C14_ro_ex.jroot false true true C14_ro_ex.jscope 0 =
      Some (Ok (mkSD (remove_include_keys sub) (sd_lc s) (sd_bc s) (sd_inc s) (sd_expr s), k)) /\
    remove_include_keys sub = [(KI (-3), Leaf (SStr (of_string "v"))); (KS (of_string "b"), Leaf (SInt 1))].
Proof.
  destruct (read_opts C14_ro_ex.jfs C14_ro_ex.jroot false true true [] 0) as [[[s k]|e]|] eqn:E;
    [|vm_compute in E; discriminate E|vm_compute in E; discriminate E].
  pose proof (C14_scope_read_option _ _ _ _ _ C14_ro_ex.jscope _ _ _ _ _ E eq_refl ltac:(reflexivity)) as T.
  set (sub := [(KI (-3), Leaf (SStr (of_string "v"))); (KS (of_string "INCLUDE1"), Leaf (SInt 5)); (KS (of_string "b"), Leaf (SInt 1))]).
  assert (P : get_dpath (Dict (sd_data s)) [KS C14_ro_ex.k1; KS C14_ro_ex.k2] = Some (Dict sub))
    by (vm_compute in E; injection E as <- _; vm_compute; reflexivity).
  rewrite P in T.
  exists s, k, sub. repeat split; try reflexivity; try assumption.
  apply T; reflexivity.
Qed.

(* order off: condition (b) can be replaced by the weaker update_stable -- SDict.update of the emptied dict with [sub],
   clean-up included, gives back [sub] and the side tables (decided by computation on closed terms).  This covers
   sub-dicts that hold comment / include placeholder keys *)
Theorem C14_scope_read_option_unordered : forall fs root inc com scope k0 sk c s k,
  read_opts fs root inc false com [] c = Some (Ok (s, k)) -> scope_keys scope = Some (k0 :: sk) ->
  (inc = false -> key_unmarked k0 = true) ->
  match get_dpath (Dict (sd_data s)) (k0 :: sk) with
  | Some (Dict sub) =>
      update_stable sub s ->
      read_opts fs root inc false com scope c =
        Some (Ok (mkSD (if inc then sub else remove_include_keys sub) (sd_lc s) (sd_bc s) (sd_inc s) (sd_expr s), k))
  | _ => read_opts fs root inc false com scope c = Some (Raise E_Exit)
  end.
Proof. exact scope_read_option_unordered. Qed.
Print Assumptions C14_scope_read_option_unordered.

(* non-vacuity: two comments (one of them a block comment) inside the sub-dict a.b; includes off *)
Example C14_scope_read_option_unordered_nonvacuous :
  let fs := [(C14_ro_ex.root, FNative (of_string "a { b { z 0; // inside
 /* block */ 7 seven; } }
q 1;
"))] in
  exists s k sub,
    read_opts fs C14_ro_ex.root false false true [] 0 = Some (Ok (s, k)) /\
    get_dpath (Dict (sd_data s)) [KS (of_string "a"); KS (of_string "b")] = Some (Dict sub) /\
    map fst sub = [KS (of_string "z"); KS (of_string "LINECOMMENT000001"); KS (of_string "BLOCKCOMMENT000000"); KI 7] /\
    plain_keys (Dict sub) = false /\ update_stable sub s /\
    read_opts fs C14_ro_ex.root false false true [SStr (of_string "a"); SStr (of_string "b")] 0 =
      Some (Ok (mkSD (remove_include_keys sub) (sd_lc s) (sd_bc s) (sd_inc s) (sd_expr s), k)) /\
    remove_include_keys sub = sub.
Proof.
  intros fs.
  destruct (read_opts fs C14_ro_ex.root false false true [] 0) as [[[s k]|e]|] eqn:E;
    [|vm_compute in E; discriminate E|vm_compute in E; discriminate E].
  pose proof (C14_scope_read_option_unordered _ _ _ _ [SStr (of_string "a"); SStr (of_string "b")] _ _ _ _ _ E eq_refl ltac:(reflexivity)) as T.
  destruct (get_dpath (Dict (sd_data s)) [KS (of_string "a"); KS (of_string "b")]) as [[v|sub|ts]|] eqn:P;
    try (vm_compute in E; injection E as <- _; vm_compute in P; discriminate P).
  assert (K : map fst sub = [KS (of_string "z"); KS (of_string "LINECOMMENT000001"); KS (of_string "BLOCKCOMMENT000000"); KI 7])
    by (vm_compute in E; injection E as <- _; vm_compute in P; injection P as <-; reflexivity).
  assert (N : plain_keys (Dict sub) = false)
    by (vm_compute in E; injection E as <- _; vm_compute in P; injection P as <-; vm_compute; reflexivity).
  assert (U : update_stable sub s)
    by (vm_compute in E; injection E as <- _; vm_compute in P; injection P as <-; vm_compute; reflexivity).
  assert (R : remove_include_keys sub = sub)
    by (vm_compute in E; injection E as <- _; vm_compute in P; injection P as <-; vm_compute; reflexivity).
  exists s, k, sub. repeat split; try assumption; try reflexivity. exact (T U).
Qed.

(* the side condition (a): with includes off, a first scope key of the form INCLUDE<digit> is found by the scoped read
   (the scope is reduced before the include keys are dropped), although the unscoped read no longer shows it *)
Example C14_scope_read_option_marked_finding :
  exists s k s',
    read_opts C14_ro_ex.mfs C14_ro_ex.mroot false false true [] 0 = Some (Ok (s, k)) /\
    key_unmarked (KS (of_string "INCLUDE1")) = false /\
    get_dpath (Dict (sd_data s)) [KS (of_string "INCLUDE1")] = None /\
    read_opts C14_ro_ex.mfs C14_ro_ex.mroot false false true [SStr (of_string "INCLUDE1")] 0 = Some (Ok (s', k)) /\
    sd_data s' = [(KS (of_string "a"), Leaf (SInt 1))].
Proof. eexists; eexists; eexists. vm_compute. repeat split; reflexivity. Qed.

(* ================================================================================================== *)
(* non-vacuity examples added after the reviewer's audit (Properties/C14_nv.v, 2026-10-01)         *)
(* ================================================================================================== *)

(* ==== non-vacuity instance obtained BY APPLYING the theorem above (added after review) ================== *)

(* C14_exists, both directions, on a tree with a dict three keys deep under a string key, an INT key and a string key, a
   dict inside a list and a leaf: (1) from the computed test to the sub-dict, (2) from the computed sub-dict to the test,
   (3) a path to a leaf and a path through a list: the test is false, so no dict is found there *)
Example C14_exists_nonvacuous :
  let kvs0 := [(C14_ex.ka, Dict [(KI 3, Dict [(C14_ex.kc, Dict [(C14_ex.kd, Leaf (SInt 1))]); (C14_ex.kb, Leaf (SBool true))]);
                                 (C14_ex.kb, Lst [Dict [(C14_ex.kc, Leaf SNone)]])]);
               (C14_ex.kd, Dict [])] in
  let p := [C14_ex.ka; KI 3; C14_ex.kc] in
  (key_exists (Dict kvs0) p = true /\ exists kvs, get_dpath (Dict kvs0) p = Some (Dict kvs)) /\
  (get_dpath (Dict kvs0) [C14_ex.ka; KI 3] = Some (Dict [(C14_ex.kc, Dict [(C14_ex.kd, Leaf (SInt 1))]); (C14_ex.kb, Leaf (SBool true))]) /\
   key_exists (Dict kvs0) [C14_ex.ka; KI 3] = true) /\
  (key_exists (Dict kvs0) [C14_ex.ka; KI 3; C14_ex.kb] = false /\
   ~ exists kvs, get_dpath (Dict kvs0) [C14_ex.ka; KI 3; C14_ex.kb] = Some (Dict kvs)) /\
  (key_exists (Dict kvs0) [C14_ex.ka; C14_ex.kb; KI 0] = false /\
   ~ exists kvs, get_dpath (Dict kvs0) [C14_ex.ka; C14_ex.kb; KI 0] = Some (Dict kvs)).
Proof.
  intros kvs0 p.
  assert (H1 : key_exists (Dict kvs0) p = true) by (vm_compute; reflexivity).
  assert (H2 : get_dpath (Dict kvs0) [C14_ex.ka; KI 3] =
               Some (Dict [(C14_ex.kc, Dict [(C14_ex.kd, Leaf (SInt 1))]); (C14_ex.kb, Leaf (SBool true))])) by (vm_compute; reflexivity).
  assert (H3 : key_exists (Dict kvs0) [C14_ex.ka; KI 3; C14_ex.kb] = false) by (vm_compute; reflexivity).
  assert (H4 : key_exists (Dict kvs0) [C14_ex.ka; C14_ex.kb; KI 0] = false) by (vm_compute; reflexivity).
  refine (conj (conj H1 (proj1 (C14_exists kvs0 p) H1)) (conj (conj H2 (proj2 (C14_exists kvs0 _) (ex_intro _ _ H2))) (conj (conj H3 _) (conj H4 _)))).
  - intro E. apply (proj2 (C14_exists kvs0 _)) in E. rewrite H3 in E. discriminate E.
  - intro E. apply (proj2 (C14_exists kvs0 _)) in E. rewrite H4 in E. discriminate E.
Qed.

(* ================================================================================================== *)
(* added from Properties/C14_add.v (2026-10-01)                                              *)
(* ================================================================================================== *)
(* C14 (continued): the scope option without a side condition on the sub-dict.  The conditions plain_keys / update_stable of
   C14_scope_read_option(_unordered) said "the clean-up after SDict.update is the identity on the sub-dict"; that follows
   from the invariant clean_state of the unscoped read result (CleanInvariant), which is hereditary, independent of the
   scope, and which every read without expression entries establishes.  Needs CleanInvariant in _CoqProject before it. *)
From Coq Require Import String.   (* string literals of the examples; imported first so the list names win *)
From Coq Require Import NArith ZArith List Bool.
From DictIO Require Import Chars Str Value Scalar KeyPath SDict TokParser Reader Expr Eval Parse TreeSpec WorkflowProofs IncludeNested CleanInvariant CleanEval.
Import ListNotations.

Module C14_clean_ex.
  Definition root := of_string "/r/c.dict".
  (* the comment text "// c" twice at the top level (the second one is deleted), once in a, once in a.b (kept: the clean-up
     works level by level); a block comment and an int key in a.b *)
  Definition text := of_string "// c
a { // c
 b { z 0; // c
 /* blk */ 7 seven; } }
// c
q 1;
".
  Definition fs : fsys := [(root, FNative text)].
  Definition scope := [SStr (of_string "a"); SStr (of_string "b")].
  (* the finding: an expression that copies a dict out of a list *)
  Definition xtext := of_string "l ( { // c
 p 1; // c
 q 2; } );
x $l[0];
".
  Definition xfs : fsys := [(root, FNative xtext)].
  (* the same with one comment inside the list element (and the same text once more at the top level): deep *)
  Definition dtext := of_string "l ( { // c
 p 1; q 2; } );
// c
x $l[0];
n 3;
m $n;
".
  Definition dfs : fsys := [(root, FNative dtext)].
End C14_clean_ex.

(* the parser, the include merge and the read without expressions end in a clean state *)
Theorem C14_parse_clean : forall com dir c text p, parse_string com dir c text = Ok p ->
  clean_state (pr_sd p) = true /\ tabs_ok (pr_sd p) = true.
Proof. exact parse_string_good. Qed.
Print Assumptions C14_parse_clean.

Theorem C14_read_plain_clean : forall fs root inc com count s c, fs_wf fs = true ->
  read_plain fs root inc com count = Ok (s, c) -> clean_state s = true /\ tabs_ok s = true.
Proof. exact read_plain_good. Qed.
Print Assumptions C14_read_plain_clean.

(* DictReader.read with any flags and any scope: clean, when the parsed and include-merged state sm (read_merged) is safe
   for the expression evaluation: it holds no expression entry, or it is deep -- also the dicts INSIDE LISTS, which the
   clean-up never visits, have pairwise different comments per level (eval_safe; the finding at the end shows why) *)
Theorem C14_read_clean : forall fs root inc order com scope c s k, fs_wf fs = true ->
  read_opts fs root inc order com scope c = Some (Ok (s, k)) ->
  (forall sm km, read_merged fs root inc com c = Ok (sm, km) -> eval_safe sm = true) ->
  clean_state s = true /\ tabs_ok s = true.
Proof. exact read_opts_good_safe. Qed.
Print Assumptions C14_read_clean.

(* the expression evaluation keeps clean + deep *)
Theorem C14_eval_clean : forall s s1, clean_state s = true /\ tabs_ok s = true -> deep_state s = true ->
  eval_expressions s = Some (Ok s1) -> (clean_state s1 = true /\ tabs_ok s1 = true) /\ deep_state s1 = true.
Proof. exact eval_expressions_good. Qed.
Print Assumptions C14_eval_clean.

Example C14_read_clean_nonvacuous :
  exists p s k s' k',
    parse_string true (of_string "/r") 0 C14_clean_ex.text = Ok p /\ clean_state (pr_sd p) = true /\
    sd_lc (pr_sd p) = [(1%N, of_string "// c"); (2%N, of_string "// c"); (3%N, of_string "// c")] /\
    fs_wf C14_clean_ex.fs = true /\
    read_plain C14_clean_ex.fs C14_clean_ex.root true true 0 = Ok (s, k) /\ clean_state s = true /\
    read_opts C14_clean_ex.fs C14_clean_ex.root false true true [] 0 = Some (Ok (s', k')) /\ clean_state s' = true /\
    map fst (sd_data s') = [KS (of_string "LINECOMMENT000001"); KS (of_string "a"); KS (of_string "q")].
Proof.
  destruct (parse_string true (of_string "/r") 0 C14_clean_ex.text) as [p|e] eqn:E; [|vm_compute in E; discriminate E].
  destruct (read_plain C14_clean_ex.fs C14_clean_ex.root true true 0) as [[s k]|e] eqn:E2; [|vm_compute in E2; discriminate E2].
  destruct (read_opts C14_clean_ex.fs C14_clean_ex.root false true true [] 0) as [[[s' k']|e]|] eqn:E3;
    [|vm_compute in E3; discriminate E3|vm_compute in E3; discriminate E3].
  assert (F : fs_wf C14_clean_ex.fs = true) by reflexivity.
  exists p, s, k, s', k'. split; [reflexivity|]. split; [exact (proj1 (C14_parse_clean _ _ _ _ _ E))|].
  split; [vm_compute in E; injection E as <-; reflexivity|]. split; [exact F|]. split; [reflexivity|].
  split; [exact (proj1 (C14_read_plain_clean _ _ _ _ _ _ _ F E2))|]. split; [reflexivity|].
  split; [|vm_compute in E3; injection E3 as <- _; reflexivity].
  apply (C14_read_clean _ _ _ _ _ _ _ _ _ F E3). intros sm km Em. vm_compute in Em. injection Em as <- _. reflexivity.
Qed.

(* with expressions: x receives a copy of the dict inside the list, m the value of n; the merged state is deep *)
Example C14_read_clean_expr_nonvacuous :
  exists sm km s k sub,
    read_merged C14_clean_ex.dfs C14_clean_ex.root true true 0 = Ok (sm, km) /\ sd_expr sm <> [] /\ eval_safe sm = true /\
    read_opts C14_clean_ex.dfs C14_clean_ex.root true false true [] 0 = Some (Ok (s, k)) /\ clean_state s = true /\
    get_dpath (Dict (sd_data s)) [KS (of_string "x")] = Some (Dict sub) /\
    map fst sub = [KS (of_string "LINECOMMENT000001"); KS (of_string "p"); KS (of_string "q")] /\
    get_dpath (Dict (sd_data s)) [KS (of_string "m")] = Some (Leaf (SInt 3)) /\
    read_opts C14_clean_ex.dfs C14_clean_ex.root true false true [SStr (of_string "x")] 0 =
      Some (Ok (mkSD sub (sd_lc s) (sd_bc s) (sd_inc s) (sd_expr s), k)).
Proof.
  destruct (read_merged C14_clean_ex.dfs C14_clean_ex.root true true 0) as [[sm km]|e] eqn:M; [|vm_compute in M; discriminate M].
  destruct (read_opts C14_clean_ex.dfs C14_clean_ex.root true false true [] 0) as [[[s k]|e]|] eqn:E;
    [|vm_compute in E; discriminate E|vm_compute in E; discriminate E].
  assert (S : eval_safe sm = true) by (vm_compute in M; injection M as <- _; vm_compute; reflexivity).
  assert (C : clean_state s = true).
  { apply (C14_read_clean _ _ _ _ _ _ _ _ _ (eq_refl : fs_wf C14_clean_ex.dfs = true) E).
    intros sm' km' Em. rewrite M in Em. injection Em as <- _. exact S. }
  pose proof (scope_read_option_clean _ _ _ _ _ [SStr (of_string "x")] _ _ _ _ _ E eq_refl ltac:(discriminate) C) as T.
  destruct (get_dpath (Dict (sd_data s)) [KS (of_string "x")]) as [[v|sub|ts]|] eqn:P;
    try (vm_compute in E; injection E as <- _; vm_compute in P; discriminate P).
  exists sm, km, s, k, sub. split; [reflexivity|].
  split; [vm_compute in M; injection M as <- _; vm_compute; discriminate|]. split; [exact S|]. split; [reflexivity|].
  split; [exact C|]. split; [exact P|].
  split; [vm_compute in E; injection E as <- _; vm_compute in P; injection P as <-; reflexivity|].
  split; [vm_compute in E; injection E as <- _; vm_compute; reflexivity|exact T].
Qed.

(* any flags: when the unscoped read result is clean and the path k0 :: sk leads to a dict [sub] in it, the scoped read
   returns precisely [sub] as data (includes off: after the top-level include-key filter), the side tables and the counter
   of the unscoped read; otherwise the reader exits.  No condition on [sub]; condition (a) of C14_scope_read_option stays *)
Theorem C14_scope_read_option_clean : forall fs root inc order com scope k0 sk c s k,
  read_opts fs root inc order com [] c = Some (Ok (s, k)) -> scope_keys scope = Some (k0 :: sk) ->
  (inc = false -> key_unmarked k0 = true) ->
  clean_state s = true ->
  match get_dpath (Dict (sd_data s)) (k0 :: sk) with
  | Some (Dict sub) =>
      read_opts fs root inc order com scope c =
        Some (Ok (mkSD (if inc then sub else remove_include_keys sub) (sd_lc s) (sd_bc s) (sd_inc s) (sd_expr s), k))
  | _ => read_opts fs root inc order com scope c = Some (Raise E_Exit)
  end.
Proof. exact scope_read_option_clean. Qed.
Print Assumptions C14_scope_read_option_clean.

(* non-vacuity: order ON (not covered by C14_scope_read_option_unordered), includes off, comments inside the sub-dict (not
   covered by plain_keys); the cleanness of the unscoped result comes from C14_read_clean, not from a computation *)
Example C14_scope_read_option_clean_nonvacuous :
  exists s k sub,
    read_opts C14_clean_ex.fs C14_clean_ex.root false true true [] 0 = Some (Ok (s, k)) /\ clean_state s = true /\
    get_dpath (Dict (sd_data s)) [KS (of_string "a"); KS (of_string "b")] = Some (Dict sub) /\
    map fst sub = [KI 7; KS (of_string "BLOCKCOMMENT000000"); KS (of_string "LINECOMMENT000003"); KS (of_string "z")] /\
    plain_keys (Dict sub) = false /\
    read_opts C14_clean_ex.fs C14_clean_ex.root false true true C14_clean_ex.scope 0 =
      Some (Ok (mkSD (remove_include_keys sub) (sd_lc s) (sd_bc s) (sd_inc s) (sd_expr s), k)) /\
    read_opts C14_clean_ex.fs C14_clean_ex.root false true true [SStr (of_string "q")] 0 = Some (Raise E_Exit).
Proof.
  destruct (read_opts C14_clean_ex.fs C14_clean_ex.root false true true [] 0) as [[[s k]|e]|] eqn:E;
    [|vm_compute in E; discriminate E|vm_compute in E; discriminate E].
  assert (C : clean_state s = true).
  { apply (C14_read_clean _ _ _ _ _ _ _ _ _ (eq_refl : fs_wf C14_clean_ex.fs = true) E).
    intros sm km Em. vm_compute in Em. injection Em as <- _. reflexivity. }
  pose proof (C14_scope_read_option_clean _ _ _ _ _ C14_clean_ex.scope _ _ _ _ _ E eq_refl ltac:(reflexivity) C) as T.
  pose proof (C14_scope_read_option_clean _ _ _ _ _ [SStr (of_string "q")] _ _ _ _ _ E eq_refl ltac:(reflexivity) C) as T2.
  destruct (get_dpath (Dict (sd_data s)) [KS (of_string "a"); KS (of_string "b")]) as [[v|sub|ts]|] eqn:P;
    try (vm_compute in E; injection E as <- _; vm_compute in P; discriminate P).
  assert (P2 : get_dpath (Dict (sd_data s)) [KS (of_string "q")] = Some (Leaf (SInt 1)))
    by (vm_compute in E; injection E as <- _; vm_compute; reflexivity).
  rewrite P2 in T2.
  exists s, k, sub. split; [reflexivity|]. split; [exact C|]. split; [exact P|].
  split; [vm_compute in E; injection E as <- _; vm_compute in P; injection P as <-; reflexivity|].
  split; [vm_compute in E; injection E as <- _; vm_compute in P; injection P as <-; vm_compute; reflexivity|].
  split; [exact T|exact T2].
Qed.

(* finding (confirmed on the real library): a read result is NOT clean in general.  The clean-up does not enter lists; an
   expression that refers to a dict inside a list copies that dict -- with its two equal comments -- to a dict level, after
   the last clean-up of the read.  Then the scoped read (whose SDict.update cleans again) differs from the sub-dict of the
   unscoped read: it has lost the second comment entry and its table row.  So C14_scope_read_option_clean needs its
   hypothesis, and C14_read_clean its condition on expressions. *)
Example C14_scope_read_option_unclean_finding :
  exists s k sub s',
    read_opts C14_clean_ex.xfs C14_clean_ex.root true false true [] 0 = Some (Ok (s, k)) /\ clean_state s = false /\
    sd_clean s <> s /\
    get_dpath (Dict (sd_data s)) [KS (of_string "x")] = Some (Dict sub) /\
    map fst sub = [KS (of_string "LINECOMMENT000001"); KS (of_string "p"); KS (of_string "LINECOMMENT000002"); KS (of_string "q")] /\
    sd_lc s = [(1%N, of_string "// c"); (2%N, of_string "// c")] /\
    read_opts C14_clean_ex.xfs C14_clean_ex.root true false true [SStr (of_string "x")] 0 = Some (Ok (s', k)) /\
    map fst (sd_data s') = [KS (of_string "LINECOMMENT000001"); KS (of_string "p"); KS (of_string "q")] /\
    sd_lc s' = [(1%N, of_string "// c")].
Proof.
  destruct (read_opts C14_clean_ex.xfs C14_clean_ex.root true false true [] 0) as [[[s k]|e]|] eqn:E;
    [|vm_compute in E; discriminate E|vm_compute in E; discriminate E].
  destruct (read_opts C14_clean_ex.xfs C14_clean_ex.root true false true [SStr (of_string "x")] 0) as [[[s' k']|e]|] eqn:E2;
    [|vm_compute in E2; discriminate E2|vm_compute in E2; discriminate E2].
  destruct (get_dpath (Dict (sd_data s)) [KS (of_string "x")]) as [[v|sub|ts]|] eqn:P;
    try (vm_compute in E; injection E as <- _; vm_compute in P; discriminate P).
  assert (K : k' = k) by (vm_compute in E, E2; injection E as _ <-; injection E2 as _ <-; reflexivity). subst k'.
  exists s, k, sub, s'. split; [reflexivity|].
  split; [vm_compute in E; injection E as <- _; vm_compute; reflexivity|].
  split; [intros H; apply (f_equal sd_lc) in H; vm_compute in E; injection E as <- _; vm_compute in H; discriminate H|].
  split; [exact P|].
  split; [vm_compute in E; injection E as <- _; vm_compute in P; injection P as <-; reflexivity|].
  split; [vm_compute in E; injection E as <- _; reflexivity|]. split; [reflexivity|].
  split; vm_compute in E2; injection E2 as <- _; reflexivity.
Qed.

(* C14_eval_clean on the merged state of the file with expressions (dtext: `x $l[0]; m $n;`): the evaluated state is clean *)
Example C14_eval_clean_nonvacuous :
  exists sm km s1, read_merged C14_clean_ex.dfs C14_clean_ex.root true true 0 = Ok (sm, km) /\
    sd_expr sm <> [] /\ eval_expressions sm = Some (Ok s1) /\
    (clean_state s1 = true /\ tabs_ok s1 = true) /\ deep_state s1 = true.
Proof.
  destruct (read_merged C14_clean_ex.dfs C14_clean_ex.root true true 0) as [[sm km]|e] eqn:E; [|vm_compute in E; discriminate E].
  destruct (eval_expressions sm) as [[s1|e]|] eqn:E1.
  - exists sm, km, s1. split; [reflexivity|]. split.
    + vm_compute in E. injection E as Es _. subst sm. vm_compute. discriminate.
    + split; [exact E1|]. apply (C14_eval_clean sm s1); [| |exact E1].
      * vm_compute in E. injection E as Es _. subst sm. vm_compute. split; reflexivity.
      * vm_compute in E. injection E as Es _. subst sm. vm_compute. reflexivity.
  - exfalso. vm_compute in E. injection E as Es _. subst sm. vm_compute in E1. discriminate E1.
  - exfalso. vm_compute in E. injection E as Es _. subst sm. vm_compute in E1. discriminate E1.
Qed.
