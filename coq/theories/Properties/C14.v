(* C14  Key paths address one place: lookup, assignment and scope reduction agree. *)
From Coq Require Import NArith ZArith List Bool.
From DictIO Require Import Chars Str Value Scalar KeyPath SDict TreeSpec KeyPathProofs.
Import ListNotations.

(* assignment: the addressed element holds the value afterwards *)
Theorem C14_set_same : forall t p v t', p <> [] -> set_global_key t p v = Ok t' -> get_path t' p = Some v.
Proof. exact set_get_same. Qed.
Print Assumptions C14_set_same.

(* ... every place on a path that parts from p is unchanged *)
Theorem C14_set_other : forall t p v t' q,
  set_global_key t p v = Ok t' -> nonneg p = true -> nonneg q = true -> diverge p q -> get_path t' q = get_path t q.
Proof. exact set_get_other. Qed.
Print Assumptions C14_set_other.

(* ... and the containers above an existing element keep their keys (in order) / their length *)
Theorem C14_set_shape : forall t p v t' old r,
  set_global_key t p v = Ok t' -> get_path t p = Some old -> strict_prefix r p ->
  container_sig (get_path t' r) = container_sig (get_path t r).
Proof. exact set_keeps_shape. Qed.
Print Assumptions C14_set_shape.

(* paths of length <= 10 never hit the recursion guard; a path of length 11 does *)
Theorem C14_guard : forall t p v, (length p <= 10)%nat -> set_global_key t p v <> Raise E_Recursion.
Proof. exact set_guard. Qed.
Print Assumptions C14_guard.

(* search: a returned path leads to a matching leaf; None means no leaf matches *)
Theorem C14_find_sound : forall q t p, wf t = true -> find_global_key q t = Some p ->
  exists v, get_path t p = Some (Leaf v) /\ contains q (py_str v) = true.
Proof. exact find_sound. Qed.
Print Assumptions C14_find_sound.

Theorem C14_find_complete : forall q t, is_container t = true -> find_global_key q t = None ->
  forall p v, get_path t p = Some (Leaf v) -> contains q (py_str v) = false.
Proof. exact find_complete. Qed.
Print Assumptions C14_find_complete.

(* existence test: true exactly for paths of dict keys that lead to a dict *)
Theorem C14_exists : forall kvs0 p, key_exists (Dict kvs0) p = true <-> exists kvs, get_dpath (Dict kvs0) p = Some (Dict kvs).
Proof. exact key_exists_iff. Qed.
Print Assumptions C14_exists.

(* scope reduction: the content of the sub-dict for an existing path, the dict itself otherwise *)
Theorem C14_scope : forall kvs scope, wf (Dict kvs) = true -> scope <> [] ->
  reduce_scope kvs scope = match get_dpath (Dict kvs) scope with Some (Dict sub) => sub | _ => kvs end.
Proof. exact reduce_scope_spec. Qed.
Print Assumptions C14_scope.

(* non-vacuity / guard witness *)
Example C14_guard_witness :
  let deep := fix mk (n : nat) : tree := match n with O => Leaf SNone | S m => Dict [(KI 0, mk m)] end in
  set_global_key (deep 11%nat) (repeat (KI 0) 11) (Leaf SNone) = Raise E_Recursion /\
  exists t', set_global_key (deep 10%nat) (repeat (KI 0) 10) (Leaf SNone) = Ok t'.
Proof. split; [vm_compute; reflexivity | eexists; vm_compute; reflexivity]. Qed.
