(* C14  Key paths address one place: lookup, assignment and scope reduction agree. *)
From Coq Require Import String.   (* string literals of the examples; imported first so the list names win *)
From Coq Require Import NArith ZArith List Bool.
From DictIO Require Import Chars Str Value Scalar KeyPath SDict TreeSpec KeyPathProofs.
Import ListNotations.

(* the tree of the non-vacuity examples: dicts in dicts, a list holding a leaf, a dict and a list, an int key, an
   empty dict *)
Module C14_ex.
  Definition ka := KS (of_string "a").  Definition kb := KS (of_string "b").
  Definition kc := KS (of_string "c").  Definition kd := KS (of_string "d").
  Definition kvs : list (key * tree) :=
    [(ka, Dict [(kb, Lst [Leaf (SInt 1); Dict [(kc, Leaf (SStr (of_string "hello world")))]; Lst [Leaf (SInt 2); Leaf (SFloat (of_string "3.5"))]]);
                (kd, Leaf (SBool true))]);
     (KI 5, Leaf (SStr (of_string "x")));
     (kd, Dict [])].
  Definition t := Dict kvs.
  Definition nine := Leaf (SInt 9).
End C14_ex.

(* assignment: the addressed element holds the value afterwards *)
Theorem C14_set_same : forall t p v t', p <> [] -> set_global_key t p v = Ok t' -> get_path t' p = Some v.
Proof. exact set_get_same. Qed.
Print Assumptions C14_set_same.

(* non-vacuity: replacing a leaf four levels down (through a list), addressing a list element from its end, and adding
   a new key to the empty dict *)
Example C14_set_same_nonvacuous :
  (exists t', set_global_key C14_ex.t [C14_ex.ka; C14_ex.kb; KI 1; C14_ex.kc] C14_ex.nine = Ok t' /\
              get_path t' [C14_ex.ka; C14_ex.kb; KI 1; C14_ex.kc] = Some C14_ex.nine) /\
  (exists t', set_global_key C14_ex.t [C14_ex.ka; C14_ex.kb; KI (-1); KI 0] C14_ex.nine = Ok t' /\
              get_path t' [C14_ex.ka; C14_ex.kb; KI (-1); KI 0] = Some C14_ex.nine /\
              get_path t' [C14_ex.ka; C14_ex.kb; KI 2; KI 0] = Some C14_ex.nine) /\
  (exists t', set_global_key C14_ex.t [C14_ex.kd; C14_ex.kb] (Lst [C14_ex.nine]) = Ok t' /\
              get_path t' [C14_ex.kd; C14_ex.kb] = Some (Lst [C14_ex.nine])).
Proof.
  split; [|split].
  - destruct (set_global_key C14_ex.t [C14_ex.ka; C14_ex.kb; KI 1; C14_ex.kc] C14_ex.nine) as [t'|e] eqn:E; [|vm_compute in E; discriminate E].
    exists t'. split; [reflexivity|]. refine (C14_set_same _ _ _ _ _ E); discriminate.
  - destruct (set_global_key C14_ex.t [C14_ex.ka; C14_ex.kb; KI (-1); KI 0] C14_ex.nine) as [t'|e] eqn:E; [|vm_compute in E; discriminate E].
    exists t'. split; [reflexivity|]. split; [refine (C14_set_same _ _ _ _ _ E); discriminate|].
    vm_compute in E. injection E as <-. vm_compute. reflexivity.
  - destruct (set_global_key C14_ex.t [C14_ex.kd; C14_ex.kb] (Lst [C14_ex.nine])) as [t'|e] eqn:E; [|vm_compute in E; discriminate E].
    exists t'. split; [reflexivity|]. refine (C14_set_same _ _ _ _ _ E); discriminate.
Qed.

(* ... every place on a path that parts from p is unchanged *)
Theorem C14_set_other : forall t p v t' q,
  set_global_key t p v = Ok t' -> nonneg p = true -> nonneg q = true -> diverge p q -> get_path t' q = get_path t q.
Proof. exact set_get_other. Qed.
Print Assumptions C14_set_other.

(* non-vacuity: the assigned path and the observed path part inside the list a.b *)
Example C14_set_other_nonvacuous :
  let p := [C14_ex.ka; C14_ex.kb; KI 1; C14_ex.kc] in let q := [C14_ex.ka; C14_ex.kb; KI 2; KI 1] in
  nonneg p = true /\ nonneg q = true /\ diverge p q /\
  exists t', set_global_key C14_ex.t p C14_ex.nine = Ok t' /\ t' <> C14_ex.t /\
             get_path t' q = get_path C14_ex.t q /\ get_path C14_ex.t q = Some (Leaf (SFloat (of_string "3.5"))).
Proof.
  intros p q.
  assert (H1 : nonneg p = true) by reflexivity. assert (H2 : nonneg q = true) by reflexivity.
  assert (H3 : diverge p q).
  { exists [C14_ex.ka; C14_ex.kb], (KI 1), (KI 2), [C14_ex.kc], [KI 1]. repeat split; discriminate. }
  refine (conj H1 (conj H2 (conj H3 _))).
  destruct (set_global_key C14_ex.t p C14_ex.nine) as [t'|e] eqn:E; [|vm_compute in E; discriminate E].
  exists t'. split; [reflexivity|]. split; [|split; [exact (C14_set_other _ _ _ _ _ E H1 H2 H3) | vm_compute; reflexivity]].
  vm_compute in E. injection E as <-. vm_compute. discriminate.
Qed.

(* ... and the containers above an existing element keep their keys (in order) / their length *)
Theorem C14_set_shape : forall t p v t' old r,
  set_global_key t p v = Ok t' -> get_path t p = Some old -> strict_prefix r p ->
  container_sig (get_path t' r) = container_sig (get_path t r).
Proof. exact set_keeps_shape. Qed.
Print Assumptions C14_set_shape.

Example C14_set_shape_nonvacuous :
  let p := [C14_ex.ka; C14_ex.kb; KI 1; C14_ex.kc] in
  get_path C14_ex.t p = Some (Leaf (SStr (of_string "hello world"))) /\
  strict_prefix [C14_ex.ka] p /\ strict_prefix [C14_ex.ka; C14_ex.kb] p /\
  exists t', set_global_key C14_ex.t p C14_ex.nine = Ok t' /\
             container_sig (get_path t' [C14_ex.ka]) = Some (SigDict [C14_ex.kb; C14_ex.kd]) /\
             container_sig (get_path t' [C14_ex.ka; C14_ex.kb]) = Some (SigList 3).
Proof.
  intros p.
  assert (H1 : get_path C14_ex.t p = Some (Leaf (SStr (of_string "hello world")))) by (vm_compute; reflexivity).
  assert (H2 : strict_prefix [C14_ex.ka] p) by (exists C14_ex.kb, [KI 1; C14_ex.kc]; reflexivity).
  assert (H3 : strict_prefix [C14_ex.ka; C14_ex.kb] p) by (exists (KI 1), [C14_ex.kc]; reflexivity).
  refine (conj H1 (conj H2 (conj H3 _))).
  destruct (set_global_key C14_ex.t p C14_ex.nine) as [t'|e] eqn:E; [|vm_compute in E; discriminate E].
  exists t'. split; [reflexivity|]. split.
  - rewrite (C14_set_shape _ _ _ _ _ _ E H1 H2). vm_compute. reflexivity.
  - rewrite (C14_set_shape _ _ _ _ _ _ E H1 H3). vm_compute. reflexivity.
Qed.

(* paths of length <= 10 never hit the recursion guard; a path of length 11 does *)
Theorem C14_guard : forall t p v, (length p <= 10)%nat -> set_global_key t p v <> Raise E_Recursion.
Proof. exact set_guard. Qed.
Print Assumptions C14_guard.

(* non-vacuity: a path of length 4 in the example tree; the witness at the end of the file shows 10 versus 11 *)
Example C14_guard_nonvacuous :
  (length [C14_ex.ka; C14_ex.kb; KI 1; C14_ex.kc] <= 10)%nat /\
  set_global_key C14_ex.t [C14_ex.ka; C14_ex.kb; KI 1; C14_ex.kc] C14_ex.nine <> Raise E_Recursion.
Proof.
  assert (H : (length [C14_ex.ka; C14_ex.kb; KI 1; C14_ex.kc] <= 10)%nat) by (apply PeanoNat.Nat.leb_le; reflexivity).
  exact (conj H (C14_guard C14_ex.t _ C14_ex.nine H)).
Qed.

(* search: a returned path leads to a matching leaf; None means no leaf matches *)
Theorem C14_find_sound : forall q t p, wf t = true -> find_global_key q t = Some p ->
  exists v, get_path t p = Some (Leaf v) /\ contains q (py_str v) = true.
Proof. exact find_sound. Qed.
Print Assumptions C14_find_sound.

Example C14_find_sound_nonvacuous :
  let q := of_string "lo wo" in
  wf C14_ex.t = true /\ find_global_key q C14_ex.t = Some [C14_ex.ka; C14_ex.kb; KI 1; C14_ex.kc] /\
  exists v, get_path C14_ex.t [C14_ex.ka; C14_ex.kb; KI 1; C14_ex.kc] = Some (Leaf v) /\ contains q (py_str v) = true.
Proof.
  intros q. assert (H1 : wf C14_ex.t = true) by (vm_compute; reflexivity).
  assert (H2 : find_global_key q C14_ex.t = Some [C14_ex.ka; C14_ex.kb; KI 1; C14_ex.kc]) by (vm_compute; reflexivity).
  exact (conj H1 (conj H2 (C14_find_sound q C14_ex.t _ H1 H2))).
Qed.

Theorem C14_find_complete : forall q t, is_container t = true -> find_global_key q t = None ->
  forall p v, get_path t p = Some (Leaf v) -> contains q (py_str v) = false.
Proof. exact find_complete. Qed.
Print Assumptions C14_find_complete.

Example C14_find_complete_nonvacuous :
  let q := of_string "world!" in
  is_container C14_ex.t = true /\ find_global_key q C14_ex.t = None /\
  get_path C14_ex.t [C14_ex.ka; C14_ex.kb; KI 1; C14_ex.kc] = Some (Leaf (SStr (of_string "hello world"))) /\
  contains q (py_str (SStr (of_string "hello world"))) = false.
Proof.
  intros q. assert (H1 : is_container C14_ex.t = true) by reflexivity.
  assert (H2 : find_global_key q C14_ex.t = None) by (vm_compute; reflexivity).
  assert (H3 : get_path C14_ex.t [C14_ex.ka; C14_ex.kb; KI 1; C14_ex.kc] = Some (Leaf (SStr (of_string "hello world")))) by (vm_compute; reflexivity).
  exact (conj H1 (conj H2 (conj H3 (C14_find_complete q C14_ex.t H1 H2 _ _ H3)))).
Qed.

(* existence test: true exactly for paths of dict keys that lead to a dict *)
Theorem C14_exists : forall kvs0 p, key_exists (Dict kvs0) p = true <-> exists kvs, get_dpath (Dict kvs0) p = Some (Dict kvs).
Proof. exact key_exists_iff. Qed.
Print Assumptions C14_exists.

(* (no hypotheses) both directions have instances: a path to a dict, and paths to a leaf / through a list *)
Example C14_exists_example :
  key_exists C14_ex.t [C14_ex.ka] = true /\ key_exists C14_ex.t [C14_ex.kd] = true /\
  key_exists C14_ex.t [C14_ex.ka; C14_ex.kd] = false /\ key_exists C14_ex.t [C14_ex.ka; C14_ex.kb; KI 1] = false.
Proof. vm_compute. repeat split; reflexivity. Qed.

(* scope reduction: the content of the sub-dict for an existing path, the dict itself otherwise *)
Theorem C14_scope : forall kvs scope, wf (Dict kvs) = true -> scope <> [] ->
  reduce_scope kvs scope = match get_dpath (Dict kvs) scope with Some (Dict sub) => sub | _ => kvs end.
Proof. exact reduce_scope_spec. Qed.
Print Assumptions C14_scope.

(* non-vacuity: a scope that names a sub-dict (reduced to it) and scopes that name a leaf / nothing (dict unchanged) *)
Example C14_scope_nonvacuous :
  wf (Dict C14_ex.kvs) = true /\ [C14_ex.ka] <> [] /\
  reduce_scope C14_ex.kvs [C14_ex.ka] =
    [(C14_ex.kb, Lst [Leaf (SInt 1); Dict [(C14_ex.kc, Leaf (SStr (of_string "hello world")))]; Lst [Leaf (SInt 2); Leaf (SFloat (of_string "3.5"))]]);
     (C14_ex.kd, Leaf (SBool true))] /\
  reduce_scope C14_ex.kvs [C14_ex.ka; C14_ex.kd] = C14_ex.kvs /\ reduce_scope C14_ex.kvs [C14_ex.kc] = C14_ex.kvs.
Proof.
  assert (H1 : wf (Dict C14_ex.kvs) = true) by (vm_compute; reflexivity).
  assert (H2 : [C14_ex.ka] <> []) by discriminate.
  refine (conj H1 (conj H2 (conj _ (conj _ _)))).
  - rewrite (C14_scope _ _ H1 H2). vm_compute. reflexivity.
  - rewrite (C14_scope _ [C14_ex.ka; C14_ex.kd] H1) by discriminate. vm_compute. reflexivity.
  - rewrite (C14_scope _ [C14_ex.kc] H1) by discriminate. vm_compute. reflexivity.
Qed.

(* non-vacuity / guard witness *)
Example C14_guard_witness :
  let deep := fix mk (n : nat) : tree := match n with O => Leaf SNone | S m => Dict [(KI 0, mk m)] end in
  set_global_key (deep 11%nat) (repeat (KI 0) 11) (Leaf SNone) = Raise E_Recursion /\
  exists t', set_global_key (deep 10%nat) (repeat (KI 0) 10) (Leaf SNone) = Ok t'.
Proof. split; [vm_compute; reflexivity | eexists; vm_compute; reflexivity]. Qed.
