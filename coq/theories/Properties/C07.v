(* C07  SDict behaves as a dict, and merge() never overwrites or loses anything. *)
From Coq Require Import NArith ZArith List Bool.
From DictIO Require Import Chars Str Value Scalar KeyPath SDict TreeSpec SDictProofs.
Import ListNotations.

(* Python dicts have unique keys at every level: the state and every argument of an operation are well
   formed ([wf], [wf_op]); [ordinary] alone does not imply it and the statements fail on duplicated keys
   (see SDictProofs.NeedWf for the concrete failures). *)

(* one step: on ordinary data every operation of the dict API (and merge) acts on the data exactly as the
   builtin dict specification does, errors included *)
Theorem C07_step : forall s op, ordinary_kvs (sd_data s) = true -> ordinary_op op = true ->
  wf (Dict (sd_data s)) = true -> wf_op op = true ->
  match sd_step s op, py_step (sd_data s) op with
  | Ok s', Ok d' => sd_data s' = d'
  | Raise e, Raise e' => e = e'
  | _, _ => False
  end.
Proof. exact sd_step_refines. Qed.
Print Assumptions C07_step.

(* every reachable state: any history *)
Theorem C07_history : forall ops s, ordinary_kvs (sd_data s) = true -> forallb ordinary_op ops = true ->
  wf (Dict (sd_data s)) = true -> forallb wf_op ops = true ->
  sd_data (sd_run s ops) = py_run (sd_data s) ops /\
  ordinary_kvs (sd_data (sd_run s ops)) = true /\
  wf (Dict (sd_data (sd_run s ops))) = true.
Proof. exact sd_run_refines. Qed.
Print Assumptions C07_history.

(* the clean-up after update / merge only ever deletes placeholder keys *)
Theorem C07_clean_only_placeholders : forall s k, ordinary_key k = true ->
  wf (Dict (sd_data s)) = true ->
  alookup k (sd_data (sd_clean s)) = alookup k (sd_data s) \/
  exists sub sub', alookup k (sd_data s) = Some (Dict sub) /\ alookup k (sd_data (sd_clean s)) = Some (Dict sub').
Proof. exact clean_keeps_ordinary_keys. Qed.
Print Assumptions C07_clean_only_placeholders.

(* merge algebra (data level, first-wins recursive merge) *)
Theorem C07_merge_keeps : forall target other p v,
  get_dpath (Dict target) p = Some (Leaf v) -> get_dpath (Dict (merge_spec target other)) p = Some (Leaf v).
Proof. exact merge_keeps_leaves. Qed.
Print Assumptions C07_merge_keeps.

(* existing entries win: a path of [other] is present after the merge unless an existing non-dict entry of
   [target] on a proper non-empty prefix of the path blocked it *)
Theorem C07_merge_adds : forall target other p x, wf (Dict other) = true ->
  get_dpath (Dict other) p = Some x ->
  (exists y, get_dpath (Dict (merge_spec target other)) p = Some y) \/
  (exists r t, strict_prefix r p /\ r <> [] /\ get_dpath (Dict target) r = Some t /\ (forall kvs, t <> Dict kvs)).
Proof. exact merge_adds_paths. Qed.
Print Assumptions C07_merge_adds.

Theorem C07_merge_order : forall target other, exists added, map fst (merge_spec target other) = map fst target ++ added.
Proof. exact merge_keeps_order. Qed.
Print Assumptions C07_merge_order.

Theorem C07_merge_idem : forall target other, wf (Dict other) = true ->
  merge_spec (merge_spec target other) other = merge_spec target other.
Proof. exact merge_idempotent. Qed.
Print Assumptions C07_merge_idem.

(* the model's fuelled merge without self-references is the specification merge *)
Theorem C07_merge_model : forall s m o, ordinary_kvs (sd_data s) = true -> ordinary_kvs m = true ->
  wf (Dict (sd_data s)) = true -> wf (Dict m) = true ->
  sd_data (sd_merge s m o) = merge_spec (sd_data s) m.
Proof. exact sd_merge_is_spec. Qed.
Print Assumptions C07_merge_model.

(* side tables: update = other wins, merge = existing wins *)
Theorem C07_tables : forall (a b : list (N * str)) i, ids_nodup b ->
  tlookup i (tupdate a b) = (match tlookup i b with Some v => Some v | None => tlookup i a end) /\
  tlookup i (tmerge a b) = (match tlookup i a with Some v => Some v | None => tlookup i b end).
Proof. exact tables_update_vs_merge. Qed.
Print Assumptions C07_tables.

(* ---- non-vacuity: a concrete ordinary, well formed state and history satisfying every hypothesis of
   C07_history (update with an overlapping nested dict, merge, delete) -------------------------------- *)
Module C07_nonvacuous.
  Definition ka := KS [97%N].  Definition kb := KS [98%N].  Definition kc := KS [99%N].  Definition kd := KS [100%N].
  Definition one := Leaf (SInt 1).  Definition two := Leaf (SInt 2).
  Definition s0 : sdict :=
    mkSD [(ka, Dict [(kb, one)]); (kc, Leaf (SStr [120%N]))] [(1%N, [35%N; 120%N])] [] [] [].
  Definition o1 : sdict := mkSD [] [(1%N, [35%N; 121%N]); (2%N, [35%N; 122%N])] [] [] [].
  Definition ops : list sdop :=
    [ OUpdate [(ka, Dict [(kc, two)])] None;
      OMerge [(ka, Dict [(kc, one); (kd, Dict [(kb, two)])]); (kd, one)] (Some o1);
      ODel kc ].

  Example hypotheses_hold :
    ordinary_kvs (sd_data s0) = true /\ forallb ordinary_op ops = true /\
    wf (Dict (sd_data s0)) = true /\ forallb wf_op ops = true.
  Proof. vm_compute. auto. Qed.

  Example conclusion_instance :
    sd_data (sd_run s0 ops) = [(ka, Dict [(kc, two); (kd, Dict [(kb, two)])]); (kd, one)] /\
    py_run (sd_data s0) ops = [(ka, Dict [(kc, two); (kd, Dict [(kb, two)])]); (kd, one)].
  Proof. vm_compute. auto. Qed.

  Example history_applies :
    sd_data (sd_run s0 ops) = py_run (sd_data s0) ops /\
    ordinary_kvs (sd_data (sd_run s0 ops)) = true /\
    wf (Dict (sd_data (sd_run s0 ops))) = true.
  Proof.
    destruct hypotheses_hold as [H1 [H2 [H3 H4]]]. exact (C07_history ops s0 H1 H2 H3 H4).
  Qed.
End C07_nonvacuous.
Print Assumptions C07_nonvacuous.history_applies.
