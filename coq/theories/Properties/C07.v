(* C07  SDict behaves as a dict, and merge() never overwrites or loses anything. *)
From Coq Require Import String.   (* string literals of the examples; imported first so the list names win *)
From Coq Require Import NArith ZArith List Bool.
From DictIO Require Import Chars Str Value Scalar KeyPath SDict TreeSpec SDictProofs.
Import ListNotations.

(* ---- data of the non-vacuity examples ------------------------------------------------------------------------- *)
Module C07_ex.
  Definition ka := KS (of_string "a").  Definition kb := KS (of_string "b").
  Definition kc := KS (of_string "c").  Definition kd := KS (of_string "d").
  Definition one := Leaf (SInt 1).  Definition two := Leaf (SInt 2).
  Definition ph (w : string) : key * tree := (KS (of_string w), Leaf (SStr (of_string w))).
  (* an ordinary, well formed state: nested dicts, a list with a dict inside, an int key, non-empty side tables *)
  Definition s0 : sdict :=
    mkSD [(ka, Dict [(kb, one); (kc, Lst [one; Dict [(ka, two)]])]); (kc, Leaf (SStr (of_string "x y"))); (KI 1, two)]
         [(1%N, of_string "// x")] [(0%N, of_string "/* h */")] [] [].
  Definition o1 : sdict := mkSD [] [(1%N, of_string "// y"); (2%N, of_string "// z")] [] [] [].
  Definition m1 : list (key * tree) := [(ka, Dict [(kc, two); (kd, Dict [(kb, two)])]); (kd, one); (KI 1, Lst [])].
  (* every constructor of the operation type; the two deletions of kd raise KeyError on both sides *)
  Definition ops : list sdop :=
    [ OSet kd (Dict [(ka, one)]); OSet ka two; ODel kc; ODel kd; OUpdate m1 None; OUpdate m1 (Some o1); OOr m1 (Some o1);
      ORor m1; OPop (KI 1); OPop kd; OSetdefault ka two; OSetdefault kd (Lst [one; two]); OClear; OCopy; OCtor;
      OMerge m1 None; OMerge m1 (Some o1) ].
  (* a state with placeholder entries whose comments coincide: the clean-up has something to delete, at both levels *)
  Definition sc : sdict :=
    mkSD [ph "BLOCKCOMMENT000001"; ph "BLOCKCOMMENT000002";
          (ka, Dict [ph "LINECOMMENT000003"; (kb, one); ph "LINECOMMENT000004"]); (kc, two)]
         [(3%N, of_string "// l"); (4%N, of_string "// l")] [(1%N, of_string "/* c */"); (2%N, of_string "/* c */")] [] [].
  Definition target : list (key * tree) := [(ka, Dict [(kb, one); (kc, Lst [one])]); (kc, two)].
  Definition other : list (key * tree) :=
    [(kd, one); (ka, Dict [(kb, two); (kd, Dict [(ka, two)]); (kc, Dict [(ka, one)])]); (kc, Dict [(ka, one)])].
End C07_ex.

(* Python dicts have unique keys at every level: the state and every argument of an operation are well
   formed ([wf], [wf_op]); [ordinary] alone does not imply it and the statements fail on duplicated keys
   (see SDictProofs.NeedWf for the concrete failures). *)

(* one step: on ordinary data every operation of the dict API (and merge) acts on the data exactly as the
   builtin dict specification does, errors included *)
Theorem C07_step : forall s op, ordinary_kvs (sd_data s) = true -> ordinary_op op = true ->
  wf (Dict (sd_data s)) = true -> wf_op op = true ->
  match sd_step s op, py_step (sd_data s) op with
  | Ok s', Ok d' => sd_data s' = d'
  | Raise e, Raise e' => e = e'
  | _, _ => False
  end.
Proof. exact sd_step_refines. Qed.
Print Assumptions C07_step.

(* non-vacuity: the state s0 and every kind of operation (17 operations, two of them raising) meet the hypotheses; the
   conclusion is obtained from the theorem for each of them *)
Example C07_step_nonvacuous :
  ordinary_kvs (sd_data C07_ex.s0) = true /\ wf (Dict (sd_data C07_ex.s0)) = true /\
  Forall (fun op => ordinary_op op = true /\ wf_op op = true /\
                    match sd_step C07_ex.s0 op, py_step (sd_data C07_ex.s0) op with
                    | Ok s', Ok d' => sd_data s' = d'
                    | Raise e, Raise e' => e = e'
                    | _, _ => False
                    end) C07_ex.ops /\
  sd_step C07_ex.s0 (ODel C07_ex.kd) = Raise E_Key /\
  (exists s', sd_step C07_ex.s0 (OMerge C07_ex.m1 (Some C07_ex.o1)) = Ok s' /\
     sd_data s' = [(C07_ex.ka, Dict [(C07_ex.kb, C07_ex.one); (C07_ex.kc, Lst [C07_ex.one; Dict [(C07_ex.ka, C07_ex.two)]]);
                                     (C07_ex.kd, Dict [(C07_ex.kb, C07_ex.two)])]);
                   (C07_ex.kc, Leaf (SStr (of_string "x y"))); (KI 1, C07_ex.two); (C07_ex.kd, C07_ex.one)]).
Proof.
  assert (H1 : ordinary_kvs (sd_data C07_ex.s0) = true) by (vm_compute; reflexivity).
  assert (H2 : wf (Dict (sd_data C07_ex.s0)) = true) by (vm_compute; reflexivity).
  refine (conj H1 (conj H2 (conj _ (conj _ _)))).
  - unfold C07_ex.ops.
    repeat (constructor;
            [ match goal with |- ordinary_op ?op = true /\ _ =>
                assert (A : ordinary_op op = true) by (vm_compute; reflexivity);
                assert (B : wf_op op = true) by (vm_compute; reflexivity);
                exact (conj A (conj B (C07_step C07_ex.s0 op H1 A H2 B))) end | ]).
    constructor.
  - vm_compute. reflexivity.
  - eexists. split; vm_compute; reflexivity.
Qed.

(* every reachable state: any history *)
Theorem C07_history : forall ops s, ordinary_kvs (sd_data s) = true -> forallb ordinary_op ops = true ->
  wf (Dict (sd_data s)) = true -> forallb wf_op ops = true ->
  sd_data (sd_run s ops) = py_run (sd_data s) ops /\
  ordinary_kvs (sd_data (sd_run s ops)) = true /\
  wf (Dict (sd_data (sd_run s ops))) = true.
Proof. exact sd_run_refines. Qed.
Print Assumptions C07_history.

(* non-vacuity: the seventeen operations above as one history from s0 (a second instance is in the module at the end) *)
Example C07_history_nonvacuous :
  ordinary_kvs (sd_data C07_ex.s0) = true /\ forallb ordinary_op C07_ex.ops = true /\
  wf (Dict (sd_data C07_ex.s0)) = true /\ forallb wf_op C07_ex.ops = true /\
  (sd_data (sd_run C07_ex.s0 C07_ex.ops) = py_run (sd_data C07_ex.s0) C07_ex.ops /\
   ordinary_kvs (sd_data (sd_run C07_ex.s0 C07_ex.ops)) = true /\
   wf (Dict (sd_data (sd_run C07_ex.s0 C07_ex.ops))) = true) /\
  sd_data (sd_run C07_ex.s0 C07_ex.ops) = C07_ex.m1.
Proof.
  assert (H1 : ordinary_kvs (sd_data C07_ex.s0) = true) by (vm_compute; reflexivity).
  assert (H2 : forallb ordinary_op C07_ex.ops = true) by (vm_compute; reflexivity).
  assert (H3 : wf (Dict (sd_data C07_ex.s0)) = true) by (vm_compute; reflexivity).
  assert (H4 : forallb wf_op C07_ex.ops = true) by (vm_compute; reflexivity).
  refine (conj H1 (conj H2 (conj H3 (conj H4 (conj (C07_history C07_ex.ops C07_ex.s0 H1 H2 H3 H4) _))))).
  vm_compute. reflexivity.
Qed.

(* the clean-up after update / merge only ever deletes placeholder keys *)
Theorem C07_clean_only_placeholders : forall s k, ordinary_key k = true ->
  wf (Dict (sd_data s)) = true ->
  alookup k (sd_data (sd_clean s)) = alookup k (sd_data s) \/
  exists sub sub', alookup k (sd_data s) = Some (Dict sub) /\ alookup k (sd_data (sd_clean s)) = Some (Dict sub').
Proof. exact clean_keeps_ordinary_keys. Qed.
Print Assumptions C07_clean_only_placeholders.

(* non-vacuity: a state in which the clean-up really deletes entries (the second block comment at the top level, the
   second line comment inside a); the ordinary keys c (a leaf: first alternative) and a (a dict: second alternative)
   meet the hypotheses.  Note that for a the theorem itself says no more than "a dict before, a dict after". *)
Example C07_clean_only_placeholders_nonvacuous :
  ordinary_key C07_ex.kc = true /\ ordinary_key C07_ex.ka = true /\ wf (Dict (sd_data C07_ex.sc)) = true /\
  sd_data (sd_clean C07_ex.sc) =
    [C07_ex.ph "BLOCKCOMMENT000001"; (C07_ex.ka, Dict [C07_ex.ph "LINECOMMENT000003"; (C07_ex.kb, C07_ex.one)]); (C07_ex.kc, C07_ex.two)] /\
  alookup C07_ex.kc (sd_data (sd_clean C07_ex.sc)) = alookup C07_ex.kc (sd_data C07_ex.sc) /\
  (alookup C07_ex.ka (sd_data (sd_clean C07_ex.sc)) = alookup C07_ex.ka (sd_data C07_ex.sc) \/
   exists sub sub', alookup C07_ex.ka (sd_data C07_ex.sc) = Some (Dict sub) /\
                    alookup C07_ex.ka (sd_data (sd_clean C07_ex.sc)) = Some (Dict sub')).
Proof.
  assert (H1 : ordinary_key C07_ex.kc = true) by (vm_compute; reflexivity).
  assert (H2 : ordinary_key C07_ex.ka = true) by (vm_compute; reflexivity).
  assert (H3 : wf (Dict (sd_data C07_ex.sc)) = true) by (vm_compute; reflexivity).
  refine (conj H1 (conj H2 (conj H3 (conj _ (conj _ (C07_clean_only_placeholders C07_ex.sc C07_ex.ka H2 H3)))))).
  - vm_compute. reflexivity.
  - vm_compute. reflexivity.
Qed.

(* merge algebra (data level, first-wins recursive merge) *)
Theorem C07_merge_keeps : forall target other p v,
  get_dpath (Dict target) p = Some (Leaf v) -> get_dpath (Dict (merge_spec target other)) p = Some (Leaf v).
Proof. exact merge_keeps_leaves. Qed.
Print Assumptions C07_merge_keeps.

Example C07_merge_keeps_nonvacuous :
  get_dpath (Dict C07_ex.target) [C07_ex.ka; C07_ex.kb] = Some (Leaf (SInt 1)) /\
  get_dpath (Dict C07_ex.other) [C07_ex.ka; C07_ex.kb] = Some (Leaf (SInt 2)) /\
  get_dpath (Dict (merge_spec C07_ex.target C07_ex.other)) [C07_ex.ka; C07_ex.kb] = Some (Leaf (SInt 1)).
Proof.
  assert (H : get_dpath (Dict C07_ex.target) [C07_ex.ka; C07_ex.kb] = Some (Leaf (SInt 1))) by (vm_compute; reflexivity).
  refine (conj H (conj _ (C07_merge_keeps C07_ex.target C07_ex.other _ _ H))). vm_compute. reflexivity.
Qed.

(* existing entries win: a path of [other] is present after the merge unless an existing non-dict entry of
   [target] on a proper non-empty prefix of the path blocked it *)
Theorem C07_merge_adds : forall target other p x, wf (Dict other) = true ->
  get_dpath (Dict other) p = Some x ->
  (exists y, get_dpath (Dict (merge_spec target other)) p = Some y) \/
  (exists r t, strict_prefix r p /\ r <> [] /\ get_dpath (Dict target) r = Some t /\ (forall kvs, t <> Dict kvs)).
Proof. exact merge_adds_paths. Qed.
Print Assumptions C07_merge_adds.

(* non-vacuity: both alternatives occur -- a.d.a is added (below an existing dict), c.a is blocked by the leaf c *)
Example C07_merge_adds_nonvacuous :
  wf (Dict C07_ex.other) = true /\
  get_dpath (Dict C07_ex.other) [C07_ex.ka; C07_ex.kd; C07_ex.ka] = Some C07_ex.two /\
  get_dpath (Dict (merge_spec C07_ex.target C07_ex.other)) [C07_ex.ka; C07_ex.kd; C07_ex.ka] = Some C07_ex.two /\
  get_dpath (Dict C07_ex.other) [C07_ex.kc; C07_ex.ka] = Some C07_ex.one /\
  get_dpath (Dict (merge_spec C07_ex.target C07_ex.other)) [C07_ex.kc; C07_ex.ka] = None /\
  ((exists y, get_dpath (Dict (merge_spec C07_ex.target C07_ex.other)) [C07_ex.kc; C07_ex.ka] = Some y) \/
   (exists r t, strict_prefix r [C07_ex.kc; C07_ex.ka] /\ r <> [] /\ get_dpath (Dict C07_ex.target) r = Some t /\
                (forall kvs, t <> Dict kvs))).
Proof.
  assert (H1 : wf (Dict C07_ex.other) = true) by (vm_compute; reflexivity).
  assert (H2 : get_dpath (Dict C07_ex.other) [C07_ex.kc; C07_ex.ka] = Some C07_ex.one) by (vm_compute; reflexivity).
  refine (conj H1 (conj _ (conj _ (conj H2 (conj _ (C07_merge_adds C07_ex.target C07_ex.other _ _ H1 H2))))));
  vm_compute; reflexivity.
Qed.

Theorem C07_merge_order : forall target other, exists added, map fst (merge_spec target other) = map fst target ++ added.
Proof. exact merge_keeps_order. Qed.
Print Assumptions C07_merge_order.

Theorem C07_merge_idem : forall target other, wf (Dict other) = true ->
  merge_spec (merge_spec target other) other = merge_spec target other.
Proof. exact merge_idempotent. Qed.
Print Assumptions C07_merge_idem.

Example C07_merge_idem_nonvacuous :
  wf (Dict C07_ex.other) = true /\ merge_spec C07_ex.target C07_ex.other <> C07_ex.target /\
  merge_spec (merge_spec C07_ex.target C07_ex.other) C07_ex.other = merge_spec C07_ex.target C07_ex.other.
Proof.
  assert (H1 : wf (Dict C07_ex.other) = true) by (vm_compute; reflexivity).
  refine (conj H1 (conj _ (C07_merge_idem C07_ex.target C07_ex.other H1))). vm_compute. discriminate.
Qed.

(* the model's fuelled merge without self-references is the specification merge *)
Theorem C07_merge_model : forall s m o, ordinary_kvs (sd_data s) = true -> ordinary_kvs m = true ->
  wf (Dict (sd_data s)) = true -> wf (Dict m) = true ->
  sd_data (sd_merge s m o) = merge_spec (sd_data s) m.
Proof. exact sd_merge_is_spec. Qed.
Print Assumptions C07_merge_model.

Example C07_merge_model_nonvacuous :
  ordinary_kvs (sd_data C07_ex.s0) = true /\ ordinary_kvs C07_ex.other = true /\
  wf (Dict (sd_data C07_ex.s0)) = true /\ wf (Dict C07_ex.other) = true /\
  sd_data (sd_merge C07_ex.s0 C07_ex.other (Some C07_ex.o1)) = merge_spec (sd_data C07_ex.s0) C07_ex.other /\
  merge_spec (sd_data C07_ex.s0) C07_ex.other =
    [(C07_ex.ka, Dict [(C07_ex.kb, C07_ex.one); (C07_ex.kc, Lst [C07_ex.one; Dict [(C07_ex.ka, C07_ex.two)]]);
                       (C07_ex.kd, Dict [(C07_ex.ka, C07_ex.two)])]);
     (C07_ex.kc, Leaf (SStr (of_string "x y"))); (KI 1, C07_ex.two); (C07_ex.kd, C07_ex.one)].
Proof.
  assert (H1 : ordinary_kvs (sd_data C07_ex.s0) = true) by (vm_compute; reflexivity).
  assert (H2 : ordinary_kvs C07_ex.other = true) by (vm_compute; reflexivity).
  assert (H3 : wf (Dict (sd_data C07_ex.s0)) = true) by (vm_compute; reflexivity).
  assert (H4 : wf (Dict C07_ex.other) = true) by (vm_compute; reflexivity).
  refine (conj H1 (conj H2 (conj H3 (conj H4 (conj (C07_merge_model C07_ex.s0 C07_ex.other _ H1 H2 H3 H4) _))))).
  vm_compute. reflexivity.
Qed.

(* side tables: update = other wins, merge = existing wins *)
Theorem C07_tables : forall (a b : list (N * str)) i, ids_nodup b ->
  tlookup i (tupdate a b) = (match tlookup i b with Some v => Some v | None => tlookup i a end) /\
  tlookup i (tmerge a b) = (match tlookup i a with Some v => Some v | None => tlookup i b end).
Proof. exact tables_update_vs_merge. Qed.
Print Assumptions C07_tables.

Example C07_tables_nonvacuous :
  let a := [(1%N, of_string "// a1"); (3%N, of_string "// a3")] in
  let b := [(3%N, of_string "// b3"); (2%N, of_string "// b2")] in
  ids_nodup b /\
  (tlookup 3%N (tupdate a b) = Some (of_string "// b3") /\ tlookup 3%N (tmerge a b) = Some (of_string "// a3")) /\
  (tlookup 2%N (tupdate a b) = Some (of_string "// b2") /\ tlookup 2%N (tmerge a b) = Some (of_string "// b2")).
Proof.
  intros a b.
  assert (H : ids_nodup b).
  { unfold ids_nodup. cbn [b map fst]. repeat constructor; cbn [In]; intuition discriminate. }
  exact (conj H (conj (C07_tables a b 3%N H) (C07_tables a b 2%N H))).
Qed.

(* ---- non-vacuity: a concrete ordinary, well formed state and history satisfying every hypothesis of
   C07_history (update with an overlapping nested dict, merge, delete) -------------------------------- *)
Module C07_nonvacuous.
  Definition ka := KS [97%N].  Definition kb := KS [98%N].  Definition kc := KS [99%N].  Definition kd := KS [100%N].
  Definition one := Leaf (SInt 1).  Definition two := Leaf (SInt 2).
  Definition s0 : sdict :=
    mkSD [(ka, Dict [(kb, one)]); (kc, Leaf (SStr [120%N]))] [(1%N, [35%N; 120%N])] [] [] [].
  Definition o1 : sdict := mkSD [] [(1%N, [35%N; 121%N]); (2%N, [35%N; 122%N])] [] [] [].
  Definition ops : list sdop :=
    [ OUpdate [(ka, Dict [(kc, two)])] None;
      OMerge [(ka, Dict [(kc, one); (kd, Dict [(kb, two)])]); (kd, one)] (Some o1);
      ODel kc ].

  Example hypotheses_hold :
    ordinary_kvs (sd_data s0) = true /\ forallb ordinary_op ops = true /\
    wf (Dict (sd_data s0)) = true /\ forallb wf_op ops = true.
  Proof. vm_compute. auto. Qed.

  Example conclusion_instance :
    sd_data (sd_run s0 ops) = [(ka, Dict [(kc, two); (kd, Dict [(kb, two)])]); (kd, one)] /\
    py_run (sd_data s0) ops = [(ka, Dict [(kc, two); (kd, Dict [(kb, two)])]); (kd, one)].
  Proof. vm_compute. auto. Qed.

  Example history_applies :
    sd_data (sd_run s0 ops) = py_run (sd_data s0) ops /\
    ordinary_kvs (sd_data (sd_run s0 ops)) = true /\
    wf (Dict (sd_data (sd_run s0 ops))) = true.
  Proof.
    destruct hypotheses_hold as [H1 [H2 [H3 H4]]]. exact (C07_history ops s0 H1 H2 H3 H4).
  Qed.
End C07_nonvacuous.
Print Assumptions C07_nonvacuous.history_applies.

(* ================================================================================================================ *)
(* The model's clean-up and merge on ARBITRARY states (placeholder keys for comments / the header / includes        *)
(* allowed): every state read from a file with a comment is of this kind, and C07_merge_model does not cover it.     *)
(* ================================================================================================================ *)
From DictIO Require Import WriteProofs.

(* the clean-up never touches anything reachable through ordinary keys, at every depth (this replaces the weak second
   alternative "a dict stays a dict" of C07_clean_only_placeholders) *)
Theorem C07_clean_keeps_ordinary_paths : forall s p x,
  forallb ordinary_key p = true -> wf (Dict (sd_data s)) = true ->
  get_dpath (Dict (sd_data s)) p = Some x -> (forall kvs, x <> Dict kvs) ->
  get_dpath (Dict (sd_data (sd_clean s))) p = Some x.
Proof. exact sd_clean_keeps_ordinary_paths. Qed.
Print Assumptions C07_clean_keeps_ordinary_paths.

(* non-vacuity: the state sc, in which the clean-up deletes a placeholder entry at the top level AND one inside a; the
   nested ordinary leaf a.b and the top-level leaf c meet the hypotheses and are obtained from the theorem *)
Example C07_clean_keeps_ordinary_paths_nonvacuous :
  forallb ordinary_key [C07_ex.ka; C07_ex.kb] = true /\ wf (Dict (sd_data C07_ex.sc)) = true /\
  get_dpath (Dict (sd_data C07_ex.sc)) [C07_ex.ka; C07_ex.kb] = Some C07_ex.one /\
  sd_data (sd_clean C07_ex.sc) <> sd_data C07_ex.sc /\
  get_dpath (Dict (sd_data C07_ex.sc)) [C07_ex.ka] <> get_dpath (Dict (sd_data (sd_clean C07_ex.sc))) [C07_ex.ka] /\
  get_dpath (Dict (sd_data (sd_clean C07_ex.sc))) [C07_ex.ka; C07_ex.kb] = Some C07_ex.one /\
  get_dpath (Dict (sd_data (sd_clean C07_ex.sc))) [C07_ex.kc] = Some C07_ex.two.
Proof.
  assert (H1 : forallb ordinary_key [C07_ex.ka; C07_ex.kb] = true) by (vm_compute; reflexivity).
  assert (H1' : forallb ordinary_key [C07_ex.kc] = true) by (vm_compute; reflexivity).
  assert (H2 : wf (Dict (sd_data C07_ex.sc)) = true) by (vm_compute; reflexivity).
  assert (H3 : get_dpath (Dict (sd_data C07_ex.sc)) [C07_ex.ka; C07_ex.kb] = Some C07_ex.one) by (vm_compute; reflexivity).
  assert (H3' : get_dpath (Dict (sd_data C07_ex.sc)) [C07_ex.kc] = Some C07_ex.two) by (vm_compute; reflexivity).
  assert (H4 : forall kvs, C07_ex.one <> Dict kvs) by (intros kvs; discriminate).
  assert (H4' : forall kvs, C07_ex.two <> Dict kvs) by (intros kvs; discriminate).
  refine (conj H1 (conj H2 (conj H3 (conj _ (conj _
           (conj (C07_clean_keeps_ordinary_paths C07_ex.sc _ _ H1 H2 H3 H4)
                 (C07_clean_keeps_ordinary_paths C07_ex.sc _ _ H1' H2 H3' H4'))))))).
  - vm_compute. discriminate.
  - vm_compute. discriminate.
Qed.

(* merge keeps every existing leaf under ordinary keys for arbitrary states.  Side condition: the leaf is not a
   top-level value that refers to its own key (dollar + key, after an EXPRESSION placeholder has been replaced by its
   text) -- such an entry is replaced by merge on purpose; see C07_merge_self_reference_is_replaced below. *)
Theorem C07_merge_keeps_any_state : forall s m o p v,
  forallb ordinary_key p = true -> wf (Dict (sd_data s)) = true ->
  get_dpath (Dict (sd_data s)) p = Some (Leaf v) ->
  match p with [k] => circular k (insert_expression (Leaf v) (sd_expr s)) | _ => false end = false ->
  get_dpath (Dict (sd_data (sd_merge s m o))) p = Some (Leaf v).
Proof. exact sd_merge_keeps_any_state. Qed.
Print Assumptions C07_merge_keeps_any_state.

Module C07_ex2.
  (* merged into sc: clashes with a.b and c, new entries a.d and d, and a placeholder entry of its own *)
  Definition m2 : list (key * tree) :=
    [(C07_ex.ka, Dict [(C07_ex.kb, C07_ex.two); (C07_ex.kd, C07_ex.two)]); (C07_ex.kc, C07_ex.one);
     C07_ex.ph "BLOCKCOMMENT000007"; (C07_ex.kd, C07_ex.one); (C07_ex.kb, Lst [C07_ex.one])].
  (* m2's block comment has the text of sc's: the clean-up after the merge deletes m2's placeholder entry again *)
  Definition o2 : sdict := mkSD [] [] [(7%N, of_string "/* c */")] [] [].
  (* a: top-level value referring to its own key;  b: the same through the expressions table *)
  Definition sref : sdict :=
    mkSD [(C07_ex.ka, Leaf (SStr (of_string "$a + 1"))); (C07_ex.kb, Leaf (SStr (of_string "EXPRESSION000000")));
          (C07_ex.kc, Dict [(C07_ex.kc, Leaf (SStr (of_string "$c")))])]
         [] [] [] [(0%N, (of_string "$b", of_string "EXPRESSION000000"))].
  Definition mref : list (key * tree) :=
    [(C07_ex.ka, C07_ex.one); (C07_ex.kb, C07_ex.two); (C07_ex.kc, Dict [(C07_ex.kc, C07_ex.one)])].
End C07_ex2.

(* non-vacuity: sc is NOT ordinary (C07_merge_model is silent about it); the nested leaf a.b (clashing with m2's a.b)
   and the leaf c (clashing with m2's c) meet the hypotheses and survive; the merge and its clean-up both do something *)
Example C07_merge_keeps_any_state_nonvacuous :
  ordinary_kvs (sd_data C07_ex.sc) = false /\
  forallb ordinary_key [C07_ex.ka; C07_ex.kb] = true /\ wf (Dict (sd_data C07_ex.sc)) = true /\
  get_dpath (Dict (sd_data C07_ex.sc)) [C07_ex.ka; C07_ex.kb] = Some (Leaf (SInt 1)) /\
  get_dpath (Dict C07_ex2.m2) [C07_ex.ka; C07_ex.kb] = Some (Leaf (SInt 2)) /\
  get_dpath (Dict (sd_data (sd_merge C07_ex.sc C07_ex2.m2 (Some C07_ex2.o2)))) [C07_ex.ka; C07_ex.kb] = Some (Leaf (SInt 1)) /\
  get_dpath (Dict (sd_data (sd_merge C07_ex.sc C07_ex2.m2 (Some C07_ex2.o2)))) [C07_ex.kc] = Some (Leaf (SInt 2)) /\
  sd_data (sd_merge C07_ex.sc C07_ex2.m2 (Some C07_ex2.o2)) =
    [C07_ex.ph "BLOCKCOMMENT000001";
     (C07_ex.ka, Dict [C07_ex.ph "LINECOMMENT000003"; (C07_ex.kb, C07_ex.one); (C07_ex.kd, C07_ex.two)]);
     (C07_ex.kc, C07_ex.two); (C07_ex.kd, C07_ex.one); (C07_ex.kb, Lst [C07_ex.one])].
Proof.
  assert (H1 : forallb ordinary_key [C07_ex.ka; C07_ex.kb] = true) by (vm_compute; reflexivity).
  assert (H1' : forallb ordinary_key [C07_ex.kc] = true) by (vm_compute; reflexivity).
  assert (H2 : wf (Dict (sd_data C07_ex.sc)) = true) by (vm_compute; reflexivity).
  assert (H3 : get_dpath (Dict (sd_data C07_ex.sc)) [C07_ex.ka; C07_ex.kb] = Some (Leaf (SInt 1))) by (vm_compute; reflexivity).
  assert (H3' : get_dpath (Dict (sd_data C07_ex.sc)) [C07_ex.kc] = Some (Leaf (SInt 2))) by (vm_compute; reflexivity).
  assert (H4 : match [C07_ex.kc] with [k] => circular k (insert_expression (Leaf (SInt 2)) (sd_expr C07_ex.sc)) | _ => false end = false)
    by (vm_compute; reflexivity).
  refine (conj _ (conj H1 (conj H2 (conj H3 (conj _
           (conj (C07_merge_keeps_any_state C07_ex.sc C07_ex2.m2 (Some C07_ex2.o2) _ _ H1 H2 H3 eq_refl)
           (conj (C07_merge_keeps_any_state C07_ex.sc C07_ex2.m2 (Some C07_ex2.o2) _ _ H1' H2 H3' H4) _))))))).
  - vm_compute. reflexivity.
  - vm_compute. reflexivity.
  - vm_compute. reflexivity.
Qed.

(* why the side condition is there (the modelled library does this on purpose: an entry whose value refers to its own
   key is the one thing merge overwrites).  a and b are replaced; the nested c.c is not tested and stays. *)
Example C07_merge_self_reference_is_replaced :
  wf (Dict (sd_data C07_ex2.sref)) = true /\
  match [C07_ex.ka] with [k] => circular k (insert_expression (Leaf (SStr (of_string "$a + 1"))) (sd_expr C07_ex2.sref)) | _ => false end = true /\
  match [C07_ex.kb] with [k] => circular k (insert_expression (Leaf (SStr (of_string "EXPRESSION000000"))) (sd_expr C07_ex2.sref)) | _ => false end = true /\
  sd_data (sd_merge C07_ex2.sref C07_ex2.mref None) =
    [(C07_ex.ka, C07_ex.one); (C07_ex.kb, C07_ex.two); (C07_ex.kc, Dict [(C07_ex.kc, Leaf (SStr (of_string "$c")))])] /\
  get_dpath (Dict (sd_data (sd_merge C07_ex2.sref C07_ex2.mref None))) [C07_ex.kc; C07_ex.kc] = Some (Leaf (SStr (of_string "$c"))).
Proof.
  assert (H1 : forallb ordinary_key [C07_ex.kc; C07_ex.kc] = true) by (vm_compute; reflexivity).
  assert (H2 : wf (Dict (sd_data C07_ex2.sref)) = true) by (vm_compute; reflexivity).
  assert (H3 : get_dpath (Dict (sd_data C07_ex2.sref)) [C07_ex.kc; C07_ex.kc] = Some (Leaf (SStr (of_string "$c")))) by (vm_compute; reflexivity).
  refine (conj H2 (conj _ (conj _ (conj _ (C07_merge_keeps_any_state C07_ex2.sref C07_ex2.mref None _ _ H1 H2 H3 eq_refl)))));
    vm_compute; reflexivity.
Qed.

(* a top-level ordinary key of m that s lacks is present afterwards with m's value, for every value that is not a dict
   (a dict value is added too, but goes through the clean-up) *)
Theorem C07_merge_adds_any_state : forall s m o k x,
  ordinary_key k = true -> wf (Dict (sd_data s)) = true -> wf (Dict m) = true ->
  alookup k (sd_data s) = None -> alookup k m = Some x -> (forall kvs, x <> Dict kvs) ->
  alookup k (sd_data (sd_merge s m o)) = Some x.
Proof. exact sd_merge_adds_any_state. Qed.
Print Assumptions C07_merge_adds_any_state.

(* non-vacuity: d (a leaf) and b (a list) are new top-level keys of m2 *)
Example C07_merge_adds_any_state_nonvacuous :
  ordinary_key C07_ex.kd = true /\ ordinary_key C07_ex.kb = true /\
  wf (Dict (sd_data C07_ex.sc)) = true /\ wf (Dict C07_ex2.m2) = true /\
  alookup C07_ex.kd (sd_data C07_ex.sc) = None /\ alookup C07_ex.kb (sd_data C07_ex.sc) = None /\
  alookup C07_ex.kd (sd_data (sd_merge C07_ex.sc C07_ex2.m2 (Some C07_ex2.o2))) = Some C07_ex.one /\
  alookup C07_ex.kb (sd_data (sd_merge C07_ex.sc C07_ex2.m2 (Some C07_ex2.o2))) = Some (Lst [C07_ex.one]).
Proof.
  assert (H1 : ordinary_key C07_ex.kd = true) by (vm_compute; reflexivity).
  assert (H1' : ordinary_key C07_ex.kb = true) by (vm_compute; reflexivity).
  assert (H2 : wf (Dict (sd_data C07_ex.sc)) = true) by (vm_compute; reflexivity).
  assert (H3 : wf (Dict C07_ex2.m2) = true) by (vm_compute; reflexivity).
  assert (H4 : alookup C07_ex.kd (sd_data C07_ex.sc) = None) by (vm_compute; reflexivity).
  assert (H4' : alookup C07_ex.kb (sd_data C07_ex.sc) = None) by (vm_compute; reflexivity).
  assert (H5 : alookup C07_ex.kd C07_ex2.m2 = Some C07_ex.one) by (vm_compute; reflexivity).
  assert (H5' : alookup C07_ex.kb C07_ex2.m2 = Some (Lst [C07_ex.one])) by (vm_compute; reflexivity).
  refine (conj H1 (conj H1' (conj H2 (conj H3 (conj H4 (conj H4'
           (conj (C07_merge_adds_any_state C07_ex.sc C07_ex2.m2 (Some C07_ex2.o2) _ _ H1 H2 H3 H4 H5 _)
                 (C07_merge_adds_any_state C07_ex.sc C07_ex2.m2 (Some C07_ex2.o2) _ _ H1' H2 H3 H4' H5' _))))))));
    intros kvs; discriminate.
Qed.

(* ================================================================================================== *)
(* non-vacuity examples added after the reviewer's audit (Properties/C07_nv.v, 2026-10-01)         *)
(* ================================================================================================== *)

(* ==== non-vacuity instance obtained BY APPLYING the theorem above (added after review) ================== *)

(* C07_merge_order: a nested target (dict with a list) and an [other] whose FIRST key is new and whose later keys clash:
   the theorem gives the list of added keys; compared with the computed key list it is [d] *)
Example C07_merge_order_nonvacuous :
  exists added, map fst (merge_spec C07_ex.target C07_ex.other) = map fst C07_ex.target ++ added /\ added = [C07_ex.kd] /\
    map fst C07_ex.other = [C07_ex.kd; C07_ex.ka; C07_ex.kc] /\ map fst C07_ex.target = [C07_ex.ka; C07_ex.kc].
Proof.
  destruct (C07_merge_order C07_ex.target C07_ex.other) as [added H]. exists added. split; [exact H|].
  assert (E : map fst (merge_spec C07_ex.target C07_ex.other) = map fst C07_ex.target ++ [C07_ex.kd]) by (vm_compute; reflexivity).
  rewrite E in H. split; [symmetry; exact (app_inv_head _ _ _ H) | split; vm_compute; reflexivity].
Qed.

(* ================================================================================================== *)
(* added from Properties/C07_add.v (2026-10-01)                                              *)
(* ================================================================================================== *)
(* C07 (continued): the clean-up invariant.  SDict._clean (run after every update / merge / copy) deletes placeholder
   entries whose comment / include text repeats an earlier one OF THE SAME DICT LEVEL, together with their table rows.
   clean_state characterises its fixed points: the data is a Python dict at every level (wf) and, at every level reachable
   through dicts, the table entries looked up for the placeholder keys of one kind are pairwise different (keys without an
   id or without a table row do not count; dicts inside lists are not visited).  Needs CleanInvariant (after IncludeNested,
   RereadNum, OrderFile, WorkflowProofs, WriteProofs in _CoqProject). *)
From Coq Require Import String.
From Coq Require Import NArith ZArith List Bool.
From DictIO Require Import Chars Str Value Scalar KeyPath SDict TreeSpec CleanInvariant.
Import ListNotations.

Module C07_clean_ex.
  Definition ph (w : string) : key * tree := (KS (of_string w), Leaf (SStr (of_string w))).
  Definition ka := KS (of_string "a").  Definition kb := KS (of_string "b").
  (* the same comment text "// c" at two levels (allowed), and twice at the top level and twice in a (deleted by _clean);
     an include placeholder twice with the same entry; a key that merely looks like a placeholder and has no table row *)
  Definition inc1 : include_entry := (of_string "#include 'x'", of_string "x", of_string "/d/x").
  Definition dirty : sdict :=
    mkSD [ph "LINECOMMENT000001"; (kb, Leaf (SInt 1)); ph "LINECOMMENT000002"; ph "INCLUDE000007"; ph "INCLUDE000008";
          (ka, Dict [ph "LINECOMMENT000003"; (kb, Leaf (SInt 2)); ph "LINECOMMENT000004"; ph "BLOCKCOMMENT000099"]);
          (KI 5, Lst [Dict [ph "LINECOMMENT000003"; ph "LINECOMMENT000004"]])]
         [(1%N, of_string "// c"); (2%N, of_string "// c"); (3%N, of_string "// c"); (4%N, of_string "// c")] []
         [(7%N, inc1); (8%N, inc1)] [].
  Definition clean : sdict := sd_clean dirty.
End C07_clean_ex.

(* a clean state is a fixed point of the clean-up *)
Theorem C07_clean_fixpoint : forall s, clean_state s = true -> sd_clean s = s.
Proof. exact clean_state_fix. Qed.
Print Assumptions C07_clean_fixpoint.

(* the clean-up establishes the invariant (the ids of a side table are distinct: they are the keys of a Python dict) *)
Theorem C07_clean_establishes : forall s, wf (Dict (sd_data s)) = true -> tabs_ok s = true ->
  clean_state (sd_clean s) = true /\ tabs_ok (sd_clean s) = true.
Proof. exact sd_clean_establishes. Qed.
Print Assumptions C07_clean_establishes.

(* so clean_state is exactly "the clean-up changes nothing" *)
Theorem C07_clean_exact : forall s, wf (Dict (sd_data s)) = true -> tabs_ok s = true -> (clean_state s = true <-> sd_clean s = s).
Proof. exact clean_state_exact. Qed.
Print Assumptions C07_clean_exact.

Theorem C07_clean_idempotent : forall s, wf (Dict (sd_data s)) = true -> tabs_ok s = true -> sd_clean (sd_clean s) = sd_clean s.
Proof. exact sd_clean_idempotent. Qed.
Print Assumptions C07_clean_idempotent.

Example C07_clean_nonvacuous :
  wf (Dict (sd_data C07_clean_ex.dirty)) = true /\ tabs_ok C07_clean_ex.dirty = true /\ clean_state C07_clean_ex.dirty = false /\
  sd_clean C07_clean_ex.dirty <> C07_clean_ex.dirty /\
  (* what is left: one comment per level, one include; the dict inside the list keeps its two *)
  map fst (sd_data C07_clean_ex.clean) = [KS (of_string "LINECOMMENT000001"); C07_clean_ex.kb; KS (of_string "INCLUDE000007"); C07_clean_ex.ka; KI 5] /\
  sd_lc C07_clean_ex.clean = [(1%N, of_string "// c"); (3%N, of_string "// c")] /\
  clean_state C07_clean_ex.clean = true /\ sd_clean C07_clean_ex.clean = C07_clean_ex.clean /\
  sd_clean (sd_clean C07_clean_ex.dirty) = sd_clean C07_clean_ex.dirty.
Proof.
  assert (W : wf (Dict (sd_data C07_clean_ex.dirty)) = true) by (vm_compute; reflexivity).
  assert (T : tabs_ok C07_clean_ex.dirty = true) by (vm_compute; reflexivity).
  destruct (C07_clean_establishes _ W T) as [C _].
  split; [exact W|]. split; [exact T|]. split; [vm_compute; reflexivity|]. split; [vm_compute; discriminate|].
  split; [vm_compute; reflexivity|]. split; [vm_compute; reflexivity|]. split; [exact C|].
  split; [exact (C07_clean_fixpoint _ C)|exact (C07_clean_idempotent _ W T)].
Qed.

(* finding (model only: a Python dict cannot hold one id twice): with a repeated id in a side table the clean-up is not
   idempotent -- deleting the first row of id 1 uncovers the second one *)
Example C07_clean_idempotent_ids_finding :
  let s := mkSD [C07_clean_ex.ph "BLOCKCOMMENT000001"; C07_clean_ex.ph "xBLOCKCOMMENT000001"; C07_clean_ex.ph "BLOCKCOMMENT000002"]
                [] [(1%N, of_string "/* a */"); (1%N, of_string "/* b */"); (2%N, of_string "/* b */")] [] [] in
  wf (Dict (sd_data s)) = true /\ tabs_ok s = false /\ sd_clean (sd_clean s) <> sd_clean s.
Proof. cbv zeta. split; [vm_compute; reflexivity|]. split; [vm_compute; reflexivity|]. vm_compute. discriminate. Qed.

(* the invariant is hereditary: a sub-dict of a clean state, with the tables of the state, is a clean state ... *)
Theorem C07_clean_hereditary : forall s p sub, clean_state s = true -> get_dpath (Dict (sd_data s)) p = Some (Dict sub) ->
  clean_state (mkSD sub (sd_lc s) (sd_bc s) (sd_inc s) (sd_expr s)) = true.
Proof. exact clean_state_sub. Qed.
Print Assumptions C07_clean_hereditary.

(* ... so SDict.update of the emptied state with one of its sub-dicts (what reduce_scope does) gives that sub-dict *)
Theorem C07_clean_update_sub : forall s p sub, clean_state s = true -> get_dpath (Dict (sd_data s)) p = Some (Dict sub) ->
  sd_update (mkSD [] (sd_lc s) (sd_bc s) (sd_inc s) (sd_expr s)) sub None = mkSD sub (sd_lc s) (sd_bc s) (sd_inc s) (sd_expr s).
Proof. exact clean_state_update_sub. Qed.
Print Assumptions C07_clean_update_sub.

Example C07_clean_update_sub_nonvacuous :
  let s := C07_clean_ex.clean in
  exists sub, clean_state s = true /\ get_dpath (Dict (sd_data s)) [C07_clean_ex.ka] = Some (Dict sub) /\
    map fst sub = [KS (of_string "LINECOMMENT000003"); C07_clean_ex.kb; KS (of_string "BLOCKCOMMENT000099")] /\
    clean_state (mkSD sub (sd_lc s) (sd_bc s) (sd_inc s) (sd_expr s)) = true /\
    sd_update (mkSD [] (sd_lc s) (sd_bc s) (sd_inc s) (sd_expr s)) sub None = mkSD sub (sd_lc s) (sd_bc s) (sd_inc s) (sd_expr s).
Proof.
  cbv zeta.
  assert (C : clean_state C07_clean_ex.clean = true) by (vm_compute; reflexivity).
  destruct (get_dpath (Dict (sd_data C07_clean_ex.clean)) [C07_clean_ex.ka]) as [[v|sub|ts]|] eqn:P; try (vm_compute in P; discriminate P).
  exists sub. split; [exact C|]. split; [reflexivity|]. split; [vm_compute in P; injection P as <-; reflexivity|].
  split; [exact (C07_clean_hereditary _ _ _ C P)|exact (C07_clean_update_sub _ _ _ C P)].
Qed.

(* update and merge end in a clean state (any argument, any tables of the argument) *)
Theorem C07_update_merge_clean : forall s m o, wf (Dict (sd_data s)) = true -> wf (Dict m) = true -> tabs_ok s = true ->
  (clean_state (sd_update s m o) = true /\ tabs_ok (sd_update s m o) = true) /\
  (clean_state (sd_merge s m o) = true /\ tabs_ok (sd_merge s m o) = true).
Proof.
  intros s m o Hs Hm Ht. split.
  - apply sd_update_good; [exact Hs| |exact Ht]. apply SDictProofs.wf_Dict_iff in Hm. exact (proj2 Hm).
  - apply sd_merge_good; assumption.
Qed.
Print Assumptions C07_update_merge_clean.

Example C07_update_merge_clean_nonvacuous :
  let s := C07_clean_ex.clean in let o := C07_clean_ex.dirty in
  wf (Dict (sd_data s)) = true /\ wf (Dict (sd_data o)) = true /\ tabs_ok s = true /\
  clean_state (sd_update s (sd_data o) (Some o)) = true /\ clean_state (sd_merge s (sd_data o) (Some o)) = true /\
  sd_lc (sd_merge s (sd_data o) (Some o)) = [(1%N, of_string "// c"); (3%N, of_string "// c")].
Proof.
  cbv zeta.
  assert (W : wf (Dict (sd_data C07_clean_ex.clean)) = true) by (vm_compute; reflexivity).
  assert (W2 : wf (Dict (sd_data C07_clean_ex.dirty)) = true) by (vm_compute; reflexivity).
  assert (T : tabs_ok C07_clean_ex.clean = true) by (vm_compute; reflexivity).
  destruct (C07_update_merge_clean _ _ (Some C07_clean_ex.dirty) W W2 T) as [[A _] [B _]].
  split; [exact W|]. split; [exact W2|]. split; [exact T|]. split; [exact A|]. split; [exact B|]. vm_compute. reflexivity.
Qed.

(* the exact characterisation, used in both directions on the example state *)
Example C07_clean_exact_nonvacuous :
  sd_clean C07_clean_ex.dirty <> C07_clean_ex.dirty /\ sd_clean C07_clean_ex.clean = C07_clean_ex.clean.
Proof.
  split.
  - intro H.
    assert (Hc : clean_state C07_clean_ex.dirty = true)
      by (apply (proj2 (C07_clean_exact C07_clean_ex.dirty eq_refl eq_refl)); exact H).
    vm_compute in Hc. discriminate Hc.
  - apply (proj1 (C07_clean_exact C07_clean_ex.clean eq_refl eq_refl)). vm_compute. reflexivity.
Qed.
