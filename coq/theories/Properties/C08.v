(* C08  Results do not depend on working directory, path spelling or earlier operations (logic part: the
   placeholder counter; the rest is observed by replaying operations after different prefixes / cwd). *)
From Coq Require Import NArith ZArith List Bool.
From DictIO Require Import Chars Str Value Scalar Lexer MiscSpec CliProofs.
Import ListNotations.

(* the counter stays within the six digits of a placeholder, whatever its history *)
Theorem C08_counter_range : forall n c, counter_ok c -> (0 <= counter_iter (S n) c <= 999999)%Z.
Proof. exact counter_range. Qed.
Print Assumptions C08_counter_range.

(* non-vacuity: the fresh counter (-1), a mid-range value and the last value before the wrap-around are admissible *)
Example C08_counter_range_nonvacuous :
  counter_ok (-1)%Z /\ counter_ok 123456%Z /\ counter_ok 999999%Z /\
  (0 <= counter_iter 5 999998%Z <= 999999)%Z /\ counter_iter 5 999998%Z = 3%Z.
Proof.
  assert (H : counter_ok 999998%Z) by (unfold counter_ok; split; discriminate).
  refine (conj _ (conj _ (conj _ (conj (C08_counter_range 4 _ H) _))));
    [unfold counter_ok; split; discriminate .. | vm_compute; reflexivity].
Qed.

(* ids handed out within one operation are pairwise distinct, also across the wrap-around, as long as fewer
   than 10^6 are drawn: so placeholder entries never collide, whatever value the counter started from *)
Theorem C08_ids_distinct : forall c n m, counter_ok c -> (n < m)%nat -> (m - n < 1000000)%nat ->
  counter_iter (S n) c <> counter_iter (S m) c.
Proof. exact counter_distinct. Qed.
Print Assumptions C08_ids_distinct.

(* non-vacuity: the 1st and the 6th id drawn from 999997 lie on different sides of the wrap-around *)
Example C08_ids_distinct_nonvacuous :
  counter_ok 999997%Z /\ (0 < 5)%nat /\ (5 - 0 < 1000000)%nat /\
  counter_iter 1 999997%Z = 999998%Z /\ counter_iter 6 999997%Z = 3%Z /\
  counter_iter 1 999997%Z <> counter_iter 6 999997%Z.
Proof.
  assert (H1 : counter_ok 999997%Z) by (unfold counter_ok; split; discriminate).
  assert (H2 : (0 < 5)%nat) by (apply PeanoNat.Nat.ltb_lt; reflexivity).
  assert (H3 : (5 - 0 < 1000000)%nat) by (apply PeanoNat.Nat.ltb_lt; vm_compute; reflexivity).
  refine (conj H1 (conj H2 (conj H3 (conj _ (conj _ (C08_ids_distinct _ 0 5 H1 H2 H3)))))); vm_compute; reflexivity.
Qed.

(* the k-th id after a start value is that value plus k modulo 10^6 *)
Theorem C08_counter_closed_form : forall n c, counter_ok c ->
  counter_iter (S n) c = ((c + 1 + Z.of_nat n) mod 1000000)%Z.
Proof. exact counter_closed_form. Qed.
Print Assumptions C08_counter_closed_form.

Example C08_counter_closed_form_nonvacuous :
  counter_ok (-1)%Z /\ counter_iter 8 (-1)%Z = ((-1 + 1 + Z.of_nat 7) mod 1000000)%Z /\ counter_iter 8 (-1)%Z = 7%Z.
Proof.
  assert (H : counter_ok (-1)%Z) by (unfold counter_ok; split; discriminate).
  refine (conj H (conj (C08_counter_closed_form 7 _ H) _)). vm_compute. reflexivity.
Qed.

Example C08_wrap : counter_iter 3 999998%Z = 1%Z /\ counter_ok 999998%Z.
Proof. split; [vm_compute; reflexivity | unfold counter_ok; split; discriminate]. Qed.
