(* C08  Results do not depend on working directory, path spelling or earlier operations (logic part: the
   placeholder counter; the rest is observed by replaying operations after different prefixes / cwd). *)
From Coq Require Import NArith ZArith List Bool.
From DictIO Require Import Chars Str Value Scalar Lexer MiscSpec CliProofs.
Import ListNotations.

(* the counter stays within the six digits of a placeholder, whatever its history *)
Theorem C08_counter_range : forall n c, counter_ok c -> (0 <= counter_iter (S n) c <= 999999)%Z.
Proof. exact counter_range. Qed.
Print Assumptions C08_counter_range.

(* ids handed out within one operation are pairwise distinct, also across the wrap-around, as long as fewer
   than 10^6 are drawn: so placeholder entries never collide, whatever value the counter started from *)
Theorem C08_ids_distinct : forall c n m, counter_ok c -> (n < m)%nat -> (m - n < 1000000)%nat ->
  counter_iter (S n) c <> counter_iter (S m) c.
Proof. exact counter_distinct. Qed.
Print Assumptions C08_ids_distinct.

(* the k-th id after a start value is that value plus k modulo 10^6 *)
Theorem C08_counter_closed_form : forall n c, counter_ok c ->
  counter_iter (S n) c = ((c + 1 + Z.of_nat n) mod 1000000)%Z.
Proof. exact counter_closed_form. Qed.
Print Assumptions C08_counter_closed_form.

Example C08_wrap : counter_iter 3 999998%Z = 1%Z /\ counter_ok 999998%Z.
Proof. split; [vm_compute; reflexivity | unfold counter_ok; split; discriminate]. Qed.
