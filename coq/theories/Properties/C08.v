(* placeholder until the proofs are integrated *)
From DictIO Require Import Chars Str Value Scalar.
Theorem C08_placeholder : True. Proof. exact I. Qed.
Print Assumptions C08_placeholder.
